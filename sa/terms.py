"""Canonical terms: the normal form in which rule specifications and repository expressions meet.

A term is a nested tuple.  Smart constructors keep the following normal form:

  * arithmetic (+, -, *, unary -, small integer powers) over numbers is a polynomial over opaque sub-terms, so
    ``a - b > 0``, ``a > b`` and ``b < a`` are one term ``('lt', b - a)``   (meaning  b - a < 0);
  * comparisons are ``('lt', p)`` (p < 0), ``('le', p)`` (p <= 0), ``('eq', a, b)``, ``('ne', a, b)`` (operands sorted);
  * ``not`` is pushed inwards, ``and`` / ``or`` in boolean context are flattened, de-duplicated and sorted;
  * ``x <= max(a, b)`` style comparisons are expanded into disjunctions / conjunctions;
  * ``len(x) > 0`` / ``len(x) == 0`` are the truthiness of ``x`` / its negation;
  * conditional expressions are ``('select', cond, then, else)`` with ``cond`` in positive form, and attribute /
    index access is distributed over them;
  * lambdas and comprehensions are alpha-renamed to de-Bruijn levels ``('bv', k)``.

Nothing here evaluates repository code; terms are built from syntax only.
"""
from __future__ import annotations

from typing import Callable, Dict, Iterable, List, Optional, Tuple

Term = tuple

TRUE = ("c", True)
FALSE = ("c", False)
NONE = ("c", None)


def C(v) -> Term:
    if isinstance(v, float) and v.is_integer() and abs(v) < 1e15:
        v = int(v)
    return ("c", v)


def V(name: str) -> Term:
    return ("v", name)


def key(t) -> str:
    return repr(t)


def is_num_const(t) -> bool:
    return isinstance(t, tuple) and len(t) == 2 and t[0] == "c" and isinstance(t[1], (int, float)) \
        and not isinstance(t[1], bool)


# ---------------------------------------------------------------------- polynomials
def to_poly(t: Term) -> Dict[tuple, object]:
    if is_num_const(t):
        return {(): t[1]} if t[1] != 0 else {}
    if t[0] == "poly":
        return dict(t[1])
    return {(t,): 1}


def from_poly(p: Dict[tuple, object]) -> Term:
    p = {m: c for m, c in p.items() if c != 0}
    if not p:
        return C(0)
    if len(p) == 1:
        (m, c), = p.items()
        if m == ():
            return C(c)
        if c == 1 and len(m) == 1:
            return m[0]
    items = []
    for m, c in p.items():
        if isinstance(c, float) and c.is_integer():
            c = int(c)
        items.append((m, c))
    return ("poly", tuple(sorted(items, key=key)))


def p_add(a: Term, b: Term) -> Term:
    pa, pb = to_poly(a), to_poly(b)
    out = dict(pa)
    for m, c in pb.items():
        out[m] = out.get(m, 0) + c
    return from_poly(out)


def p_neg(a: Term) -> Term:
    return from_poly({m: -c for m, c in to_poly(a).items()})


def p_sub(a: Term, b: Term) -> Term:
    return p_add(a, p_neg(b))


def p_mul(a: Term, b: Term) -> Term:
    pa, pb = to_poly(a), to_poly(b)
    out: Dict[tuple, object] = {}
    for m1, c1 in pa.items():
        for m2, c2 in pb.items():
            m = tuple(sorted(m1 + m2, key=key))
            out[m] = out.get(m, 0) + c1 * c2
    return from_poly(out)


def poly_items(t: Term) -> List[Tuple[tuple, object]]:
    return sorted(to_poly(t).items(), key=key)


# ---------------------------------------------------------------------- comparisons / booleans
def _len_arg(t: Term) -> Optional[Term]:
    if t[0] == "call" and t[1] in ("len", "numpy.size") and len(t[2]) == 1 and not t[3]:
        return t[2][0]
    if t[0] == "attr" and t[2] == "size":
        return t[1]                      # arr.size compared with 0 / 1: the same emptiness test as len(arr)
    if t[0] == "idx" and t[2] == ("c", 0) and t[1][0] == "attr" and t[1][2] == "shape":
        return t[1][1]                   # arr.shape[0]
    return None


def _cmp_len_rewrite(tag: str, p: Term) -> Optional[Term]:
    """len(x) compared with 0 / 1  ->  truthiness of x."""
    items = to_poly(p)
    if len([m for m in items if m != ()]) != 1:
        return None
    (m, c), = [(m, c) for m, c in items.items() if m != ()]
    if len(m) != 1 or c not in (1, -1):
        return None
    x = _len_arg(m[0])
    if x is None:
        return None
    k = items.get((), 0)
    # c*len + k  (tag) 0
    if tag == "lt":
        if c == -1 and k == 0:   # -len < 0  <=> len > 0
            return x
        if c == 1 and k == -1:   # len - 1 < 0 <=> len < 1
            return mk_not(x)
    if tag == "le":
        if c == -1 and k == 1:   # 1 - len <= 0 <=> len >= 1
            return x
        if c == 1 and k == 0:    # len <= 0
            return mk_not(x)
    return None


def _expand_minmax(tag: str, p: Term) -> Optional[Term]:
    items = to_poly(p)
    cands = []
    for m, c in items.items():
        if len(m) == 1 and m[0][0] == "call" and m[0][1] in ("min", "max") and not m[0][3] \
                and len(m[0][2]) >= 2 and c in (1, -1):
            cands.append((m, c))
    if len(cands) != 1:
        return None
    (m, c) = cands[0]
    fn = m[0][1]
    args = m[0][2]
    rest = from_poly({mm: cc for mm, cc in items.items() if mm != m})
    parts = []
    for a in args:
        q = p_add(a, rest) if c == 1 else p_sub(rest, a)
        parts.append(mk_cmp0(tag, q))
    # c == 1:  M + rest (<) 0  <=>  M (<) -rest ; max -> all, min -> any
    # c == -1: rest - M (<) 0  <=>  M (>) rest ; max -> any, min -> all
    conj = (fn == "max") == (c == 1)
    return mk_and(parts) if conj else mk_or(parts)


def mk_cmp0(tag: str, p: Term) -> Term:
    """p < 0  or  p <= 0"""
    if is_num_const(p):
        return C(p[1] < 0 if tag == "lt" else p[1] <= 0)
    r = _cmp_len_rewrite(tag, p)
    if r is not None:
        return r
    r = _expand_minmax(tag, p)
    if r is not None:
        return r
    return (tag, p)


def mk_lt(a, b):
    return mk_cmp0("lt", p_sub(a, b))


def mk_le(a, b):
    return mk_cmp0("le", p_sub(a, b))


def mk_gt(a, b):
    return mk_lt(b, a)


def mk_ge(a, b):
    return mk_le(b, a)


def mk_eq(a, b):
    if a == b:
        return TRUE
    if a[0] == "c" and b[0] == "c":
        return C(a[1] == b[1])
    for x, y in ((a, b), (b, a)):
        la = _len_arg(x)
        if la is not None and y == C(0):
            return mk_not(la)
    x, y = sorted((a, b), key=key)
    return ("eq", x, y)


def mk_ne(a, b):
    return mk_not(mk_eq(a, b))


def mk_not(t: Term) -> Term:
    tag = t[0]
    if tag == "c":
        return C(not t[1])
    if tag == "lt":
        return mk_cmp0("le", p_neg(t[1]))
    if tag == "le":
        return mk_cmp0("lt", p_neg(t[1]))
    if tag == "eq":
        return ("ne", t[1], t[2])
    if tag == "ne":
        return ("eq", t[1], t[2])
    if tag == "not":
        return t[1]
    if tag == "and":
        return mk_or([mk_not(x) for x in t[1]])
    if tag == "or":
        return mk_and([mk_not(x) for x in t[1]])
    if tag == "in":
        return ("notin", t[1], t[2])
    if tag == "notin":
        return ("in", t[1], t[2])
    if tag == "isnone":
        return ("notnone", t[1])
    if tag == "notnone":
        return ("isnone", t[1])
    if tag == "is":
        return ("isnot", t[1], t[2])
    if tag == "isnot":
        return ("is", t[1], t[2])
    if tag in ("andthen",):
        return mk_or([mk_not(as_bool(x)) for x in t[1]])
    if tag in ("orelse",):
        return mk_and([mk_not(as_bool(x)) for x in t[1]])
    return ("not", t)


def _flat(tag: str, ts: Iterable[Term]) -> List[Term]:
    out: List[Term] = []
    for t in ts:
        if t[0] == tag:
            out.extend(t[1])
        else:
            out.append(t)
    return out


def mk_and(ts: Iterable[Term]) -> Term:
    xs = []
    for t in _flat("and", ts):
        if t == TRUE:
            continue
        if t == FALSE:
            return FALSE
        if t not in xs:
            xs.append(t)
    for t in xs:
        if mk_not(t) in xs:
            return FALSE
    if not xs:
        return TRUE
    if len(xs) == 1:
        return xs[0]
    return ("and", tuple(sorted(xs, key=key)))


def mk_or(ts: Iterable[Term]) -> Term:
    xs = []
    for t in _flat("or", ts):
        if t == FALSE:
            continue
        if t == TRUE:
            return TRUE
        if t not in xs:
            xs.append(t)
    for t in xs:
        if mk_not(t) in xs:
            return TRUE
    if not xs:
        return FALSE
    if len(xs) == 1:
        return xs[0]
    return ("or", tuple(sorted(xs, key=key)))


def as_bool(t: Term) -> Term:
    """Read a value-level term as a condition (``a and b`` returned from a predicate, ...)."""
    tag = t[0]
    if tag == "andthen":
        return mk_and([as_bool(x) for x in t[1]])
    if tag == "orelse":
        return mk_or([as_bool(x) for x in t[1]])
    if tag == "select":
        c, a, b = t[1], as_bool(t[2]), as_bool(t[3])
        return mk_or([mk_and([c, a]), mk_and([mk_not(c), b])])
    if tag == "not":
        return mk_not(as_bool(t[1]))
    if tag == "and":
        return mk_and([as_bool(x) for x in t[1]])
    if tag == "or":
        return mk_or([as_bool(x) for x in t[1]])
    if tag == "call" and t[1] == "bool" and len(t[2]) == 1 and not t[3]:
        return as_bool(t[2][0])
    if tag == "c" and not isinstance(t[1], bool) and (t[1] is None or isinstance(t[1], (int, float, str))):
        return C(bool(t[1]))
    return t


_NEG_TAGS = {"not", "le", "ne", "notin", "notnone", "isnot"}


def positive(cond: Term) -> Tuple[Term, bool]:
    """(positive form, polarity): cond == positive if polarity else not positive."""
    if cond[0] in _NEG_TAGS:
        return mk_not(cond), False
    return cond, True


def mk_select(c: Term, a: Term, b: Term) -> Term:
    if a == b:
        return a
    if c == TRUE:
        return a
    if c == FALSE:
        return b
    pc, pol = positive(c)
    if not pol:
        a, b = b, a
    if pc == TRUE:
        return a
    if pc == FALSE:
        return b
    if pc[0] == "lt":
        # (a if a > b else b) == max(a, b) ; (a if a < b else b) == min(a, b)   [ties give equal values]
        try:
            if pc[1] == p_sub(b, a):        # a > b  -> a
                return mk_call("max", [a, b])
            if pc[1] == p_sub(a, b):        # a < b  -> a
                return mk_call("min", [a, b])
        except Exception:
            pass
    return ("select", pc, a, b)


# classes introduced after the pinned tree whose instances are plain records (NamedTuple / dataclass without __init__):
# qualified name -> field names in order.  Filled by norm.Ctx; a field read of a freshly built record is the argument it was
# built with, so a tuple of values passed between helpers as a small record reads like the values themselves.
RECORD_CLASSES: Dict[str, Tuple[str, ...]] = {}


def _record_field(base: Term, name: Optional[str] = None, index: Optional[int] = None) -> Optional[Term]:
    if base[0] != "new" or base[1] not in RECORD_CLASSES:
        return None
    fields = RECORD_CLASSES[base[1]]
    args = dict(base[2])
    if name is None and index is not None and -len(fields) <= index < len(fields):
        name = fields[index]
    if name in fields and name in args:
        return args[name]
    return None


def mk_attr(base: Term, name: str) -> Term:
    if base[0] == "select":
        return mk_select(base[1], mk_attr(base[2], name), mk_attr(base[3], name))
    r = _record_field(base, name=name)
    if r is not None:
        return r
    if base[0] == "ext":
        return ("ext", base[1] + "." + name)     # math.inf  ==  `from math import inf`
    return ("attr", base, name)


def mk_idx(base: Term, i: Term) -> Term:
    if base[0] == "attr" and base[2] == "loc" and i[0] == "tuple" and len(i[1]) == 2 and i[1][1][0] == "c" and isinstance(i[1][1][1], str):
        return mk_idx(mk_idx(base[1], i[1][0]), i[1][1])      # frame.loc[mask, "col"] == frame[mask]["col"]
    if base[0] == "select":
        return mk_select(base[1], mk_idx(base[2], i), mk_idx(base[3], i))
    if base[0] == "new" and i[0] == "c" and isinstance(i[1], int) and not isinstance(i[1], bool):
        r = _record_field(base, index=i[1])
        if r is not None:
            return r
    if base[0] in ("tuple", "list") and i[0] == "c" and isinstance(i[1], int) and -len(base[1]) <= i[1] < len(base[1]) \
            and not any(x[0] == "star" for x in base[1]):
        return base[1][i[1]]
    if base[0] == "comp" and base[1] in ("list", "tuple") and len(base[3]) == 1 and not base[3][0][1] \
            and base[3][0][0][0] in ("tuple", "list") and i[0] == "c" and isinstance(i[1], int) and not isinstance(i[1], bool) \
            and -len(base[3][0][0][1]) <= i[1] < len(base[3][0][0][1]) and not any(x[0] == "star" for x in base[3][0][0][1]):
        # [f(k) for k in (a, b)][1] == f(b): a comprehension over a display, indexed by a constant
        bvs = {x for x in subterms(base[2]) if x[0] == "bv"}
        if len(bvs) <= 1:
            return substitute(base[2], {b: base[3][0][0][1][i[1]] for b in bvs})
    if base[0] == "slice" and base[3] == NONE and base[4] == NONE and is_num_const(i) and isinstance(i[1], int) and i[1] >= 0:
        lo = base[2]
        if lo == NONE:
            return mk_idx(base[1], i)                      # xs[:][k] == xs[k]
        if is_num_const(lo) and isinstance(lo[1], int) and lo[1] >= 0:
            return mk_idx(base[1], C(lo[1] + i[1]))        # xs[a:][k] == xs[a + k]
    return ("idx", base, i)


def dict_lookup(t: Term) -> Term:
    """{..., K: v, ...}[K] == v for a dict display with constant keys and a constant K (the last entry wins). Applied where a
    value is only *read* (the iterable of a loop): the display's lists keep their identity everywhere else."""
    if t[0] == "idx" and t[1][0] == "dict" and t[2][0] == "c" and all(k is not None and k[0] == "c" for k, _ in t[1][1]):
        hits = [v for k, v in t[1][1] if k[1] == t[2][1] and type(k[1]) is type(t[2][1])]
        if hits:
            return hits[-1]
    return t


def mk_slice(base: Term, lo: Term, hi: Term, step: Term) -> Term:
    if base[0] == "select":
        return mk_select(base[1], mk_slice(base[2], lo, hi, step), mk_slice(base[3], lo, hi, step))
    if lo == C(0):
        lo = NONE
    if step == C(1):
        step = NONE
    if base[0] == "slice" and base[2:] == (NONE, NONE, NONE):
        base = base[1]                       # a slice of a full copy xs[:] is that slice of xs
    # xs[prefixlen(P, xs):] == dropwhile(P, xs) ; xs[:prefixlen(P, xs)] == takewhile(P, xs)   (see sa/desugar.py)
    def plen(t):
        return t[0] == "call" and t[1] == "sa.prefixlen" and len(t[2]) == 2 and t[2][1] == base
    if step == NONE and hi == NONE and plen(lo):
        return ("call", "itertools.dropwhile", (lo[2][0], base), ())
    if step == NONE and lo == NONE and plen(hi):
        return ("call", "itertools.takewhile", (hi[2][0], base), ())
    return ("slice", base, lo, hi, step)


def mk_call(name: str, args: Iterable[Term], kwargs: Iterable[Tuple[str, Term]] = ()) -> Term:
    args = tuple(args)
    kwargs = tuple(sorted(kwargs, key=lambda kv: kv[0]))
    if name in ("min", "max") and len(args) >= 2 and not kwargs:
        flat = []
        for a in args:
            if a[0] == "call" and a[1] == name and len(a[2]) >= 2 and not a[3]:
                flat.extend(a[2])
            else:
                flat.append(a)
        uniq = []
        for a in flat:
            if a not in uniq:
                uniq.append(a)
        if all(is_num_const(a) for a in uniq):
            vals = [a[1] for a in uniq]
            return C(min(vals) if name == "min" else max(vals))
        if len(uniq) == 1:
            return uniq[0]
        args = tuple(sorted(uniq, key=key))
    if name == "abs" and len(args) == 1 and not kwargs:
        a = args[0]
        if is_num_const(a):
            return C(abs(a[1]))
        # abs(x) == abs(-x): canonical sign = the one whose repr sorts first
        n = p_neg(a)
        if key(n) < key(a):
            a = n
        return ("call", "abs", (a,), ())
    if name in ("itertools.islice", "islice") and not kwargs and 2 <= len(args) <= 3:
        # islice(xs, n) == xs[:n] ; islice(xs, a, b) == xs[a:b]   (as a description of which elements are visited)
        if len(args) == 2:
            return mk_slice(args[0], NONE, args[1], NONE)
        return mk_slice(args[0], args[1], args[2], NONE)
    if name in ("sorted", "set", "frozenset", "list", "tuple", "min", "max", "sum", "any", "all", "len") and len(args) == 1 \
            and args[0][0] == "call" and args[0][1] in ("list", "tuple") and len(args[0][2]) == 1 and not args[0][3]:
        # consumer(list(xs)) == consumer(xs): the intermediate copy is not observable
        return mk_call(name, args[0][2], kwargs)
    if name == "list" and len(args) == 1 and not kwargs and args[0][0] == "comp" and args[0][1] == "gen":
        return ("comp", "list") + args[0][2:]
    if name == "int" and len(args) == 1 and is_num_const(args[0]) and not kwargs:
        return C(int(args[0][1]))
    return ("call", name, args, kwargs)


# ---------------------------------------------------------------------- generic traversal
def children(t: Term) -> List[Term]:
    """Immediate sub-terms (only those that are terms)."""
    out = []

    def rec(x):
        if isinstance(x, tuple):
            if x and isinstance(x[0], str) and _is_term(x):
                out.append(x)
            else:
                for y in x:
                    rec(y)
    for x in t[1:]:
        rec(x)
    return out


_TAGS = {"c", "v", "attr", "idx", "slice", "poly", "lt", "le", "eq", "ne", "not", "and", "or", "in", "notin", "isnone",
         "notnone", "is", "isnot", "andthen", "orelse", "select", "call", "mcall", "app", "new", "lam", "comp", "bv",
         "tuple", "list", "set", "dict", "fstr", "fmt", "star", "div", "binop", "pow", "concat", "rep", "cls", "fn",
         "ext", "elem", "unk", "yieldval", "dictcomp", "await", "kwstar"}


def _is_term(x) -> bool:
    return isinstance(x, tuple) and len(x) >= 1 and isinstance(x[0], str) and x[0] in _TAGS


def subterms(t: Term):
    """All sub-terms, pre-order, including t."""
    stack = [t]
    while stack:
        x = stack.pop()
        yield x
        stack.extend(reversed(children(x)))


def contains(t: Term, sub: Term) -> bool:
    return any(x == sub for x in subterms(t))


def rebuild(t: Term, f: Callable[[Term], Term]) -> Term:
    """Apply f to every immediate sub-term and re-normalise with the smart constructors."""
    tag = t[0]
    if tag in ("c", "v", "bv", "cls", "fn", "ext", "unk"):
        return t
    if tag == "attr":
        return mk_attr(f(t[1]), t[2])
    if tag == "idx":
        return mk_idx(f(t[1]), f(t[2]))
    if tag == "slice":
        return mk_slice(f(t[1]), f(t[2]), f(t[3]), f(t[4]))
    if tag == "poly":
        acc = C(0)
        for m, c in t[1]:
            term = C(c)
            for factor in m:
                term = p_mul(term, f(factor))
            acc = p_add(acc, term)
        return acc
    if tag in ("lt", "le"):
        return mk_cmp0(tag, f(t[1]))
    if tag == "eq":
        return mk_eq(f(t[1]), f(t[2]))
    if tag == "ne":
        return mk_ne(f(t[1]), f(t[2]))
    if tag == "not":
        return mk_not(f(t[1]))
    if tag == "and":
        return mk_and([f(x) for x in t[1]])
    if tag == "or":
        return mk_or([f(x) for x in t[1]])
    if tag in ("in", "notin", "is", "isnot", "div", "pow", "elem"):
        return (tag, f(t[1]), f(t[2])) if tag != "elem" else (tag, f(t[1]), t[2])
    if tag in ("isnone", "notnone", "star", "await", "kwstar", "yieldval"):
        return (tag, f(t[1]))
    if tag in ("andthen", "orelse", "tuple", "list", "concat"):
        return (tag, tuple(f(x) for x in t[1]))
    if tag == "set":
        return (tag, tuple(sorted({f(x) for x in t[1]}, key=key)))
    if tag == "select":
        return mk_select(f(t[1]), f(t[2]), f(t[3]))
    if tag == "call":
        return mk_call(t[1], [f(x) for x in t[2]], [(k, f(v)) for k, v in t[3]])
    if tag == "mcall":
        return ("mcall", f(t[1]), t[2], tuple(f(x) for x in t[3]), tuple((k, f(v)) for k, v in t[4]))
    if tag == "app":
        return ("app", t[1], f(t[2]) if t[2] is not None else None, tuple((k, f(v)) for k, v in t[3]))
    if tag == "new":
        return ("new", t[1], tuple((k, f(v)) for k, v in t[2]))
    if tag == "lam":
        return ("lam", t[1], f(t[2]))
    if tag == "comp":
        return ("comp", t[1], f(t[2]) if t[1] != "dict" else (f(t[2][0]), f(t[2][1])),
                tuple((f(it), tuple(f(c) for c in ifs)) for it, ifs in t[3]))
    if tag == "dict":
        return ("dict", tuple((f(k) if k is not None else None, f(v)) for k, v in t[1]))
    if tag == "fstr":
        return ("fstr", tuple(f(x) for x in t[1]))
    if tag == "fmt":
        return ("fmt", f(t[1]), t[2], t[3])
    if tag == "binop":
        return ("binop", t[1], f(t[2]), f(t[3]))
    if tag == "rep":
        return ("rep", f(t[1]), f(t[2]))
    return t


def substitute(t: Term, mapping: Dict[Term, Term]) -> Term:
    if t in mapping:
        return mapping[t]
    return rebuild(t, lambda x: substitute(x, mapping))


def add_fact(facts: Dict[Term, bool], cond: Term, truth: bool):
    cond = as_bool(cond)
    pc, pol = positive(cond)
    truth = truth if pol else not truth
    if pc[0] == "and" and truth:
        for x in pc[1]:
            add_fact(facts, x, True)
        return
    if pc[0] == "or" and not truth:
        for x in pc[1]:
            add_fact(facts, x, False)
        return
    facts[pc] = truth
    # consequences between strict / non-strict forms of one polynomial
    if pc[0] == "lt" and truth:
        facts.setdefault(("lt", p_neg(pc[1])), False)      # p<0  =>  not(-p<0)
    _unit_propagate(facts)


def _unit_propagate(facts: Dict[Term, bool]):
    """not (a and b and c) with a, b known true leaves c false;  (a or b or c) with a, b known false leaves c true."""
    for f, tv in list(facts.items()):
        if not ((f[0] == "and" and tv is False) or (f[0] == "or" and tv is True)):
            continue
        need = f[0] == "and"           # the value every other operand must have for the last one to be forced
        open_ = []
        settled = False
        for x in f[1]:
            v = specialize(x, {k: w for k, w in facts.items() if k != f}, boolpos=True)
            if v[0] == "c" and isinstance(v[1], bool):
                if v[1] is not need:
                    settled = True
                    break
            else:
                open_.append(x)
        if not settled and len(open_) == 1:
            px, pol = positive(as_bool(open_[0]))
            want = (not need) if pol else need
            if px not in facts:
                pc2, pol2 = positive(as_bool(px))
                if pc2 in facts:
                    continue                 # already recorded under its normal form (the key add_fact would use)
                facts[px] = want             # recorded first: add_fact may file the fact under another normal form of the same term
                add_fact(facts, px, want)


def specialize(t: Term, facts: Dict[Term, bool], boolpos: bool = False) -> Term:
    """Simplify t knowing the truth value of some condition terms.  A fact is only used where its term stands in
    condition position (test of a conditional expression, operand of and/or/not, or the whole term when
    ``boolpos``); the same term used as a *value* (``P[0]`` when ``P`` is known to be non-empty) is left alone."""
    if not facts:
        return t

    def cond(x: Term) -> Term:
        if x in facts:
            return C(facts[x])
        if x[0] in _NEG_TAGS:
            px, pol = positive(x)
            if px in facts:
                return C(facts[px] if pol else not facts[px])
        tag = x[0]
        if tag in ("and", "or"):
            # De Morgan: the truth of (a or b) is known when that of (not a and not b) is, and the other way round
            dual = (mk_and if tag == "or" else mk_or)([mk_not(y) for y in x[1]])
            if dual in facts:
                return C(not facts[dual])
        if tag == "and":
            return mk_and([cond(y) for y in x[1]])
        if tag == "or":
            return mk_or([cond(y) for y in x[1]])
        if tag == "not":
            return mk_not(cond(x[1]))
        return val(x)

    def val(x: Term) -> Term:
        if x[0] == "select":
            return mk_select(cond(x[1]), val(x[2]), val(x[3]))
        return rebuild(x, val)
    return cond(t) if boolpos else val(t)


# ---------------------------------------------------------------------- pretty printing
def show(t, depth=0) -> str:
    if not isinstance(t, tuple) or not t:
        return repr(t)
    tag = t[0]
    if depth > 12:
        return "…"
    s = lambda x: show(x, depth + 1)
    if tag == "c":
        return repr(t[1])
    if tag == "v":
        return t[1]
    if tag == "bv":
        return f"${t[1]}"
    if tag == "attr":
        return f"{s(t[1])}.{t[2]}"
    if tag == "idx":
        return f"{s(t[1])}[{s(t[2])}]"
    if tag == "slice":
        f = lambda x: "" if x == NONE else s(x)
        st = "" if t[4] == NONE else ":" + s(t[4])
        return f"{s(t[1])}[{f(t[2])}:{f(t[3])}{st}]"
    if tag == "poly":
        parts = []
        for m, c in t[1]:
            if m == ():
                parts.append(repr(c))
            else:
                mono = "*".join(s(x) for x in m)
                parts.append(mono if c == 1 else (f"-{mono}" if c == -1 else f"{c}*{mono}"))
        return "(" + " + ".join(parts).replace("+ -", "- ") + ")"
    if tag == "lt":
        return f"{s(t[1])} < 0"
    if tag == "le":
        return f"{s(t[1])} <= 0"
    if tag in ("eq", "ne", "in", "notin", "is", "isnot"):
        op = {"eq": "==", "ne": "!=", "in": "in", "notin": "not in", "is": "is", "isnot": "is not"}[tag]
        return f"{s(t[1])} {op} {s(t[2])}"
    if tag == "isnone":
        return f"{s(t[1])} is None"
    if tag == "notnone":
        return f"{s(t[1])} is not None"
    if tag == "not":
        return f"not {s(t[1])}"
    if tag in ("and", "or"):
        return "(" + f" {tag} ".join(s(x) for x in t[1]) + ")"
    if tag == "andthen":
        return "(" + " AND-THEN ".join(s(x) for x in t[1]) + ")"
    if tag == "orelse":
        return "(" + " OR-ELSE ".join(s(x) for x in t[1]) + ")"
    if tag == "select":
        return f"({s(t[2])} IF {s(t[1])} ELSE {s(t[3])})"
    if tag == "call":
        a = [s(x) for x in t[2]] + [f"{k}={s(v)}" for k, v in t[3]]
        return f"{t[1]}({', '.join(a)})"
    if tag == "mcall":
        a = [s(x) for x in t[3]] + [f"{k}={s(v)}" for k, v in t[4]]
        return f"{s(t[1])}.{t[2]}({', '.join(a)})"
    if tag == "app":
        name = t[1].split(":")[-1]
        a = [f"{k}={s(v)}" for k, v in t[3]]
        recv = f"{s(t[2])}->" if t[2] is not None else ""
        return f"{recv}{name}({', '.join(a)})"
    if tag == "new":
        a = [f"{k}={s(v)}" for k, v in t[2]]
        return f"new {t[1].split(':')[-1]}({', '.join(a)})"
    if tag == "lam":
        return f"(λ{t[1]}. {s(t[2])})"
    if tag == "comp":
        gens = " ".join(f"for {s(it)}" + "".join(f" if {s(c)}" for c in ifs) for it, ifs in t[3])
        elt = s(t[2]) if t[1] != "dict" else f"{s(t[2][0])}: {s(t[2][1])}"
        return f"{t[1]}<{elt} {gens}>"
    if tag in ("tuple", "list", "set", "concat", "fstr"):
        op = {"tuple": "(%s)", "list": "[%s]", "set": "{%s}", "concat": "concat(%s)", "fstr": "f\"%s\""}[tag]
        return op % ", ".join(s(x) for x in t[1])
    if tag == "dict":
        return "{" + ", ".join(f"{s(k) if k is not None else '**'}: {s(v)}" for k, v in t[1]) + "}"
    if tag == "fmt":
        return "{" + s(t[1]) + (f":{t[3]}" if t[3] else "") + "}"
    if tag in ("cls", "fn", "ext"):
        return t[1].split(":")[-1]
    if tag == "elem":
        return f"elem#{t[2]}({s(t[1])})"
    if tag == "div":
        return f"({s(t[1])} / {s(t[2])})"
    if tag == "binop":
        return f"({s(t[2])} {t[1]} {s(t[3])})"
    if tag == "star":
        return "*" + s(t[1])
    return tag + "(" + ", ".join(show(x, depth + 1) if isinstance(x, tuple) else repr(x) for x in t[1:]) + ")"



def simplify_for_empty(t: Term) -> Term:
    """Identities that hold once a list has been replaced by []: concatenation with [], membership in [], comprehensions over [],
    always-true filters, the identity comprehension, sorted(list(x)). Used to compare the value of an 'empty' fast path with the
    general path's value specialised to the empty list (sa/props/c10.run_global_conditions)."""
    EMPTY = ("list", ())

    def go(x: Term) -> Term:
        x = rebuild(x, go)
        tag = x[0]
        if tag == "concat":
            parts = [y for y in x[1] if y != EMPTY]
            if not parts:
                return EMPTY
            return parts[0] if len(parts) == 1 else ("concat", tuple(parts))
        if tag == "notin" and x[2] == EMPTY:
            return C(True)
        if tag == "in" and x[2] == EMPTY:
            return C(False)
        if tag == "not" and x[1][0] == "c":
            return C(not x[1][1])
        if tag == "comp":
            kind, elt, gens = x[1], x[2], x[3]
            if any(it == EMPTY for it, _ in gens):
                return EMPTY if kind in ("list", "gen") else x
            new_gens = []
            for it, ifs in gens:
                ifs2 = tuple(c for c in ifs if c != C(True))
                if any(c == C(False) for c in ifs2):
                    return EMPTY if kind in ("list", "gen") else x
                new_gens.append((it, ifs2))
            x = ("comp", kind, elt, tuple(new_gens)) + tuple(x[4:])
            if kind == "list" and len(new_gens) == 1 and not new_gens[0][1] and elt[0] == "bv" and \
                    sum(1 for y in subterms(x) if y[0] == "bv") == 1:
                return mk_call("list", [new_gens[0][0]])
            return x
        if tag == "call" and x[1] in ("sorted", "list", "tuple") and len(x[2]) == 1:
            inner = x[2][0]
            if inner == EMPTY and x[1] in ("sorted", "list"):
                return EMPTY
            if inner[0] == "call" and inner[1] == "list" and len(inner[2]) == 1 and not inner[3]:
                return (x[0], x[1], (inner[2][0],)) + tuple(x[3:])
        if tag == "call" and x[1] == "len" and len(x[2]) == 1 and x[2][0] == EMPTY:
            return C(0)
        return x
    return go(t)

"""Call resolution and call graph over the parsed repository."""
from __future__ import annotations

import ast
from dataclasses import dataclass, field
from typing import Dict, List, Optional, Set, Tuple

from .loader import Program, ClassInfo, FunctionInfo, Module, Param, mangle, AnalysisError
from .types import Types, Inst, ClsT, FuncT, ModT, Ext, ListOf, TupleOf, UNKNOWN, _iter_own_nodes


@dataclass
class Callee:
    kind: str                      # 'fn' | 'ctor' | 'ext' | 'unknown'
    fn: Optional[FunctionInfo] = None      # for 'fn'; for 'ctor' the __init__ (may be None)
    cls: Optional[ClassInfo] = None        # for 'ctor'
    name: str = ""                 # dotted name for ext / text for unknown
    via: str = "type"              # 'type' | 'name-fallback' | 'super' | 'symbol'

    def params(self, program: Program) -> Optional[List[Param]]:
        if self.kind == "fn":
            return self.fn.call_params() if self.via != "unbound" else \
                [p for p in self.fn.params if p.kind in ("pos", "kwonly")]
        if self.kind == "ctor":
            return program.constructor_params(self.cls)
        return None

    @property
    def label(self) -> str:
        if self.kind == "fn":
            return self.fn.qualname
        if self.kind == "ctor":
            return self.cls.qualname + "()"
        return f"{self.kind}:{self.name}"


@dataclass
class CallSite:
    caller: FunctionInfo
    node: ast.Call
    callees: List[Callee]

    @property
    def where(self) -> str:
        return f"{self.caller.module.relpath}:{self.node.lineno}"

    @property
    def resolved(self) -> bool:
        return any(c.kind in ("fn", "ctor", "ext") for c in self.callees)

    def repo_callees(self) -> List[Callee]:
        return [c for c in self.callees if c.kind in ("fn", "ctor")]


def bind_args(params: List[Param], call: ast.Call) -> Tuple[Dict[str, ast.expr], bool]:
    """Bind call arguments to parameter names. Returns (binding, exact); exact is False when
    a *args / **kwargs at the call site makes positions unknown."""
    binding: Dict[str, ast.expr] = {}
    exact = True
    pos = [p for p in params if p.kind == "pos"]
    i = 0
    args = []
    for a in call.args:
        # f(*(a, b, c)) / f(*[a, b]) with a literal display is the positional call f(a, b, c)
        if isinstance(a, ast.Starred) and isinstance(a.value, (ast.Tuple, ast.List)) \
                and not any(isinstance(e, ast.Starred) for e in a.value.elts):
            args.extend(a.value.elts)
        else:
            args.append(a)
    for a in args:
        if isinstance(a, ast.Starred):
            exact = False
            break
        if i < len(pos):
            binding[pos[i].name] = a
        i += 1
    names = {p.name for p in params}
    for kw in call.keywords:
        if kw.arg is None:
            exact = False
            continue
        if kw.arg in names:
            binding[kw.arg] = kw.value
    return binding, exact


class CallGraph:
    def __init__(self, program: Program, types: Optional[Types] = None):
        self.p = program
        self.t = types or Types(program)
        self.sites: Dict[str, List[CallSite]] = {}       # caller qualname -> call sites
        self.edges: Dict[str, Set[str]] = {}             # caller qualname -> callee qualnames (repo fns)
        self.instantiated: Dict[str, Set[str]] = {}      # caller -> class qualnames constructed
        self.prop_reads: Dict[str, Set[str]] = {}
        self._by_name: Dict[str, List[FunctionInfo]] = {}
        for f in program.nontest_functions():
            if f.cls is not None:
                self._by_name.setdefault(mangle(f.name, f.cls.name), []).append(f)
        self._build()

    # ---------------------------------------------------------------- build
    def _build(self):
        for fn in self.p.nontest_functions():
            sites: List[CallSite] = []
            edges: Set[str] = set()
            inst: Set[str] = set()
            nodes = list(_iter_own_nodes(fn.node)) if not fn.is_lambda else list(ast.walk(fn.node.body))
            for node in nodes:
                if isinstance(node, ast.Lambda) and node is not fn.node:
                    lf = self.p.fn_of_node.get(id(node))
                    if lf is not None:
                        edges.add(lf.qualname)       # a lambda created here may be called from here
                if isinstance(node, ast.Call):
                    cs = CallSite(fn, node, self.resolve_call(fn, node))
                    sites.append(cs)
                    for c in cs.callees:
                        if c.kind == "fn":
                            edges.add(c.fn.qualname)
                        elif c.kind == "ctor":
                            inst.add(c.cls.qualname)
                            if c.fn is not None:
                                edges.add(c.fn.qualname)
                    # callables passed as arguments may be called
                    for a in list(node.args) + [k.value for k in node.keywords]:
                        at = self.t.type_of(fn, a) if not isinstance(a, ast.Starred) else UNKNOWN
                        if isinstance(at, FuncT):
                            edges.add(at.fn.qualname)
                elif isinstance(node, ast.Attribute) and isinstance(node.ctx, ast.Load):
                    bt = self.t.type_of(fn, node.value)
                    if isinstance(bt, Inst):
                        for m in self.p.lookup_overrides(bt.cls, node.attr, fn.enclosing_class):
                            if m.is_property:
                                edges.add(m.qualname)
                    elif bt is UNKNOWN:
                        # property read on an un-typed receiver: fall back on unique property names
                        cands = [m for m in self._by_name.get(mangle(node.attr, fn.enclosing_class.name
                                                                     if fn.enclosing_class else None), [])
                                 if m.is_property]
                        for m in cands:
                            edges.add(m.qualname)
            # nested defs may be called from here
            for ch in fn.children:
                edges.add(ch.qualname)
            self.sites[fn.qualname] = sites
            self.edges[fn.qualname] = edges
            self.instantiated[fn.qualname] = inst

    # ---------------------------------------------------------------- resolution
    def resolve_call(self, fn: FunctionInfo, call: ast.Call) -> List[Callee]:
        p, t = self.p, self.t
        f = call.func
        # super().m(...)
        if isinstance(f, ast.Attribute) and isinstance(f.value, ast.Call) and \
                isinstance(f.value.func, ast.Name) and f.value.func.id == "super":
            m = t._super_method(fn, f.attr)
            if m:
                return [Callee("fn", fn=m, via="super")]
            return [Callee("unknown", name="super()." + f.attr)]
        ft = t.type_of(fn, f)
        if isinstance(ft, ClsT):
            return [Callee("ctor", fn=p.lookup_method(ft.cls, "__init__", None), cls=ft.cls)]
        if isinstance(ft, FuncT):
            out = [Callee("fn", fn=ft.fn)]
            # dynamic dispatch through an instance receiver
            if isinstance(f, ast.Attribute):
                bt = t.type_of(fn, f.value)
                if isinstance(bt, Inst):
                    for m in p.lookup_overrides(bt.cls, f.attr, fn.enclosing_class):
                        if all(c.fn is not m for c in out):
                            out.append(Callee("fn", fn=m))
                elif isinstance(bt, ClsT) and ft.fn.binds_self and not ft.fn.is_classmethod:
                    out = [Callee("fn", fn=ft.fn, via="unbound")]      # Class.method(obj, ...): self is passed explicitly
            return out
        if isinstance(ft, Ext):
            return [Callee("ext", name=ft.name)]
        # un-typed receiver: unique-name fallback over repository methods
        if isinstance(f, ast.Attribute):
            key = mangle(f.attr, fn.enclosing_class.name if fn.enclosing_class else None)
            cands = [m for m in self._by_name.get(key, []) if not m.is_property]
            if cands and not _common_container_method(f.attr):
                return [Callee("fn", fn=m, via="name-fallback") for m in cands]
            return [Callee("unknown", name=_safe_unparse(f))]
        if isinstance(f, ast.Name):
            return [Callee("unknown", name=f.id)]
        return [Callee("unknown", name=_safe_unparse(f))]

    # ---------------------------------------------------------------- queries
    def reach(self, roots: List[FunctionInfo], include_dunders=True, barred_modules: Tuple[str, ...] = ()) -> Set[str]:
        """Functions reachable from roots. With include_dunders, special methods and properties of every class
        instantiated in reachable code are considered reachable as well (operators, sorting, hashing).
        Functions of `barred_modules` (module-name prefixes) are neither entered nor passed through."""
        seen: Set[str] = set()
        work = [r.qualname for r in roots]
        inst_seen: Set[str] = set()
        while work:
            q = work.pop()
            if q in seen or q not in self.p.functions:
                continue
            if barred_modules and self.p.functions[q].module.name.startswith(barred_modules):
                continue
            seen.add(q)
            for c in self.edges.get(q, ()):  # noqa
                if c not in seen:
                    work.append(c)
            if include_dunders:
                for cq in self.instantiated.get(q, ()):  # noqa
                    if cq in inst_seen:
                        continue
                    inst_seen.add(cq)
                    ci = self.p.classes[cq]
                    for c in self.p.mro(ci):
                        for name, m in c.methods.items():
                            if name.startswith("__") and name.endswith("__") and m.qualname not in seen:
                                work.append(m.qualname)
        return seen

    def all_sites(self, include: Optional[Set[str]] = None) -> List[CallSite]:
        out = []
        for q, sites in self.sites.items():
            if include is None or q in include:
                out.extend(sites)
        return out

    def sites_calling(self, target: FunctionInfo) -> List[CallSite]:
        out = []
        for sites in self.sites.values():
            for s in sites:
                if any(c.kind == "fn" and c.fn is target for c in s.callees) or \
                        any(c.kind == "ctor" and c.fn is target for c in s.callees):
                    out.append(s)
        return out

    def sites_constructing(self, cls: ClassInfo, include_subclasses=False) -> List[CallSite]:
        out = []
        for sites in self.sites.values():
            for s in sites:
                for c in s.callees:
                    if c.kind == "ctor" and (c.cls is cls or (include_subclasses and self.p.is_subclass(c.cls, cls))):
                        out.append(s)
                        break
        return out

    def resolution_stats(self) -> dict:
        total = resolved = repo = fallback = 0
        for sites in self.sites.values():
            for s in sites:
                total += 1
                if s.resolved:
                    resolved += 1
                if s.repo_callees():
                    repo += 1
                if any(c.via == "name-fallback" for c in s.callees):
                    fallback += 1
        return {"call_sites_total": total, "call_sites_resolved": resolved, "call_sites_to_repo": repo,
                "call_sites_by_name_fallback": fallback}


def _common_container_method(name: str) -> bool:
    return name in {"append", "extend", "pop", "insert", "remove", "sort", "reverse", "index", "count", "get", "items",
                    "keys", "values", "join", "split", "strip", "rstrip", "replace", "format", "startswith", "endswith",
                    "tolist", "apply", "groupby", "isin", "write", "writelines", "close", "read", "readlines", "seek",
                    "add", "update", "copy", "lower", "upper", "max", "min", "sum", "mean", "astype", "iloc", "loc"}


def _safe_unparse(n) -> str:
    try:
        return ast.unparse(n)
    except Exception:  # pragma: no cover
        return "?"

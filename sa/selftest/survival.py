"""Informational: which catalogued *breaking* edits survive the repository's unedited test suite?

For each variant a scratch copy of /repo's src, sv, tests (plus setup files) is made under /dev/shm (or $TMPDIR), the
edit is written into it, `pytest` is run there with the copy first on sys.path, and the copy is deleted at once.  This is
NOT part of any check (checks never execute repository code); it only documents that the catalogue consists of changes
the test suite cannot see.   python -m sa.selftest.survival [--prop C05] [--jobs 16] [--out file.json]
"""
from __future__ import annotations

import argparse
import json
import os
import shutil
import subprocess
import sys
import tempfile
from concurrent.futures import ThreadPoolExecutor

from ..loader import repo_root
from .run import apply_variant


def survive(v: dict) -> dict:
    overlay, why = apply_variant(v)
    if overlay is None:
        return {"id": v["id"], "result": "not-applicable", "detail": why}
    base = "/dev/shm" if os.path.isdir("/dev/shm") else tempfile.gettempdir()
    d = tempfile.mkdtemp(prefix="sa_surv_", dir=base)
    try:
        root = repo_root()
        for sub in ("src", "sv", "tests", "data"):
            if os.path.isdir(os.path.join(root, sub)):
                shutil.copytree(os.path.join(root, sub), os.path.join(d, sub), ignore=shutil.ignore_patterns("__pycache__"))
        for f in ("setup.py", "setup.cfg"):
            if os.path.exists(os.path.join(root, f)):
                shutil.copy(os.path.join(root, f), d)
        for rel, text in overlay.items():
            with open(os.path.join(d, rel), "w") as fh:
                fh.write(text)
        p = subprocess.run(["/venv/bin/python", "-m", "pytest", "-q", "-x", "-p", "no:cacheprovider", "--timeout=600"], cwd=d,
                           capture_output=True, text=True, timeout=1200)
        tail = (p.stdout + p.stderr).strip().splitlines()[-1:] or [""]
        return {"id": v["id"], "result": "survive" if p.returncode == 0 else "kill", "detail": tail[0][:160]}
    except Exception as e:  # pragma: no cover
        return {"id": v["id"], "result": "error", "detail": str(e)[:200]}
    finally:
        shutil.rmtree(d, ignore_errors=True)


def main(argv=None) -> int:
    ap = argparse.ArgumentParser()
    ap.add_argument("--prop", default=None)
    ap.add_argument("--jobs", type=int, default=16)
    ap.add_argument("--out", default=None)
    a = ap.parse_args(argv)
    from .variants import VARIANTS
    vs = [v for v in VARIANTS if v["kind"] == "break" and (a.prop is None or v["prop"] == a.prop.upper())]
    with ThreadPoolExecutor(max_workers=a.jobs) as ex:
        results = list(ex.map(survive, vs))
    counts = {}
    for v, r in zip(vs, results):
        counts[r["result"]] = counts.get(r["result"], 0) + 1
        decl = v.get("tests", "?")
        flag = "" if decl in ("?", r["result"]) else f"   (catalogue says {decl})"
        print(f"{r['result']:<9} {v['id']:<46} {r['detail'][:70]}{flag}")
    print(counts)
    if a.out:
        with open(a.out, "w") as f:
            json.dump({"counts": counts, "results": results}, f, indent=1)
    return 0


if __name__ == "__main__":
    sys.exit(main())

"""Self-test of the checkers on edited variants of the *current* tree.

Every catalogued edit is applied to the ``ast.unparse``-normalised text of one file (so it survives
re-formatting of the repository) and the variant is analysed through the loader's overlay - nothing is
written to /repo, /verif or a scratch copy.  A breaking edit must be reported as a VIOLATION by the expected
rule; a benign edit must not be reported (ANALYSIS-ERROR on a benign edit is listed and counted: refusing to
guess is the accepted cost).  A failure here means the checker - not the repository - is broken: exit 2.

CLI:  python -m sa.selftest.run [--prop C05] [--jobs 16] [--list] [--only id]
"""
from __future__ import annotations

import argparse
import ast
import importlib
import json
import os
import sys
import time
import traceback
from concurrent.futures import ProcessPoolExecutor
from typing import Dict, List, Optional, Tuple

from ..loader import AnalysisError, repo_root
from ..report import Checker, unlisted_violations, untrusted_violations


def normalised(path: str) -> str:
    with open(path, encoding="utf-8") as f:
        return ast.unparse(ast.parse(f.read()))


def parse_unified_diff(diff_text: str) -> Dict[str, List[Tuple[int, List[str], List[str]]]]:
    """{file: [(old start line, old block lines, new block lines), ...]} of a `git diff` (text files, no renames)"""
    files: Dict[str, List[Tuple[int, List[str], List[str]]]] = {}
    cur = None
    hunk = None
    for line in diff_text.splitlines():
        if line.startswith("+++ "):
            name = line[4:].strip()
            name = name[2:] if name.startswith("b/") else name
            cur = files.setdefault(name, [])
            hunk = None
        elif line.startswith("--- ") or line.startswith("diff ") or line.startswith("index "):
            hunk = None
        elif line.startswith("@@") and cur is not None:
            import re
            m = re.match(r"@@ -(\d+)(?:,\d+)? \+(\d+)(?:,\d+)? @@", line)
            hunk = (int(m.group(1)), [], [])
            cur.append(hunk)
        elif hunk is not None and line[:1] in (" ", "-", "+"):
            if line[0] in (" ", "-"):
                hunk[1].append(line[1:])
            if line[0] in (" ", "+"):
                hunk[2].append(line[1:])
        elif hunk is not None and line == "":
            hunk[1].append("")
            hunk[2].append("")
    return files


def apply_patch_overlay(patch_path: str) -> Tuple[Optional[Dict[str, str]], str]:
    """overlay produced by applying a stored `git diff` to the current tree in memory"""
    with open(patch_path, encoding="utf-8") as f:
        files = parse_unified_diff(f.read())
    overlay: Dict[str, str] = {}
    for rel, hunks in files.items():
        path = os.path.join(repo_root(), rel)
        if not os.path.exists(path):
            if all(not old for _, old, _ in hunks):
                overlay[rel] = "\n".join(l for _, _, new in hunks for l in new) + "\n"      # a file the patch creates
                continue
            return None, f"file {rel} missing"
        with open(path, encoding="utf-8") as f:
            lines = f.read().split("\n")
        shift = 0
        for start, old, new in hunks:
            at = start - 1 + shift
            if lines[at:at + len(old)] != old:
                # search for the block (the tree may have moved a little)
                hits = [i for i in range(len(lines) - len(old) + 1) if lines[i:i + len(old)] == old]
                if len(hits) != 1:
                    return None, f"hunk at line {start} of {rel} does not apply to the current tree"
                at = hits[0]
            lines[at:at + len(old)] = new
            shift += len(new) - len(old)
        text = "\n".join(lines)
        try:
            compile(text, rel, "exec")
        except SyntaxError as e:
            return None, f"patched {rel} does not compile: {e}"
        overlay[rel] = text
    return overlay, ""


def apply_variant(v: dict) -> Tuple[Optional[Dict[str, str]], str]:
    """overlay for the variant, or (None, reason) when the edit does not apply to the current tree."""
    if v.get("patch"):
        return apply_patch_overlay(v["patch"])
    overlay: Dict[str, str] = {}
    edits = v.get("edits") or [{"file": v["file"], "old": v["old"], "new": v["new"], "count": v.get("count", 1)}]
    for ed in edits:
        path = os.path.join(repo_root(), ed["file"])
        if not os.path.exists(path):
            return None, f"file {ed['file']} missing"
        text = overlay.get(ed["file"])
        if text is None:
            try:
                text = normalised(path)
            except SyntaxError as e:
                return None, f"{ed['file']} does not parse: {e}"
        if "transform" in ed:
            new_text = ed["transform"](text)
            if new_text is None or new_text == text:
                return None, f"transform does not apply to {ed['file']}"
            text = new_text
        else:
            n = text.count(ed["old"])
            want = ed.get("count", 1)
            if n != want:
                return None, f"anchor text occurs {n}x (expected {want}) in {ed['file']}: {ed['old'][:60]!r}"
            text = text.replace(ed["old"], ed["new"])
        try:
            compile(text, ed["file"], "exec")
        except SyntaxError as e:
            return None, f"variant does not compile: {e}"
        overlay[ed["file"]] = text
    return overlay, ""


def run_variant(v: dict) -> dict:
    """Analyse one variant; returns a result record."""
    t0 = time.time()
    res = {"id": v["id"], "prop": v["prop"], "kind": v["kind"], "expect": v.get("expect"), "outcome": None,
           "rules": [], "detail": ""}
    try:
        overlay, why = apply_variant(v)
        if overlay is None:
            res["outcome"] = "not-applicable"
            res["detail"] = why
            return res
        from ..norm import Ctx
        ctx = Ctx(overlay=overlay)
        ck = Checker(ctx, v["prop"], "quick")
        mod = importlib.import_module(f"sa.props.{v['prop'].lower()}")
        try:
            from ..check import _guard_unmodelled_decorators
            _guard_unmodelled_decorators(ck)
            mod.run(ck)
            vio = unlisted_violations(ck)      # a listed known finding of the tree is not what the variant is about
            if vio:
                res["outcome"] = "violation"
                res["rules"] = sorted({o.rule for o in vio})
                res["detail"] = "; ".join(f"{o.rule}@{o.construct}" for o in vio[:4])
            elif untrusted_violations(ck):
                res["outcome"] = "analysis-error"
                res["detail"] = "deviation in code that uses an unmodelled construct: " + untrusted_violations(ck)[0][1]
            else:
                res["outcome"] = "holds"
        except AnalysisError as e:
            vio = unlisted_violations(ck)
            if vio:     # a violation recorded before the analysis gave up is still a report
                res["outcome"] = "violation"
                res["rules"] = sorted({o.rule for o in vio})
                res["detail"] = "; ".join(f"{o.rule}@{o.construct}" for o in vio[:4]) + f" (then analysis-error: {e})"
            else:
                res["outcome"] = "analysis-error"
                res["detail"] = str(e)[:300]
    except Exception as e:  # pragma: no cover
        res["outcome"] = "crash"
        res["detail"] = f"{type(e).__name__}: {e} | " + traceback.format_exc(limit=3)[-400:]
    res["wall_s"] = round(time.time() - t0, 3)
    return res


def verdict(v: dict, r: dict) -> str:
    """PASS / FAIL / SKIP / TOLERATED for one variant result."""
    if r["outcome"] == "not-applicable":
        return "SKIP"
    if r["outcome"] == "crash":
        return "FAIL"
    if v["kind"] == "break":
        if r["outcome"] == "violation":
            exp = v.get("expect")
            if exp is None or any(rule == exp or rule.startswith(exp) for rule in r["rules"]):
                return "PASS"
            return "FAIL"
        if r["outcome"] == "analysis-error" and v.get("allow_error"):
            return "TOLERATED"
        return "FAIL"
    # benign
    if r["outcome"] == "holds":
        return "PASS"
    if r["outcome"] == "analysis-error":
        return "TOLERATED"
    return "FAIL"


def run_many(variants: List[dict], jobs: int = 16) -> List[Tuple[dict, dict, str]]:
    out = []
    if jobs <= 1 or len(variants) <= 1:
        results = [run_variant(v) for v in variants]
    else:
        with ProcessPoolExecutor(max_workers=min(jobs, len(variants))) as ex:
            results = list(ex.map(run_variant, variants))
    for v, r in zip(variants, results):
        out.append((v, r, verdict(v, r)))
    return out


def selftest_for(ck: Checker, seed: int = 0):
    """Thorough tier: validate the property's checker on the current tree. Raises AnalysisError on failure."""
    from .variants import VARIANTS
    if unlisted_violations(ck):
        ck.extra["selftest"] = {"skipped": "the current tree already violates a rule; variants are edits of a clean tree"}
        return
    mine = [v for v in VARIANTS if v["prop"] == ck.prop_id]
    if not mine:
        ck.extra["selftest"] = {"variants": 0}
        return
    jobs = int(os.environ.get("SA_JOBS", "16"))
    results = run_many(mine, jobs)
    summary = {"variants": len(mine), "PASS": 0, "FAIL": 0, "SKIP": 0, "TOLERATED": 0, "details": []}
    for v, r, vd in results:
        summary[vd] += 1
        summary["details"].append({"id": v["id"], "kind": v["kind"], "expect": v.get("expect"), "outcome": r["outcome"],
                                   "rules": r["rules"], "verdict": vd, "detail": r["detail"][:200]})
    ck.extra["selftest"] = summary
    ck.ok(f"{ck.prop_id}.selftest", "checker self-test", "sa/selftest/variants.py",
          f"{summary['PASS']} of {len(mine)} catalogued edits judged as expected "
          f"({summary['TOLERATED']} tolerated analysis-errors, {summary['SKIP']} not applicable to this tree)")
    fails = [d for d in summary["details"] if d["verdict"] == "FAIL"]
    if fails:
        raise AnalysisError("checker self-test failed on this tree: " +
                            "; ".join(f"{d['id']} ({d['kind']}): {d['outcome']} {d['rules']} {d['detail'][:80]}"
                                      for d in fails[:5]))


import sys as _sys
_sys.setrecursionlimit(20000)


def main(argv=None) -> int:
    ap = argparse.ArgumentParser()
    ap.add_argument("--prop", default=None)
    ap.add_argument("--only", default=None)
    ap.add_argument("--jobs", type=int, default=16)
    ap.add_argument("--list", action="store_true")
    a = ap.parse_args(argv)
    from .variants import VARIANTS
    vs = [v for v in VARIANTS if (a.prop is None or v["prop"] == a.prop.upper()) and (a.only is None or a.only in v["id"])]
    if a.list:
        for v in vs:
            print(v["id"], v["prop"], v["kind"], v.get("expect"), v.get("tests", "?"))
        return 0
    t0 = time.time()
    results = run_many(vs, a.jobs)
    bad = 0
    for v, r, vd in results:
        mark = {"PASS": "ok  ", "FAIL": "FAIL", "SKIP": "skip", "TOLERATED": "tol "}[vd]
        print(f"{mark} {v['id']:<44} {v['kind']:<6} expect={str(v.get('expect')):<8} -> {r['outcome']:<14} "
              f"{','.join(r['rules'])} {r['detail'][:110] if vd != 'PASS' else ''}")
        if vd == "FAIL":
            bad += 1
    print(f"{len(results)} variants, {bad} failed, {time.time() - t0:.1f}s")
    return 1 if bad else 0


if __name__ == "__main__":
    sys.exit(main())

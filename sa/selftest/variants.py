"""Catalogue of edits used to test the checkers both ways (DESIGN.md section 7).

Each entry edits the ``ast.unparse``-normalised text of one or more files of the *current* tree:

  kind   'break'  - a realistic change that breaks the property's clause; the checker must report a VIOLATION of
                    rule ``expect`` (prefix match)
         'benign' - a behaviour-preserving rewrite; the checker must stay silent (an ANALYSIS-ERROR is tolerated
                    and counted)
  tests  'survive' / 'kill' / '?' - whether the unedited 165-test suite still passes with the edit (measured with
         ``python -m sa.selftest.survival``; informational)
"""

AR = "src/alignment/alignment_results.py"
WC = "src/workflow_coordinator.py"
MP = "src/multi_pass_workflow_coordinator.py"
XR = "src/parsers/xmap_reader.py"
CR = "src/parsers/cmap_reader.py"
OM = "src/correlation/optical_map.py"
WI = "sv/write_indel_files.py"
MI = "sv/molecule_indels.py"
SI = "sv/segment_indels.py"
SEG = "src/alignment/segments.py"
SF = "src/alignment/segments_factory.py"
SC = "src/alignment/segment_chainer.py"
SR = "src/alignment/segment_with_resolved_conflicts.py"
AL = "src/alignment/aligner.py"
AP = "src/alignment/alignment_position.py"
WF = "src/workflow_coordinator_factory.py"
PG = "src/program.py"
PS = "src/correlation/peaks_selector.py"
ARGS = "src/args.py"
XP = "src/parsers/xmap_alignment_pair_parser.py"
BA = "src/correlation/bionano_alignment.py"
AC = "src/diagnostic/alignment_comparer.py"


def V(id, prop, kind, file, old, new, expect=None, tests="?", note="", **kw):
    d = {"id": id, "prop": prop, "kind": kind, "file": file, "old": old, "new": new, "expect": expect,
         "tests": tests, "note": note}
    d.update(kw)
    return d


VARIANTS = [
    # ------------------------------------------------------------------------------------------------ C03
    V("c03-flush-conditional", "C03", "break", AR,
      "                count = 1\n        yield AlignmentResultRow.__hitToString(count, previousHit)",
      "                count = 1\n        if count > 1 or previousHit != hits[0]:\n"
      "            yield AlignmentResultRow.__hitToString(count, previousHit)",
      expect="C03.1", tests="kill", note="F1 re-introduced in another shape: last run flushed conditionally"),
    V("c03-f1-original", "C03", "break", AR,
      "        count = 1\n        previousHit: HitEnum = hits[0]\n        for hit in hits[1:]:\n            if hit == previousHit:\n"
      "                count += 1\n            else:\n                yield AlignmentResultRow.__hitToString(count, previousHit)\n"
      "                previousHit = hit\n                count = 1\n        yield AlignmentResultRow.__hitToString(count, previousHit)",
      "        hit = None\n        count = 1\n        previousHit: HitEnum = hits[0]\n        for hit in hits[1:]:\n            if hit == previousHit:\n"
      "                count += 1\n            else:\n                yield AlignmentResultRow.__hitToString(count, previousHit)\n"
      "                previousHit = hit\n                count = 1\n        if hit:\n            yield AlignmentResultRow.__hitToString(count, hit)",
      expect="C03.1", tests="survive", note="the original F1 defect (one-pair record -> empty HitEnum)"),
    V("c03-walk-excludes-last", "C03", "break", AR,
      "range(pairs[0].reference.siteId, pairs[-1].reference.siteId + 1)",
      "range(pairs[0].reference.siteId, pairs[-1].reference.siteId)",
      expect="C03.2", tests="kill"),
    V("c03-empty-for-short", "C03", "break", AR,
      "        if not self.alignedPairs:\n            return ''\n        hitEnums",
      "        if len(self.alignedPairs) < 2:\n            return ''\n        hitEnums",
      expect="C03.3", tests="survive", note="empty HitEnum for one-pair records through the caller guard"),
    V("c03-benign-groupby", "C03", "benign", AR,
      "        count = 1\n        previousHit: HitEnum = hits[0]\n        for hit in hits[1:]:\n            if hit == previousHit:\n"
      "                count += 1\n            else:\n                yield AlignmentResultRow.__hitToString(count, previousHit)\n"
      "                previousHit = hit\n                count = 1\n        yield AlignmentResultRow.__hitToString(count, previousHit)",
      "        for key, group in itertools.groupby(hits):\n            yield AlignmentResultRow.__hitToString(len(list(group)), key)",
      note="groupby-based rewrite: loop over the whole non-empty list runs at least once"),
    V("c03-benign-list-return", "C03", "benign", AR,
      "        count = 1\n        previousHit: HitEnum = hits[0]\n        for hit in hits[1:]:\n            if hit == previousHit:\n"
      "                count += 1\n            else:\n                yield AlignmentResultRow.__hitToString(count, previousHit)\n"
      "                previousHit = hit\n                count = 1\n        yield AlignmentResultRow.__hitToString(count, previousHit)",
      "        return [AlignmentResultRow.__hitToString(len(list(group)), key) for key, group in itertools.groupby(hits)]",
      note="returns a list instead of yielding"),
    V("c03-benign-len-guard", "C03", "benign", AR,
      "        if not self.alignedPairs:\n            return ''\n        hitEnums",
      "        if len(self.alignedPairs) == 0:\n            return ''\n        hitEnums"),

    # ------------------------------------------------------------------------------------------------ C07
    V("c07-f2-original", "C07", "break", WC,
      "        if not bestPrimaryCorrelationPeaks:\n            return None\n", "",
      expect="C07.G1", tests="survive", note="the original F2 defect"),
    V("c07-f3-original", "C07", "break", XR,
      "        if alignments.empty:\n            return []\n", "",
      expect="C07.G2", tests="survive", note="the original F3 defect"),
    V("c07-default-removed-maxpeak", "C07", "break", OM,
      "max(self.peaks, key=lambda p: p.height, default=None)", "max(self.peaks, key=lambda p: p.height)",
      expect="C07.G3", tests="survive"),
    V("c07-next-default-removed", "C07", "break", WC,
      "next(iter(sorted(alignmentResultRows, key=lambda a: a.confidence, reverse=True)), None)",
      "next(iter(sorted(alignmentResultRows, key=lambda a: a.confidence, reverse=True)))",
      expect="C07.G3", tests="survive"),
    V("c07-initial-removed", "C07", "break", OM,
      "prominence=0.05 * correlation.max(initial=0)", "prominence=0.05 * correlation.max()",
      expect="C07.G3", tests="survive"),
    V("c07-none-test-removed", "C07", "break", WC,
      "if a is not None and a.alignedPairs]", "if a.alignedPairs]",
      expect="C07.G4", tests="survive"),
    V("c07-none-test-after-use", "C07", "break", WC,
      "if a is not None and a.alignedPairs]", "if a.alignedPairs and a is not None]",
      expect="C07.G4", tests="survive"),
    V("c07-too-long-guard-removed", "C07", "break", OM,
      "        if self.length > reference.length:\n            return EmptyInitialAlignment(self, reference, sequenceGenerator.resolution, sequenceGenerator.blurRadius)\n",
      "",
      expect="C07.G5", tests="kill"),
    V("c07-second-unpack", "C07", "break", WC,
      "        self.dispatcher.dispatch(MultipleAlignmentResultRowsMessage(messages))",
      "        firstRows, firstMessages = zip(*[(r, m) for r, m in zip(alignmentResultRows, messages) if r.alignedPairs])\n"
      "        self.dispatcher.dispatch(MultipleAlignmentResultRowsMessage(messages))",
      expect="C07.G1", tests="survive", note="another unpacked zip(*...) over a filtered (possibly empty) list in the worker"),
    V("c07-benign-guard-len", "C07", "benign", WC,
      "        if not bestPrimaryCorrelationPeaks:\n            return None\n",
      "        if len(bestPrimaryCorrelationPeaks) == 0:\n            return None\n"),
    V("c07-benign-guard-on-derived", "C07", "benign", WC,
      "        if not bestPrimaryCorrelationPeaks:\n            return None\n        secondaryCorrelations = [self.__getSecondaryCorrelation(p, i) for i, p in enumerate(bestPrimaryCorrelationPeaks)]\n",
      "        secondaryCorrelations = [self.__getSecondaryCorrelation(p, i) for i, p in enumerate(bestPrimaryCorrelationPeaks)]\n"
      "        if not secondaryCorrelations:\n            return None\n"),
    V("c07-benign-reader-ifexp", "C07", "benign", XR,
      "        if alignments.empty:\n            return []\n        return alignments.apply(self.__rowParserFactory(), axis=1).tolist()",
      "        return [] if alignments.empty else alignments.apply(self.__rowParserFactory(), axis=1).tolist()"),
    V("c07-benign-reader-parsed-empty", "C07", "benign", XR,
      "        if alignments.empty:\n            return []\n        return alignments.apply(self.__rowParserFactory(), axis=1).tolist()",
      "        parsed = alignments.apply(self.__rowParserFactory(), axis=1)\n        return [] if parsed.empty else parsed.tolist()"),
    V("c07-benign-reader-iterrows", "C07", "benign", XR,
      "        if alignments.empty:\n            return []\n        return alignments.apply(self.__rowParserFactory(), axis=1).tolist()",
      "        parse = self.__rowParserFactory()\n        return [parse(row) for _, row in alignments.iterrows()]"),
    V("c07-benign-maxpeak-guard", "C07", "benign", OM,
      "        return max(self.peaks, key=lambda p: p.height, default=None)",
      "        if not self.peaks:\n            return None\n        return max(self.peaks, key=lambda p: p.height)"),
    V("c07-benign-worker-truthy", "C07", "benign", WC,
      "if a is not None and a.alignedPairs]", "if a and a.alignedPairs]"),

    # ------------------------------------------------------------------------------------------------ C20
    V("c20-f4-original", "C20", "break", WI,
      "                    new_list[-1] = prev_line\n                else:\n                    new_list.append(line + [1])\n            elif",
      "                    new_list[-1] = prev_line\n            elif",
      expect="C20.1", tests="survive", note="the original F4 defect"),
    V("c20-no-count-increment", "C20", "break", WI,
      "                        prev_line[8] = prev_line[8] + 1\n                        prev_line[2] = min(prev_line[2], line[2])\n                        prev_line[3] = max(prev_line[3], line[3])\n                        prev_line[7] = (prev_line[7] + line[7]) / 2\n                    prev_line[4] = str(prev_line[4]) + ',' + str(line[4])\n                    new_list[-1] = prev_line\n                else:",
      "                        prev_line[2] = min(prev_line[2], line[2])\n                        prev_line[3] = max(prev_line[3], line[3])\n                        prev_line[7] = (prev_line[7] + line[7]) / 2\n                    prev_line[4] = str(prev_line[4]) + ',' + str(line[4])\n                    new_list[-1] = prev_line\n                else:",
      expect="C20.1", tests="survive"),
    V("c20-merge-also-appends", "C20", "break", WI,
      "                    new_list[-1] = prev_line\n                else:\n                    new_list.append(line + [1])\n            elif",
      "                    new_list[-1] = prev_line\n                new_list.append(line + [1])\n            elif",
      expect="C20.1", tests="survive"),
    V("c20-min-max-swapped", "C20", "break", WI,
      "                        prev_line[2] = min(prev_line[2], line[2])\n                        prev_line[3] = max(prev_line[3], line[3])\n                        prev_line[7] = (prev_line[7] + line[7]) / 2\n                    prev_line[4] = str(prev_line[4]) + ',' + str(line[4])\n                    new_list[-1] = prev_line\n                else:",
      "                        prev_line[2] = max(prev_line[2], line[2])\n                        prev_line[3] = min(prev_line[3], line[3])\n                        prev_line[7] = (prev_line[7] + line[7]) / 2\n                    prev_line[4] = str(prev_line[4]) + ',' + str(line[4])\n                    new_list[-1] = prev_line\n                else:",
      expect="C20.1", tests="survive"),
    V("c20-new-cluster-count-0", "C20", "break", WI,
      "            else:\n                new_list.append(line + [1])\n    return new_list",
      "            else:\n                new_list.append(line + [0])\n    return new_list",
      expect="C20.1", tests="survive"),
    V("c20-sort-key-start", "C20", "break", WI,
      "lines_sorted_del = sorted(lines_deletions, key=operator.itemgetter(1, 3))",
      "lines_sorted_del = sorted(lines_deletions, key=operator.itemgetter(1, 2))",
      expect="C20.3", tests="survive"),
    V("c20-unsorted-input", "C20", "break", WI,
      "lines_insertions_sorted = cluster_indels(lines_sorted_ins)", "lines_insertions_sorted = cluster_indels(lines_insertions)",
      expect="C20.3", tests="survive"),
    V("c20-length-sign", "C20", "break", MI,
      "diff = abs(r_label_s - r_label_e) - abs(q_label_s - q_label_e)",
      "diff = abs(q_label_s - q_label_e) - abs(r_label_s - r_label_e)",
      expect="C20.2", tests="survive"),
    V("c20-labels-swapped", "C20", "break", SI,
      "                            if diff < -100:\n                                indels['insertion'].append(['insertion',",
      "                            if diff > 100:\n                                indels['insertion'].append(['insertion',",
      expect="C20.2", tests="survive", allow_error=True),
    V("c20-label-key-mismatch", "C20", "break", MI,
      "indels['deletion'].append(['deletion',", "indels['deletion'].append(['insertion',",
      expect="C20.2", tests="survive"),
    V("c20-sign-threshold-above-gate", "C20", "break", MI,
      "if diff < -2000:", "if diff < -5000:", expect="C20.2", tests="survive",
      note="T' > T: diffs in (-5000,-2000) are recorded as deletions although negative"),
    V("c20-slots-swapped", "C20", "break", SI,
      "['deletion', alignment.referenceId, r_label_s, r_label_e, q_id, q_label_s, q_label_e, diff]",
      "['deletion', alignment.referenceId, q_label_s, q_label_e, q_id, r_label_s, r_label_e, diff]",
      expect="C20", tests="survive"),
    V("c20-benign-merge-order", "C20", "benign", WI,
      "                        prev_line[8] = prev_line[8] + 1\n                        prev_line[2] = min(prev_line[2], line[2])\n                        prev_line[3] = max(prev_line[3], line[3])\n                        prev_line[7] = (prev_line[7] + line[7]) / 2\n                    prev_line[4] = str(prev_line[4]) + ',' + str(line[4])\n                    new_list[-1] = prev_line\n                else:",
      "                        prev_line[3] = max(line[3], prev_line[3])\n                        prev_line[2] = min(line[2], prev_line[2])\n                        prev_line[8] += 1\n                        prev_line[7] = (prev_line[7] + line[7]) / 2\n                    prev_line[4] = str(prev_line[4]) + ',' + str(line[4])\n                    new_list[-1] = prev_line\n                else:"),
    V("c20-benign-dead-elif-removed", "C20", "benign", WI,
      "            elif abs(line[2] - new_list[-1][2]) <= blur and abs(line[3] - new_list[-1][3]) <= blur:\n                if line[0:2] == new_list[-1][0:2]:\n                    prev_line = new_list[-1]\n                    if len(prev_line) == 8:\n                        prev_line.append(1)\n                    else:\n                        prev_line[8] = prev_line[8] + 1\n                        prev_line[2] = min(prev_line[2], line[2])\n                        prev_line[3] = max(prev_line[3], line[3])\n                        prev_line[7] = (prev_line[7] + line[7]) / 2\n                    prev_line[4] = str(prev_line[4]) + ',' + str(line[4])\n                    new_list[-1] = prev_line\n            else:",
      "            else:"),
    V("c20-benign-diff-reordered", "C20", "benign", MI,
      "diff = abs(r_label_s - r_label_e) - abs(q_label_s - q_label_e)",
      "diff = abs(r_label_e - r_label_s) - abs(q_label_e - q_label_s)"),

    # ------------------------------------------------------------------------------------------------ C02
    V("c02-writer-columns-swapped", "C02", "break", XR,
      "'QryStartPos': '{:.1f}'.format(row.queryStartPosition), 'QryEndPos': '{:.1f}'.format(row.queryEndPosition), 'RefStartPos'",
      "'QryEndPos': '{:.1f}'.format(row.queryEndPosition), 'QryStartPos': '{:.1f}'.format(row.queryStartPosition), 'RefStartPos'",
      expect="C02.1", tests="survive"),
    V("c02-header-names-swapped", "C02", "break", XR,
      "'QryLen': 'float', 'RefLen': 'float', 'AlignedRest'", "'RefLen': 'float', 'QryLen': 'float', 'AlignedRest'",
      expect="C02.1", tests="survive"),
    V("c02-reflen-from-query", "C02", "break", XR,
      "'RefLen': '{:.1f}'.format(row.referenceLength)", "'RefLen': '{:.1f}'.format(row.queryLength)",
      expect="C02.1", tests="survive"),
    V("c02-column-missing-in-record", "C02", "break", XR,
      "'AlignedRest': '{}'.format(row.alignedRest), 'LabelChannel': 1,", "'LabelChannel': 1,",
      expect="C02.1", tests="survive"),
    V("c02-index-from-zero", "C02", "break", XR,
      "index=pd.RangeIndex(start=1, stop=len(alignmentResults.rows) + 1)", "index=pd.RangeIndex(start=0, stop=len(alignmentResults.rows))",
      expect="C02.2", tests="survive"),
    V("c02-no-index", "C02", "break", XR,
      " for row in alignmentResults.rows], index=pd.RangeIndex(start=1, stop=len(alignmentResults.rows) + 1))", " for row in alignmentResults.rows])",
      expect="C02.2", tests="survive"),
    V("c02-reader-start-end-swapped", "C02", "break", XR,
      "row['QryStartPos'], row['QryEndPos'], row['RefStartPos']", "row['QryEndPos'], row['QryStartPos'], row['RefStartPos']",
      expect="C02.1", tests="survive"),
    V("c02-reverse-not-exchanged", "C02", "break", AR,
      "queryStartPosition = (firstPair if not reverseStrand else lastPair).query.position", "queryStartPosition = firstPair.query.position",
      expect="C02.3", tests="survive"),
    V("c02-forward-exchanged", "C02", "break", AR,
      "queryEndPosition = (lastPair if not reverseStrand else firstPair).query.position", "queryEndPosition = (firstPair if not reverseStrand else lastPair).query.position",
      expect="C02.3", tests="kill"),
    V("c02-ref-end-from-first", "C02", "break", AR,
      "referenceEndPosition = lastPair.reference.position", "referenceEndPosition = firstPair.reference.position",
      expect="C02.3", tests="kill"),
    V("c02-lengths-exchanged", "C02", "break", AL,
      "query.moleculeId, reference.moleculeId, query.length, reference.length, isReverse)",
      "query.moleculeId, reference.moleculeId, reference.length, query.length, isReverse)",
      expect="C02.3", tests="survive"),
    V("c02-ctor-lengths-exchanged", "C02", "break", AR,
      "return AlignmentResultRow(segments, queryId, referenceId, queryLength, referenceLength, queryStartPosition",
      "return AlignmentResultRow(segments, queryId, referenceId, referenceLength, queryLength, queryStartPosition",
      expect="C02.3", tests="survive"),
    V("c02-tail-shift-zero", "C02", "break", AR,
      "return [OpticalMap(self.queryId, self.queryLength, positions2, shift=len(query.positions) - len(positions2))]",
      "return [OpticalMap(self.queryId, self.queryLength, positions2, shift=0)]",
      expect="C02.4", tests="survive"),
    V("c02-fragment-length-of-fragment", "C02", "break", AR,
      "return [OpticalMap(self.queryId, self.queryLength, positions1, shift=0)]",
      "return [OpticalMap(self.queryId, positions1[-1] + 1, positions1, shift=0)]",
      expect="C02.4", tests="survive"),
    V("c02-shift-from-other-slice", "C02", "break", AR,
      "shift = len(query.positions) - len(positions)\n", "shift = len(query.positions) - len(positions) + 1\n",
      expect="C02.4", tests="survive"),
    V("c02-reverse-drops-shift", "C02", "break", OM,
      "i = len(self.positions) + self.shift", "i = len(self.positions)",
      expect="C02.5", tests="survive"),
    V("c02-forward-drops-shift", "C02", "break", OM,
      "i = 1 + self.shift", "i = 1", expect="C02.5", tests="survive"),
    V("c02-mirror-about-length", "C02", "break", OM,
      "moleculeEndPosition = self.length - 1", "moleculeEndPosition = self.length", expect="C02.5", tests="kill"),
    V("c02-benign-keyword-ctor", "C02", "benign", AR,
      "return AlignmentResultRow(segments, queryId, referenceId, queryLength, referenceLength, queryStartPosition, queryEndPosition, referenceStartPosition, referenceEndPosition, reverseStrand, confidence)",
      "return AlignmentResultRow(segments, queryId=queryId, referenceId=referenceId, referenceLength=referenceLength, queryLength=queryLength, queryStartPosition=queryStartPosition, queryEndPosition=queryEndPosition, referenceStartPosition=referenceStartPosition, referenceEndPosition=referenceEndPosition, reverseStrand=reverseStrand, confidence=confidence)"),
    V("c02-benign-if-statement", "C02", "benign", AR,
      "        queryStartPosition = (firstPair if not reverseStrand else lastPair).query.position\n        queryEndPosition = (lastPair if not reverseStrand else firstPair).query.position\n",
      "        if reverseStrand:\n            queryStartPosition = lastPair.query.position\n            queryEndPosition = firstPair.query.position\n"
      "        else:\n            queryStartPosition = firstPair.query.position\n            queryEndPosition = lastPair.query.position\n"),
    V("c02-benign-reorder-both", "C02", "benign", XR,
      "'QryLen': 'float', 'RefLen': 'float', 'AlignedRest'", "'RefLen': 'float', 'QryLen': 'float', 'AlignedRest'",
      edits=[{"file": XR, "old": "'QryLen': 'float', 'RefLen': 'float', 'AlignedRest'", "new": "'RefLen': 'float', 'QryLen': 'float', 'AlignedRest'"},
             {"file": XR, "old": "'QryLen': '{:.1f}'.format(row.queryLength), 'RefLen': '{:.1f}'.format(row.referenceLength),",
              "new": "'RefLen': '{:.1f}'.format(row.referenceLength), 'QryLen': '{:.1f}'.format(row.queryLength),"}],
      note="header and record reordered together"),
    V("c02-benign-shift-as-lower-bound", "C02", "benign", AR,
      "                    positions = query.positions[query.positions.index(self.queryEndPosition) - 2:]\n                    shift = len(query.positions) - len(positions)\n",
      "                    cut = query.positions.index(self.queryEndPosition) - 2\n                    positions = query.positions[cut:]\n                    shift = cut\n"),
    V("c02-benign-range-index", "C02", "benign", XR,
      "index=pd.RangeIndex(start=1, stop=len(alignmentResults.rows) + 1)", "index=range(1, len(alignmentResults.rows) + 1)"),
    V("c02-benign-fstring-format", "C02", "benign", XR,
      "'QryLen': '{:.1f}'.format(row.queryLength)", "'QryLen': f'{row.queryLength:.1f}'"),

    # ------------------------------------------------------------------------------------------------ C18
    V("c18-pair-order-writer", "C18", "break", XR,
      "f'({pair.reference.siteId},{pair.query.siteId})'", "f'({pair.query.siteId},{pair.reference.siteId})'",
      expect="C18.3", tests="survive"),
    V("c18-sep-comma", "C18", "break", XR,
      "dataFrame.to_csv(file, sep='\\t', header=False", "dataFrame.to_csv(file, sep=',', header=False",
      expect="C18.2", tests="survive"),
    V("c18-pandas-header", "C18", "break", XR,
      "dataFrame.to_csv(file, sep='\\t', header=False", "dataFrame.to_csv(file, sep='\\t', header=True",
      expect="C18.2", tests="survive"),
    V("c18-parse-start-end-swapped", "C18", "break", XR,
      "row['QryStartPos'], row['QryEndPos'], row['RefStartPos']", "row['QryEndPos'], row['QryStartPos'], row['RefStartPos']",
      expect="C18.1", tests="survive"),
    V("c18-pair-separator-writer", "C18", "break", XR,
      "f'({pair.reference.siteId},{pair.query.siteId})'", "f'({pair.reference.siteId};{pair.query.siteId})'",
      expect="C18.3", tests="survive"),
    V("c18-reader-unpack-swapped", "C18", "break", XP,
      "referenceSiteId, querySiteId = map(lambda siteId: int(siteId), pair.split(','))",
      "querySiteId, referenceSiteId = map(lambda siteId: int(siteId), pair.split(','))",
      expect="C18.3", tests="survive"),
    V("c18-comment-line-without-hash", "C18", "break", XR,
      "'# XMAP File Version:\\t0.2'", "'XMAP File Version:\\t0.2'", expect="C18.2", tests="survive"),
    V("c18-header-column-added", "C18", "break", XR,
      "'AlignedRest': 'string', 'LabelChannel': 'int',", "'AlignedRest': 'string', 'Stretch': 'float', 'LabelChannel': 'int',",
      expect="C18.1", tests="survive"),
    V("c18-init-attr-swapped", "C18", "break", BA,
      "        self.referenceStartPosition = refStart\n        self.referenceEndPosition = refEnd",
      "        self.referenceStartPosition = refEnd\n        self.referenceEndPosition = refStart",
      expect="C18.1", tests="survive"),
    V("c18-zero-record-guard-removed", "C18", "break", XR,
      "        if alignments.empty:\n            return []\n", "", expect="C18.4", tests="survive"),
    V("c18-orientation-literal", "C18", "break", XR,
      "reverseStrand = row['Orientation'] == '-'", "reverseStrand = row['Orientation'] == 'R'", expect="C18.1", tests="survive"),
    V("c18-benign-lambda-parser", "C18", "benign", XP,
      "referenceSiteId, querySiteId = map(lambda siteId: int(siteId), pair.split(','))",
      "referenceSiteId, querySiteId = [int(x) for x in pair.split(',')]"),
]

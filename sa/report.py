"""Outcome collection, evidence files, replay records, known findings, exit codes."""
from __future__ import annotations

import json
import os
import time
from dataclasses import dataclass, field
from typing import Dict, List, Optional

from .loader import AnalysisError

VERIF = os.path.dirname(os.path.dirname(os.path.abspath(__file__)))
EVIDENCE_DIR = os.path.join(VERIF, "evidence")
REPLAY_DIR = os.path.join(EVIDENCE_DIR, "replay")
KNOWN_FINDINGS = os.path.join(VERIF, "known_findings.json")


@dataclass
class Obligation:
    rule: str            # "C05.3"
    construct: str       # qualified construct the rule instance is about
    where: str           # file:line
    status: str          # HOLDS | VIOLATION
    summary: str         # what was checked / found
    found: Optional[str] = None
    required: Optional[str] = None
    path: Optional[str] = None

    @property
    def key(self) -> str:
        return f"{self.rule}@{self.construct}"

    def as_sample(self) -> dict:
        d = {"rule": self.rule, "construct": self.construct, "where": self.where, "status": self.status,
             "summary": self.summary}
        if self.found is not None:
            d["found"] = self.found
        if self.required is not None:
            d["required"] = self.required
        if self.path is not None:
            d["path"] = self.path
        return d


class Checker:
    """Collects rule instances for one property."""

    def __init__(self, ctx, prop_id: str, tier: str = "quick"):
        self.ctx = ctx
        self.prop_id = prop_id
        self.tier = tier
        self.obligations: List[Obligation] = []
        self.observations: List[str] = []
        self.floors: Dict[str, dict] = {}
        self.assumptions: List[str] = []
        self.clauses: Dict[str, str] = {}       # rule id -> one-line description
        self.extra: Dict[str, object] = {}
        self.paths_enumerated = 0
        self.only_key: Optional[str] = None     # --replay: evaluate everything, report only this key

    # -- recording
    def wants(self, rule) -> bool:
        return True

    def clause(self, rule: str, text: str):
        self.clauses[rule] = text

    def ok(self, rule: str, construct: str, where: str, summary: str, found: Optional[str] = None):
        self.obligations.append(Obligation(rule, construct, where, "HOLDS", _clip(summary), _clip(found)))

    def violation(self, rule: str, construct: str, where: str, summary: str, found: Optional[str] = None,
                  required: Optional[str] = None, path: Optional[str] = None):
        self.obligations.append(Obligation(rule, construct, where, "VIOLATION", _clip(summary), _clip(found),
                                           _clip(required), _clip(path)))

    def judge(self, cond: bool, rule: str, construct: str, where: str, summary: str, found: Optional[str] = None,
              required: Optional[str] = None):
        if cond:
            self.ok(rule, construct, where, summary, found)
        else:
            self.violation(rule, construct, where, summary, found, required)
        return cond

    def observe(self, text: str):
        self.observations.append(text)

    def assume(self, text: str):
        if text not in self.assumptions:
            self.assumptions.append(text)

    def floor(self, name: str, count: int, minimum: int):
        """Instance floor: a rule that matches fewer constructs than were confirmed by hand is broken."""
        self.floors[name] = {"found": count, "minimum": minimum}
        if count < minimum:
            raise AnalysisError(f"instance floor '{name}': matched {count} construct(s), at least {minimum} "
                                f"confirmed on the pinned tree - an anchor vanished or an idiom is not recognised")

    def add_paths(self, n: int):
        self.paths_enumerated += n

    @property
    def violations(self) -> List[Obligation]:
        return [o for o in self.obligations if o.status == "VIOLATION"]


class RuleView:
    """A view of a Checker that records only the obligations of the rules in `mapping`, under their mapped names - used to
    list a clause of one property under another property that depends on it (floors stay active: a vanished anchor is an
    analysis error for every property that relies on it)."""

    def __init__(self, ck: Checker, mapping: Dict[str, str], only_files=None, only_constructs=None, not_constructs=None):
        self._ck = ck
        self._map = mapping
        self._only = tuple(only_files) if only_files else None      # keep only what is reported in these files (path prefixes)
        self._only_c = tuple(only_constructs) if only_constructs else None   # ... or about these constructs (substrings)
        self._not_c = tuple(not_constructs) if not_constructs else None      # ... and nothing about these (substrings)
        self.ctx = ck.ctx
        self.prop_id = ck.prop_id
        self.tier = ck.tier
        self.extra = {}              # scratch: notes of the borrowed rule are not part of the borrowing property's evidence

    def wants(self, rule) -> bool:
        """does anything recorded under `rule` reach the property being checked? (lets a borrowed run() skip cross-listings of its
        own that the borrower does not list - their analysis errors are not the borrower's business)"""
        if rule not in self._map:
            return False
        parent = self._ck
        return parent.wants(self._map[rule]) if hasattr(parent, "wants") else True

    def clause(self, rule, text):
        if rule in self._map:
            target = self._ck
            if isinstance(target, RuleView):
                target.clause(self._map[rule], text)
            else:
                target.clauses.setdefault(self._map[rule], text)

    def _here(self, a, k) -> bool:
        if self._not_c is not None and any(x in str(a[0] if a else k.get("construct", "")) for x in self._not_c):
            return False
        if self._only_c is not None:
            c = str(a[0] if a else k.get("construct", ""))
            if not any(x in c for x in self._only_c):
                return False
        if self._only is None:
            return True
        w = a[1] if len(a) > 1 else k.get("where", "")
        return str(w).startswith(self._only)

    def ok(self, rule, *a, **k):
        if rule in self._map and self._here(a, k):
            self._ck.ok(self._map[rule], *a, **k)

    def violation(self, rule, *a, **k):
        if rule in self._map and self._here(a, k):
            self._ck.violation(self._map[rule], *a, **k)

    def judge(self, cond, rule, *a, **k):
        if rule in self._map and self._here(a, k):
            self._ck.judge(cond, self._map[rule], *a, **k)
        return cond

    def observe(self, text):
        pass

    def assume(self, text):
        pass

    def floor(self, name, count, minimum):
        self._ck.floor(name, count, minimum)

    def add_paths(self, n):
        self._ck.add_paths(n)

    @property
    def obligations(self):
        return self._ck.obligations

    @property
    def violations(self):
        return self._ck.violations


def _clip(s, n=1200):
    if s is None:
        return None
    s = str(s)
    return s if len(s) <= n else s[: n - 1] + "…"


def load_known_findings() -> List[dict]:
    if not os.path.exists(KNOWN_FINDINGS):
        return []
    with open(KNOWN_FINDINGS) as f:
        data = json.load(f)
    return data.get("findings", [])


def unlisted_violations(ck: Checker) -> list:
    """violations of this run that are not listed as known findings of the property and whose construct the analysis models
    (see untrusted_violations)"""
    known = {k["key"] for k in load_known_findings() if k.get("status") == "known" and k.get("property") == ck.prop_id}
    bad = {id(v) for v, _ in untrusted_violations(ck)}
    return [v for v in ck.violations if v.key not in known and id(v) not in bad]


_PINNED_FEATURES = None


def _function_at(p, where: str):
    import re as _re
    m = _re.match(r"([^:\s]+\.py):(\d+)", where or "")
    if not m:
        return None
    rel, line = m.group(1), int(m.group(2))
    best = None
    for f in p.functions.values():
        if f.module.relpath == rel and f.node.lineno <= line <= (getattr(f.node, "end_lineno", None) or f.node.lineno):
            if best is None or f.node.lineno >= best.node.lineno:
                best = f
    return best


def untrusted_violations(ck: Checker) -> list:
    """[(violation, reason)] for deviations reported in a function that uses - newly, relative to the pinned tree - a language
    feature the analysis does not model (sa/features.py), directly or through a helper introduced after the pinned tree"""
    global _PINNED_FEATURES
    ctx = ck.ctx
    if ctx is None or not ck.violations:
        return []
    from .features import features_of
    from .norm import is_new_helper
    if _PINNED_FEATURES is None:
        with open(os.path.join(os.path.dirname(__file__), "pinned_functions.json")) as f:
            _PINNED_FEATURES = json.load(f).get("features", {})
    cache = getattr(ctx, "_feature_cache", None)
    if cache is None:
        cache = ctx._feature_cache = {}

    def new_features(fn, depth=0):
        key = (fn.qualname, depth)
        if key in cache:
            return cache[key]
        cache[key] = set()
        feats = {(x, fn.qualname) for x in features_of(fn.node) - set(_PINNED_FEATURES.get(fn.qualname, []))}
        if depth < 2:
            for site in ctx.cg.sites.get(fn.qualname, []):
                for c in site.repo_callees():
                    g = getattr(c, "fn", None)
                    if g is not None and g is not fn and is_new_helper(g):
                        feats |= new_features(g, depth + 1)
            for child in getattr(fn, "children", []) or []:
                feats |= new_features(child, depth + 1)
        cache[key] = feats
        return feats
    out = []
    for v in ck.violations:
        fn = _function_at(ctx.p, v.where)
        if fn is None:
            continue
        feats = new_features(fn)
        if feats:
            out.append((v, "; ".join(sorted(f"{x} in {q.split(':')[-1]}" for x, q in feats))))
    return out


def finish(ck: Checker, started: float, seed: int, error: Optional[str] = None) -> int:
    """Write evidence, print the verdict lines, return the exit status."""
    os.makedirs(REPLAY_DIR, exist_ok=True)
    known = {k["key"]: k for k in load_known_findings()
             if k.get("status") == "known" and k.get("property") == ck.prop_id}
    violations = ck.violations
    if ck.only_key is not None:
        violations = [v for v in violations if v.key == ck.only_key]
    new_violations = []
    known_matched = []
    untrusted = {id(v): why for v, why in untrusted_violations(ck)}
    distrusted = []
    for v in violations:
        if v.key in known:
            known_matched.append(v)
        elif id(v) in untrusted:
            distrusted.append((v, untrusted[id(v)]))
        else:
            new_violations.append(v)
    if distrusted and not error:
        v, why = distrusted[0]
        error = (f"{v.where}: rule {v.rule} does not match at {v.construct}, but the code there uses a construct the analysis "
                 f"does not model ({why}): the deviation is not trusted and nothing is reported"
                 + (f" (+{len(distrusted) - 1} more)" if len(distrusted) > 1 else ""))

    ctx = ck.ctx
    stats = {}
    if ctx is not None:
        stats.update(ctx.p.stats())
        stats.update(ctx.cg.resolution_stats())
        stats["source_digest"] = ctx.p.digest()
    holds = [o for o in ck.obligations if o.status == "HOLDS"]
    distinct = len({o.key for o in ck.obligations})
    samples = [o.as_sample() for o in (ck.violations + holds)[:40]]
    explanation = (
        f"Static analysis of /repo's working tree (ast only; nothing imported or executed). "
        f"Property {ck.prop_id}: structural clauses decided = "
        + "; ".join(f"{k}: {v}" for k, v in sorted(ck.clauses.items()))
        + ". Each obligation is one rule instance evaluated on a named construct; the behaviour itself "
          "(values at run time) is not decided - see DESIGN.md section 4."
    )
    coverage = {
        "explanation": explanation,
        "evaluations": max(1, len(ck.obligations)),
        "distinct_nontrivial": distinct,
        "rule": "one evaluation = one rule instance (clause x construct) located by role in the parsed program; "
                "distinct = distinct (rule, qualified construct) pairs; non-trivial = the construct was found and a "
                "term / path set / table was actually compared (floors make a vacuous match an analysis error)",
        "samples": samples or [{"note": "no rule instance evaluated"}],
        "obligations": len(ck.obligations),
        "discharged": len(holds),
        "checker_cmd": f"/venv/bin/python -m sa.check {ck.prop_id} --tier {ck.tier}",
        "trusted_base": ["CPython ast module", "sa/ engine (loader, light type inference, call graph, term normaliser, "
                         "path explorer)", "hand-written summaries of external library calls listed in assumptions"],
        "clauses": ck.clauses,
        "floors": ck.floors,
        "paths_enumerated": ck.paths_enumerated,
        "observations": ck.observations,
        "known_findings_matched": [v.key for v in known_matched],
        "exhaustive": True,
    }
    coverage.update(stats)
    coverage.update(ck.extra)
    if error:
        coverage["analysis_error"] = error
    evidence = {
        "property_id": ck.prop_id,
        "tier": ck.tier if ck.tier in ("quick", "thorough") else "quick",
        "seed": seed,
        "level": "other",
        "coverage": coverage,
        "assumptions": ck.assumptions,
        "wall_s": round(time.time() - started, 3),
        "violations": len(new_violations),
    }
    os.makedirs(EVIDENCE_DIR, exist_ok=True)
    if ck.only_key is None and os.environ.get("SA_NO_EVIDENCE") != "1":
        with open(os.path.join(EVIDENCE_DIR, f"{ck.prop_id}.json"), "w") as f:
            json.dump(evidence, f, indent=1, sort_keys=False, default=str)

    printed = set()
    for v in known_matched:
        if v.key in printed:
            continue                  # one line per listed finding, however many paths reach it
        printed.add(v.key)
        k = known[v.key]
        line = k.get("line") or k.get("what") or v.summary
        print(f"KNOWN-FINDING: property={ck.prop_id} {line} [{v.key} at {v.where}]")
    for v in new_violations:
        print(f"{v.where} {v.construct}: rule {v.rule} {ck.clauses.get(v.rule, '')}: {v.summary}"
              + (f" | found: {v.found}" if v.found else "") + (f" | required: {v.required}" if v.required else "")
              + (f" | path: {v.path}" if v.path else ""))
        rp = os.path.join(REPLAY_DIR, f"{ck.prop_id}-{_slug(v.key)}.json")
        with open(rp, "w") as f:
            json.dump({"property": ck.prop_id, "key": v.key, **v.as_sample()}, f, indent=1)
        print(f"VIOLATION property={ck.prop_id} replay={rp}")
    if error:
        print(f"ANALYSIS-ERROR property={ck.prop_id} {error}")
        # a violation that was established before the analysis gave up is still a violation
        return 1 if new_violations else 2
    if new_violations:
        return 1
    n_h = len(holds)
    print(f"OK property={ck.prop_id} tier={ck.tier} obligations={len(ck.obligations)} holding={n_h} "
          f"known={len(known_matched)} paths={ck.paths_enumerated} wall={evidence['wall_s']}s")
    return 0


def _slug(s: str) -> str:
    return "".join(ch if ch.isalnum() or ch in "._-" else "_" for ch in s)[:150]

"""Path enumeration over structured Python with a symbolic-term environment.

For one function the explorer walks the statement tree and enumerates every syntactic path
(loops unrolled a bounded number of times), carrying

  * ``env``   : local name -> term (so a use is seen through its reaching definition on that path),
  * ``heap``  : attribute path -> term (``self.x = ...`` followed by a read of ``self.x``),
  * ``facts`` : condition term -> truth value assumed on the path (prunes branches that contradict an
                earlier assumption; also constant conditions are folded),
  * ``events``: calls made for effect, yields, attribute / item stores, loop iterations.

No solver is involved: a branch is pruned only when its condition is *syntactically* decided by the
facts already on the path (same normal form), by constant folding, or by the small nullness /
emptiness rules in ``truth_of``.
"""
from __future__ import annotations

import ast
from dataclasses import dataclass, field
from typing import Dict, List, Optional, Tuple, Set

from .loader import FunctionInfo, AnalysisError, mangle
from . import terms as T
from .terms import C, V, Term
from .norm import Ctx, Normalizer


@dataclass
class Event:
    kind: str                 # call | yield | setattr | setitem | aug | iter | loop-exit | expr | with | del | assume
    node: ast.AST
    term: Optional[Term] = None
    extra: Optional[dict] = None
    facts: Optional[Dict[Term, bool]] = None     # facts assumed on the path when the event happened

    @property
    def lineno(self):
        return getattr(self.node, "lineno", 0)


@dataclass
class State:
    env: Dict[str, Term]
    heap: Dict[Term, Term]
    facts: Dict[Term, bool]
    events: List[Event]
    assumptions: List[Tuple[Term, bool, ast.AST]]
    nonempty: Set[Term]

    def add(self, ev: "Event"):
        ev.facts = dict(self.facts)
        self.events.append(ev)

    def copy(self) -> "State":
        return State(dict(self.env), dict(self.heap), dict(self.facts), list(self.events),
                     list(self.assumptions), set(self.nonempty))


@dataclass
class Path:
    state: State
    outcome: str              # return | raise | fall
    value: Optional[Term]
    node: Optional[ast.AST]   # the return / raise statement

    @property
    def events(self):
        return self.state.events

    @property
    def facts(self):
        return self.state.facts

    def calls(self):
        return [e for e in self.state.events if e.kind == "call"]

    def describe(self) -> str:
        conds = [("" if tr else "not ") + T.show(c) for c, tr, _ in self.state.assumptions]
        end = f"{self.outcome}@{getattr(self.node, 'lineno', '?')}" if self.node is not None else self.outcome
        return " -> ".join(conds + [end])


def nonempty_term(t: Term, nonempty: Set[Term]) -> Optional[bool]:
    """True if the sequence term is provably non-empty given the non-empty facts, False if provably empty,
    None if unknown."""
    if t in nonempty:
        return True
    tag = t[0]
    if tag in ("list", "tuple", "set"):
        if any(x[0] == "star" for x in t[1]):
            return True if any(x[0] != "star" for x in t[1]) else None
        return len(t[1]) > 0
    if tag == "concat":
        rs = [nonempty_term(x, nonempty) for x in t[1]]
        if any(r is True for r in rs):
            return True
        if all(r is False for r in rs):
            return False
        return None
    if tag == "comp":
        gens = t[3]
        if any(ifs for _, ifs in gens):
            return None
        rs = [nonempty_term(it, nonempty) for it, _ in gens]
        if all(r is True for r in rs):
            return True
        if any(r is False for r in rs):
            return False
        return None
    if tag == "call":
        name = t[1]
        if name in ("list", "sorted", "reversed", "tuple", "iter", "enumerate", "itertools.groupby", "set") and t[2]:
            return nonempty_term(t[2][0], nonempty)
        if name == "map" and len(t[2]) == 2:
            return nonempty_term(t[2][1], nonempty)
        if name == "itertools.chain" and t[2]:
            rs = [nonempty_term(x, nonempty) for x in t[2]]
            return True if any(r is True for r in rs) else None
    if tag == "orelse":
        # x or [y]  : non-empty when the last alternative is
        return True if nonempty_term(t[1][-1], nonempty) is True else None
    if tag == "select":
        a, b = nonempty_term(t[2], nonempty), nonempty_term(t[3], nonempty)
        if a is True and b is True:
            return True
        if a is False and b is False:
            return False
    return None



def elem_of(iter_term: Term, j: int) -> Term:
    """term for the j-th element produced by iterating `iter_term` (enumerate / zip are resolved structurally)"""
    if iter_term[0] == "call" and not iter_term[3]:
        name, args = iter_term[1], iter_term[2]
        if name == "enumerate" and len(args) in (1, 2):
            start = args[1] if len(args) == 2 else C(0)
            return ("tuple", (T.p_add(C(j), start), elem_of(args[0], j)))
        if name == "zip" and args and not any(a[0] == "star" for a in args):
            return ("tuple", tuple(elem_of(a, j) for a in args))
        if name in ("iter", "list", "tuple") and len(args) == 1:
            return elem_of(args[0], j)
        if name in ("itertools.count", "count") and len(args) <= 2:
            # count(a, s): a, a + s, a + 2s, ...
            start = args[0] if args else C(0)
            step = args[1] if len(args) == 2 else C(1)
            if step[0] == "c" and isinstance(step[1], int):
                return T.p_add(start, C(j * step[1]))
    if iter_term[0] == "call" and iter_term[1] == "enumerate" and len(iter_term[2]) == 1 and len(iter_term[3]) == 1 \
            and iter_term[3][0][0] == "start":
        return ("tuple", (T.p_add(C(j), iter_term[3][0][1]), elem_of(iter_term[2][0], j)))
    if iter_term[0] in ("tuple", "list") and j < len(iter_term[1]) and not any(x[0] == "star" for x in iter_term[1]):
        return iter_term[1][j]
    return ("elem", iter_term, j)


class Explorer:
    def __init__(self, ctx: Ctx, fn: FunctionInfo, env: Optional[Dict[str, Term]] = None,
                 heap: Optional[Dict[Term, Term]] = None, facts: Optional[Dict[Term, bool]] = None,
                 unroll: Tuple[int, ...] = (0, 1, 2), inline: int = 0, inline_ok=None, max_paths: int = 20000,
                 truthy_elems: bool = False, nonempty: Optional[Set[Term]] = None,
                 self_term: Optional[Term] = None, track_heap: bool = True, follow=None, _depth: int = 0,
                 split_returns: bool = False):
        self.ctx = ctx
        self.split_returns = split_returns   # `return a if c else b` is explored as `if c: return a` / `else: return b`
        self.fn = fn
        self.unroll = tuple(sorted(set(unroll)))
        self.inline = inline
        self.inline_ok = inline_ok
        self.max_paths = max_paths
        self.truthy_elems = truthy_elems
        self.self_term = self_term
        self.follow = follow             # predicate(FunctionInfo): explore the callee's paths in place of an opaque call
        self._depth = _depth
        self.track_heap = track_heap     # False: attribute / item reads stay symbolic (stores are still recorded as events)
        self.init = State(dict(env or {}), dict(heap or {}), dict(facts or {}), [], [], set(nonempty or ()))
        self.paths_enumerated = 0

    # ------------------------------------------------------------------ API
    def run(self, body: Optional[List[ast.stmt]] = None) -> List[Path]:
        body = self.fn.body if body is None else body
        results = self.exec_block(body, self.init.copy())
        out: List[Path] = []
        for st, sig in results:
            if sig is None:
                out.append(Path(st, "fall", None, None))
            elif sig[0] in ("return", "raise"):
                out.append(Path(st, sig[0], sig[1], sig[2]))
            else:  # stray break/continue (when exploring a loop body on its own)
                out.append(Path(st, sig[0], None, sig[2] if len(sig) > 2 else None))
        self.paths_enumerated = len(out)
        return out

    def normalizer(self, st: State) -> Normalizer:
        n = Normalizer(self.ctx, self.fn, st.env, st.heap, 0, self.inline, self.inline_ok, self.self_term)
        n.local_defs = self.__dict__.setdefault("_local_defs", {})
        return n

    # ------------------------------------------------------------------ truth
    def truth_of(self, t: Term, st: State) -> Optional[bool]:
        t = T.specialize(T.as_bool(t), st.facts, boolpos=True)
        tag = t[0]
        if tag == "c":
            return bool(t[1])
        if tag in ("list", "tuple", "set", "dict"):
            return len(t[1]) > 0
        if tag == "new":
            return True
        if tag == "elem" and self.truthy_elems:
            return True
        if tag == "isnone":
            x = t[1]
            if x == T.NONE:
                return True
            if x[0] in ("new", "list", "tuple", "comp", "concat", "fstr") or (x[0] == "c" and x[1] is not None):
                return False
            if x[0] == "elem" and self.truthy_elems:
                return False
        if tag == "notnone":
            r = self.truth_of(("isnone", t[1]), st)
            return None if r is None else not r
        if t in st.nonempty:
            return True
        if tag == "call" and t[1] in ("enumerate", "list", "tuple", "sorted", "reversed", "iter") and len(t[2]) >= 1 \
                and t is not t[2][0]:
            inner = self.truth_of(t[2][0], st)          # these wrappers are empty exactly when what they wrap is
            if inner is not None:
                return inner
        if tag == "call" and t[1] == "range" and len(t[2]) == 1 and t[2][0][0] == "call" and t[2][0][1] == "len" and len(t[2][0][2]) == 1:
            inner = self.truth_of(t[2][0][2][0], st)     # range(len(xs))
            if inner is not None:
                return inner
        if st.nonempty and tag in ("call", "comp", "concat", "slice") and nonempty_term(t, st.nonempty) is True:
            return True
        if tag == "not" and t[1] in st.nonempty:
            return False
        if tag == "eq":
            # x == c2 is false when x == c1 (c1 != c2) is already assumed
            for a, b in ((t[1], t[2]), (t[2], t[1])):
                if b[0] == "c":
                    for f, tr in st.facts.items():
                        if tr and f[0] == "eq":
                            for x, y in ((f[1], f[2]), (f[2], f[1])):
                                if x == a and y[0] == "c" and y != b:
                                    return False
        return None

    # ------------------------------------------------------------------ blocks
    def _cap(self, n: int):
        if n > self.max_paths:
            raise AnalysisError(f"path explosion in {self.fn.qualname} (> {self.max_paths} paths)")

    def exec_block(self, stmts: List[ast.stmt], st: State):
        states = [(st, None)]
        for s in stmts:
            nxt = []
            for (cur, sig) in states:
                if sig is not None:
                    nxt.append((cur, sig))
                else:
                    nxt.extend(self.exec_stmt(s, cur))
            states = nxt
            self._cap(len(states))
        return states

    def branch(self, cond: Term, st: State, node: ast.AST):
        """[(state, truth)] feasible continuations for a condition."""
        cond = T.as_bool(cond)
        tv = self.truth_of(cond, st)
        if tv is not None:
            return [(st, tv)]
        out = []
        for truth in (True, False):
            s2 = st.copy()
            T.add_fact(s2.facts, cond, truth)
            s2.assumptions.append((cond, truth, node))
            out.append((s2, truth))
        return out

    # ------------------------------------------------------------------ statements
    def exec_stmt(self, s: ast.stmt, st: State):
        m = getattr(self, "x_" + type(s).__name__, None)
        if m is None:
            raise AnalysisError(f"{self.fn.where}: statement kind {type(s).__name__} not supported by the path explorer")
        return m(s, st)

    def x_Pass(self, s, st):
        return [(st, None)]

    x_Import = x_ImportFrom = x_Global = x_Nonlocal = x_Pass

    def x_FunctionDef(self, s, st):
        fi = self.ctx.p.fn_of_node.get(id(s))
        if fi is not None:
            st.env[s.name] = ("fn", fi.qualname)
            lam = self._nested_def_as_lambda(s)
            if lam is not None:
                try:
                    st.env[s.name] = self.normalizer(st).norm(lam)
                    self.__dict__.setdefault("_local_defs", {})[s.name] = (lam, st.env[s.name])
                except AnalysisError:
                    pass
        return [(st, None)]

    def _bound_once(self, name: str, binding) -> bool:
        for n in ast.walk(self.fn.node):
            if n is binding:
                continue
            if isinstance(n, ast.Name) and isinstance(n.ctx, ast.Store) and n.id == name and \
                    not (isinstance(binding, ast.Assign) and n is binding.targets[0]):
                return False
            if isinstance(n, (ast.FunctionDef, ast.ClassDef)) and n.name == name:
                return False
        return True

    def _captures_stable(self, lam: ast.Lambda, binding) -> bool:
        params = {a.arg for a in lam.args.args}
        free = {n.id for n in ast.walk(lam.body) if isinstance(n, ast.Name)} - params
        for n in ast.walk(self.fn.node):
            if isinstance(n, ast.Name) and isinstance(n.ctx, ast.Store) and n.id in free and \
                    (n.lineno, n.col_offset) > (binding.lineno, binding.col_offset):
                return False
        return True

    def _nested_def_as_lambda(self, s):
        """`def f(x): return <expr>` nested in a function is the lambda it spells out - provided nothing it captures is
        re-bound after the definition (a closure sees the later value, a term built here would not)."""
        if not isinstance(s, ast.FunctionDef) or s.decorator_list:
            return None
        body = [b for b in s.body if not (isinstance(b, ast.Expr) and isinstance(b.value, ast.Constant))]
        if len(body) != 1 or not isinstance(body[0], ast.Return) or body[0].value is None:
            return None
        a = s.args
        if a.vararg or a.kwarg or a.kwonlyargs or a.defaults or a.posonlyargs or not a.args:
            return None
        if any(isinstance(n, (ast.Yield, ast.YieldFrom, ast.Await, ast.NamedExpr)) for n in ast.walk(body[0].value)):
            return None
        params = {x.arg for x in a.args}
        free = {n.id for n in ast.walk(body[0].value) if isinstance(n, ast.Name)} - params
        outer = self.fn.node
        for n in ast.walk(outer):
            if n is not s and ((isinstance(n, ast.Name) and isinstance(n.ctx, ast.Store) and n.id == s.name) or
                               (isinstance(n, (ast.FunctionDef, ast.ClassDef)) and n.name == s.name)):
                return None           # the name is bound more than once: which function a call reaches depends on the path
            if isinstance(n, ast.Name) and isinstance(n.ctx, ast.Store) and n.id in free and \
                    (n.lineno, n.col_offset) > (s.lineno, s.col_offset):
                return None
        lam = ast.Lambda(args=ast.arguments(posonlyargs=[], args=[ast.arg(arg=x.arg) for x in a.args], kwonlyargs=[],
                                            kw_defaults=[], defaults=[]), body=body[0].value)
        ast.copy_location(lam, s)
        ast.fix_missing_locations(lam)
        return lam

    x_AsyncFunctionDef = x_FunctionDef

    def x_ClassDef(self, s, st):
        return [(st, None)]

    def _follow_call(self, call: ast.expr, st: State, allow_gen: bool = False):
        """If `call` is a call of a repository function that the `follow` predicate selects, explore the callee in place:
        returns [(state after the callee, returned term)] - one per callee path - or None when the call is not followed.
        (Helper extraction is thereby invisible to path rules: the callee's events are spliced into the caller's path.)"""
        if not isinstance(call, ast.Call) or self._depth >= 3:
            return None
        callees = [c for c in self.ctx.cg.resolve_call(self.fn, call) if c.kind == "fn"]
        if len(callees) != 1 or callees[0].via == "name-fallback":
            return None
        callee = callees[0].fn
        from .norm import is_new_helper
        is_gen = any(isinstance(x, (ast.Yield, ast.YieldFrom)) for x in ast.walk(callee.node))
        wanted = (self.follow is not None and self.follow(callee)) or (
            is_new_helper(callee) and (allow_gen or not is_gen) and callee.qualname not in self.ctx.keep_calls)
        if callee is self.fn or not wanted or callee.is_lambda:
            return None
        from .callgraph import bind_args
        params = callee.call_params()
        binding, exact = bind_args(params, call)
        if not exact:
            return None
        n = self.normalizer(st)
        env = {}
        for prm in params:
            if prm.name in binding:
                env[prm.name] = n.norm(binding[prm.name])
            elif prm.default is not None:
                env[prm.name] = Normalizer(self.ctx, callee, {}, {}).norm(prm.default)
            else:
                return None
        recv = None
        if callee.binds_self and isinstance(call.func, ast.Attribute):
            f = call.func
            if isinstance(f.value, ast.Call) and isinstance(f.value.func, ast.Name) and f.value.func.id == "super":
                recv = n.lookup(self.fn.self_name or "self")
            else:
                recv = n.norm(f.value)
        sub = Explorer(self.ctx, callee, env=env, heap=st.heap, facts=st.facts, unroll=self.unroll, inline=self.inline,
                       inline_ok=self.inline_ok, max_paths=self.max_paths, truthy_elems=self.truthy_elems,
                       nonempty=st.nonempty, self_term=recv, track_heap=self.track_heap, follow=self.follow,
                       _depth=self._depth + 1)
        out = []
        for pa in sub.run():
            if pa.outcome == "raise":
                # the callee raises on this path: so does the caller (nothing in the repository catches around followed calls)
                ns = st.copy()
                ns.events.extend(pa.state.events)
                ns.facts = dict(pa.state.facts)
                ns.assumptions.extend(pa.state.assumptions)
                out.append((ns, ("__raise__", pa.value if pa.value is not None else T.NONE, pa.node)))
                continue
            ns = st.copy()
            ns.events.extend(pa.state.events)
            ns.facts = dict(pa.state.facts)        # the callee started from the caller's facts: what it dropped (a store to a
                                                   # term they mention) stays dropped
            ns.assumptions.extend(pa.state.assumptions)
            ns.heap = dict(pa.state.heap) if self.track_heap else ns.heap
            value = pa.value if pa.outcome == "return" and pa.value is not None else T.NONE
            out.append((ns, value))
        self._cap(len(out))
        return out or None

    def x_Expr(self, s, st):
        v = s.value
        if isinstance(v, ast.Constant):
            return [(st, None)]
        followed = self._follow_call(v, st)
        if followed is not None:
            return [(ns, self._raised(val)) for ns, val in followed]
        if isinstance(v, ast.YieldFrom):
            # `yield from self.__helper(...)` of a generator helper that is new: its yields are this generator's yields
            spliced = self._follow_call(v.value, st, allow_gen=True)
            if spliced is not None:
                return [(ns, self._raised(val)) for ns, val in spliced]
        n = self.normalizer(st)
        if isinstance(v, (ast.Yield, ast.YieldFrom)):
            t = n.norm(v)
            st.add(Event("yield", s, t[1]))
            return [(st, None)]
        t = n.norm(v)
        st.add(Event("call" if isinstance(v, ast.Call) else "expr", s, t))
        # a list literal built up locally: xs = []; xs.append(e) / xs.extend([..])  keeps its value as a literal
        if isinstance(v, ast.Call) and isinstance(v.func, ast.Attribute) and isinstance(v.func.value, ast.Name) \
                and v.func.attr in ("append", "extend") and len(v.args) == 1 and not v.keywords:
            cur = st.env.get(v.func.value.id)
            if cur is not None and cur[0] == "list" and not any(x[0] == "star" for x in cur[1]):
                arg = n.norm(v.args[0])
                if v.func.attr == "append":
                    st.env[v.func.value.id] = ("list", cur[1] + (arg,))
                elif arg[0] in ("list", "tuple"):
                    st.env[v.func.value.id] = ("list", cur[1] + tuple(arg[1]))
                else:
                    st.env[v.func.value.id] = ("concat", (cur, arg))
        # xs.sort(key=K, reverse=R) / xs.reverse() on a local: from here on xs denotes sorted(xs, ...) / xs[::-1]
        if isinstance(v, ast.Call) and isinstance(v.func, ast.Attribute) and isinstance(v.func.value, ast.Name) \
                and v.func.attr in ("sort", "reverse") and not v.args and v.func.value.id in st.env:
            cur = st.env[v.func.value.id]
            if v.func.attr == "sort":
                kwargs = tuple((k.arg, n.norm(k.value)) for k in v.keywords if k.arg is not None)
                st.env[v.func.value.id] = T.mk_call("sorted", [cur], kwargs)
            elif not v.keywords:
                st.env[v.func.value.id] = ("slice", cur, T.NONE, T.NONE, C(-1))
        return [(st, None)]

    def _assign_target(self, tg: ast.expr, value: Term, st: State, node: ast.AST):
        n = self.normalizer(st)
        if isinstance(tg, ast.Name):
            st.env[tg.id] = value
        elif isinstance(tg, (ast.Tuple, ast.List)):
            for i, el in enumerate(tg.elts):
                if isinstance(el, ast.Starred):
                    self._assign_target(el.value, ("slice", value, C(i), T.NONE, T.NONE), st, node)
                else:
                    self._assign_target(el, T.mk_idx(value, C(i)), st, node)
        elif isinstance(tg, ast.Attribute):
            base = n.norm(tg.value)
            cls = self.fn.enclosing_class
            key = T.mk_attr(base, mangle(tg.attr, cls.name if cls else None))
            if self.track_heap:
                st.heap[key] = value
            else:
                self._forget(st, key)
            st.add(Event("setattr", node, value, {"target": key}))
        elif isinstance(tg, ast.Subscript):
            base = n.norm(tg.value)
            idx = n.norm(tg.slice) if not isinstance(tg.slice, ast.Slice) else \
                ("slice", T.NONE, n.norm_opt(tg.slice.lower), n.norm_opt(tg.slice.upper), n.norm_opt(tg.slice.step))
            st.add(Event("setitem", node, value, {"base": base, "index": idx}))
            # reads of the same element later on this path see the stored value
            if self.track_heap:
                st.heap[T.mk_idx(base, idx)] = value
            else:
                self._forget(st, T.mk_idx(base, idx))
        elif isinstance(tg, ast.Starred):
            self._assign_target(tg.value, value, st, node)

    @staticmethod
    def _forget(st: State, key: Term):
        """a location was overwritten and reads are not tracked: facts that mention it are stale"""
        for f in [f for f in st.facts if T.contains(f, key)]:
            del st.facts[f]

    def x_Assign(self, s, st):
        followed = self._follow_call(s.value, st)
        if followed is not None:
            out = []
            for ns, val in followed:
                if self._raised(val) is not None:
                    out.append((ns, self._raised(val)))
                    continue
                ns.add(Event("assign", s, val))
                for tg in s.targets:
                    self._assign_target(tg, val, ns, s)
                out.append((ns, None))
            return out
        value = self.normalizer(st).norm(s.value)
        if len(s.targets) == 1 and isinstance(s.targets[0], ast.Name) and value[0] == "lam" \
                and isinstance(s.value, (ast.Lambda, ast.Call)):
            # f = lambda x: E   /   f = functools.partial(g, a)  : a later call f(y) is read through the body
            lam_ast = self.normalizer(st)._as_lambda_ast(s.value) if isinstance(s.value, ast.Call) else s.value
            name = s.targets[0].id
            if lam_ast is not None and self._bound_once(name, s) and self._captures_stable(lam_ast, s):
                self.__dict__.setdefault("_local_defs", {})[name] = (lam_ast, value)
        if len(s.targets) == 1 and isinstance(s.targets[0], (ast.Tuple, ast.List)) and value[0] == "tuple" \
                and len(value[1]) == len(s.targets[0].elts) and not any(isinstance(e, ast.Starred) for e in s.targets[0].elts):
            # parallel assignment: evaluate all right-hand sides first
            st.add(Event("assign", s, value))
            for tg, v in zip(s.targets[0].elts, value[1]):
                self._assign_target(tg, v, st, s)
            return [(st, None)]
        st.add(Event("assign", s, value))
        for tg in s.targets:
            self._assign_target(tg, value, st, s)
        return [(st, None)]

    def x_AnnAssign(self, s, st):
        if s.value is not None:
            value = self.normalizer(st).norm(s.value)
            st.add(Event("assign", s, value))
            self._assign_target(s.target, value, st, s)
        return [(st, None)]

    def x_AugAssign(self, s, st):
        n = self.normalizer(st)
        cur_expr = _as_load(s.target)
        cur = n.norm(cur_expr)
        val = n.norm(s.value)
        if isinstance(s.op, ast.Add):
            if n.is_seq(s.value) or n.is_seq(cur_expr) or cur[0] in ("list", "concat", "comp"):
                parts = list(cur[1]) if cur[0] == "concat" else [cur]
                parts += list(val[1]) if val[0] == "concat" else [val]
                new = ("concat", tuple(parts))
            else:
                new = T.p_add(cur, val)
        elif isinstance(s.op, ast.Sub):
            new = T.p_sub(cur, val)
        elif isinstance(s.op, ast.Mult):
            new = T.p_mul(cur, val)
        else:
            new = ("binop", type(s.op).__name__, cur, val)
        st.add(Event("aug", s, new, {"target": cur, "op": type(s.op).__name__, "value": val}))
        self._assign_target(s.target, new, st, s)
        return [(st, None)]

    def x_Return(self, s, st):
        followed = self._follow_call(s.value, st) if s.value is not None else None
        if followed is not None:
            return [(ns, self._raised(val) or ("return", val, s)) for ns, val in followed]
        v = self.normalizer(st).norm(s.value) if s.value is not None else T.NONE
        if self.split_returns and v[0] == "select":
            out = []
            work = [(st, v)]
            while work:
                cur, val = work.pop()
                if val[0] == "select" and len(out) + len(work) < 16:
                    for s2, truth in self.branch(val[1], cur, s):
                        work.append((s2, val[2] if truth else val[3]))
                else:
                    out.append((cur, ("return", val, s)))
            return out
        return [(st, ("return", v, s))]

    @staticmethod
    def _raised(val):
        """the control outcome for a followed call that raised (see _follow_call), else None"""
        if isinstance(val, tuple) and len(val) == 3 and val[0] == "__raise__":
            return ("raise", val[1], val[2])
        return None

    def x_Raise(self, s, st):
        v = self.normalizer(st).norm(s.exc) if s.exc is not None else T.NONE
        return [(st, ("raise", v, s))]

    def x_Break(self, s, st):
        return [(st, ("break", None, s))]

    def x_Continue(self, s, st):
        return [(st, ("continue", None, s))]

    def x_Assert(self, s, st):
        c = T.as_bool(self.normalizer(st).norm(s.test, True))
        T.add_fact(st.facts, c, True)
        return [(st, None)]

    def x_Delete(self, s, st):
        st.add(Event("del", s, None))
        return [(st, None)]

    def x_If(self, s, st):
        cond = self.normalizer(st).norm(s.test, True)
        st.add(Event("cond", s, cond))
        out = []
        for s2, truth in self.branch(cond, st, s):
            out.extend(self.exec_block(s.body if truth else s.orelse, s2))
        return out

    def x_With(self, s, st):
        n = self.normalizer(st)
        for item in s.items:
            t = n.norm(item.context_expr)
            st.add(Event("with", s, t))
            if item.optional_vars is not None:
                self._assign_target(item.optional_vars, t, st, s)
        return self.exec_block(s.body, st)

    x_AsyncWith = x_With

    def x_Try(self, s, st):
        out = []
        normal = self.exec_block(s.body, st.copy())
        for cur, sig in normal:
            if sig is None and s.orelse:
                out.extend(self.exec_block(s.orelse, cur))
            else:
                out.append((cur, sig))
        for h in s.handlers:
            hs = st.copy()
            hs.add(Event("except", h, None))
            if h.name:
                hs.env[h.name] = ("unk", "exception")
            out.extend(self.exec_block(h.body, hs))
        if s.finalbody:
            fin = []
            for cur, sig in out:
                for c2, sig2 in self.exec_block(s.finalbody, cur):
                    fin.append((c2, sig2 if sig2 is not None else sig))
            out = fin
        return out

    def x_Match(self, s, st):
        subject = self.normalizer(st).norm(s.subject)
        out = []
        pending = [st]
        for case in s.cases:
            cond = self._pattern_cond(case.pattern, subject, st)
            if case.guard is not None:
                cond = T.mk_and([cond, T.as_bool(self.normalizer(st).norm(case.guard, True))])
            nxt = []
            for cur in pending:
                for s2, truth in self.branch(cond, cur, case):
                    if truth:
                        out.extend(self.exec_block(case.body, s2))
                    else:
                        nxt.append(s2)
            pending = nxt
        out.extend((cur, None) for cur in pending)
        return out

    def _pattern_cond(self, pat, subject: Term, st: State) -> Term:
        if isinstance(pat, ast.MatchValue):
            return T.mk_eq(subject, self.normalizer(st).norm(pat.value))
        if isinstance(pat, ast.MatchSingleton):
            return ("isnone", subject) if pat.value is None else T.mk_eq(subject, C(pat.value))
        if isinstance(pat, ast.MatchOr):
            return T.mk_or([self._pattern_cond(p, subject, st) for p in pat.patterns])
        if isinstance(pat, ast.MatchAs) and pat.pattern is None:
            return T.TRUE
        raise AnalysisError(f"{self.fn.where}: match pattern {type(pat).__name__} not supported")

    # ------------------------------------------------------------------ loops
    def _loop(self, s, st, iter_term: Optional[Term], cond_expr: Optional[ast.expr]):
        """Common unrolling for for/while. Returns list of (state, signal)."""
        results = []
        max_k = max(self.unroll)
        # frontier: states about to test the loop for iteration j
        frontier = [st]
        for j in range(max_k + 1):
            nxt = []
            for cur in frontier:
                # option A: loop exits now (after j iterations) -- only for counts in self.unroll
                exit_states = []
                enter_states = []
                if cond_expr is not None:
                    cond = self.normalizer(cur).norm(cond_expr, True)
                    cur.add(Event("cond", s, cond))
                    for s2, truth in self.branch(cond, cur, s):
                        (enter_states if truth else exit_states).append(s2)
                else:
                    must_enter = False
                    if j == 0:
                        tv = self.truth_of(iter_term, cur)
                        if tv is True:
                            must_enter = True
                        elif tv is False:
                            enter_states = None
                    if not must_enter:
                        exit_states.append(cur.copy())
                    if enter_states is not None:
                        enter_states.append(cur.copy())
                    else:
                        enter_states = []
                if j in self.unroll:
                    for ex in exit_states:
                        ex.add(Event("loop-exit", s, None, {"iterations": j}))
                        if s.orelse:
                            results.extend(self.exec_block(s.orelse, ex))
                        else:
                            results.append((ex, None))
                if j == max_k:
                    continue
                for en in enter_states:
                    en.add(Event("iter", s, None, {"index": j}))
                    if iter_term is not None:
                        self._assign_target(s.target, elem_of(iter_term, j), en, s)
                    for c2, sig in self.exec_block(s.body, en):
                        if sig is None or sig[0] == "continue":
                            nxt.append(c2)
                        elif sig[0] == "break":
                            c2.add(Event("loop-exit", s, None, {"iterations": j + 1, "break": True}))
                            results.append((c2, None))
                        else:
                            results.append((c2, sig))
            frontier = nxt
            self._cap(len(frontier) + len(results))
            if not frontier:
                break
        return results

    def x_For(self, s, st):
        it = self.normalizer(st).norm(s.iter)
        st.add(Event("foriter", s, it))
        it = T.dict_lookup(it)
        if it[0] == "call" and it[1] == "enumerate" and it[2]:
            it = (it[0], it[1], (T.dict_lookup(it[2][0]),) + tuple(it[2][1:])) + tuple(it[3:])
        if it[0] == "call" and it[1] == "enumerate" and 1 <= len(it[2]) <= 2 and it[2][0][0] in ("tuple", "list") and not s.orelse:
            # enumerate over a display: the display of (number, element) pairs
            start = it[2][1] if len(it[2]) == 2 else dict(it[3]).get("start", C(0))
            if start[0] == "c" and isinstance(start[1], int) and not any(x[0] == "star" for x in it[2][0][1]):
                it = ("list", tuple(("tuple", (C(start[1] + k), x)) for k, x in enumerate(it[2][0][1])))
        if it[0] in ("tuple", "list") and 0 < len(it[1]) <= 4 and not any(x[0] == "star" for x in it[1]) and not s.orelse:
            return self._loop_literal(s, st, it)
        return self._loop(s, st, it, None)

    def _loop_literal(self, s, st, it):
        """a loop over a literal tuple / list runs exactly once per element"""
        results = []
        frontier = [st]
        for j, item in enumerate(it[1]):
            nxt = []
            for cur in frontier:
                cur.add(Event("iter", s, None, {"index": j}))
                self._assign_target(s.target, item, cur, s)
                for c2, sig in self.exec_block(s.body, cur):
                    if sig is None or sig[0] == "continue":
                        nxt.append(c2)
                    elif sig[0] == "break":
                        c2.add(Event("loop-exit", s, None, {"iterations": j + 1, "break": True}))
                        results.append((c2, None))
                    else:
                        results.append((c2, sig))
            frontier = nxt
            self._cap(len(frontier) + len(results))
        for cur in frontier:
            cur.add(Event("loop-exit", s, None, {"iterations": len(it[1])}))
            results.append((cur, None))
        return results

    x_AsyncFor = x_For

    def x_While(self, s, st):
        return self._loop(s, st, None, s.test)


def _as_load(target: ast.expr) -> ast.expr:
    import copy
    t = copy.deepcopy(target)
    for n in ast.walk(t):
        if hasattr(n, "ctx"):
            n.ctx = ast.Load()
    return t


def explore(ctx: Ctx, fn: FunctionInfo, **kw) -> List[Path]:
    return Explorer(ctx, fn, **kw).run()

"""R-TABLE extraction for the XMAP writer / reader pair (shared by C02 and C18)."""
from __future__ import annotations

import ast
from dataclasses import dataclass, field
from typing import Dict, List, Optional, Tuple

from ..loader import AnalysisError, FunctionInfo
from .. import terms as T
from ..terms import C, V, Term
from .common import explore, where, short, find_terms


@dataclass
class WriterTable:
    fn: FunctionInfo
    header_dict: Term                      # ('dict', ((key, type), ...)) including the marker entry
    header_names: List[str]                # keys, marker included
    header_types: List[str]
    names_joiner: Optional[str]
    types_joiner: Optional[str]
    record_keys: List[str]
    record_values: Dict[str, Term]         # values with properties NOT inlined
    record_values_inl: Dict[str, Term]     # values with row properties inlined
    row_var: Term
    rows_term: Term                        # what the records iterate over
    index_term: Optional[Term]
    to_csv_kwargs: Dict[str, Term]
    literal_lines: List[Term]
    frame_node: ast.AST
    lines_node: ast.AST
    reordered: list = field(default_factory=list)   # [(methods, to_csv event)]: paths on which rows are moved / dropped after the index was set


_ROW_MOVERS = {"sort_values", "sort_index", "sample", "iloc", "loc", "reindex", "drop_duplicates", "head", "tail", "reset_index",
               "nlargest", "nsmallest", "dropna", "query"}


def _const_str(t: Term) -> Optional[str]:
    return t[1] if t[0] == "c" and isinstance(t[1], str) else None


def extract_writer(ck) -> WriterTable:
    ctx = ck.ctx
    fn = ctx.p.find_method("XmapReader", "writeAlignments")
    out = {}
    reordered = []
    for inline in (0, 1):
        paths = explore(ck, fn, inline=inline, inline_ok=(lambda f: f.is_property) if inline else None)
        paths = [p for p in paths if p.outcome in ("fall", "return")]
        if len(paths) != 1:
            # the one recognised deviation: on some path the frame is re-ordered / reduced between its construction and to_csv
            direct, moved = [], []
            for p0 in paths:
                evs = [e for e in p0.events if e.kind == "call" and e.term[0] == "mcall" and e.term[2] == "to_csv"]
                if len(evs) != 1:
                    direct = []
                    break
                r0 = evs[0].term[1]
                chain = []
                while r0[0] == "mcall":
                    chain.append(r0[2])
                    r0 = r0[1]
                if r0[0] == "call" and r0[1].endswith("DataFrame") and not chain:
                    direct.append(p0)
                elif r0[0] == "call" and r0[1].endswith("DataFrame") and set(chain) <= _ROW_MOVERS:
                    moved.append((chain, evs[0]))
                else:
                    direct = []
                    break
            if len(direct) != 1 or len(direct) + len(moved) != len(paths):
                raise AnalysisError(f"{fn.where}: writeAlignments is expected to be straight-line code, found {len(paths)} paths")
            out[inline] = direct[0]
            reordered = moved
            continue
        out[inline] = paths[0]
    pa = out[0]
    lines_ev = None
    csv_ev = None
    for e in pa.events:
        if e.kind == "call" and e.term[0] == "mcall" and e.term[2] in ("writelines", "write"):
            lines_ev = lines_ev or e
        if e.kind == "call" and e.term[0] == "mcall" and e.term[2] == "to_csv":
            csv_ev = e
    if lines_ev is None or csv_ev is None:
        raise AnalysisError(f"{fn.where}: header writelines(...) / DataFrame.to_csv(...) not found in the writer")
    # header dict: the dict literal whose keys()/values() are joined into written lines
    joins = find_terms(lines_ev.term, lambda x: x[0] == "mcall" and x[2] == "join" and _const_str(x[1]) is not None)
    header_dict = None
    names_joiner = types_joiner = None
    for j in joins:
        dicts_keys = find_terms(j, lambda x: x[0] == "mcall" and x[2] in ("keys", "values") and x[1][0] == "dict")
        bare = [a for a in j[3] if a[0] == "dict"]
        for dk in dicts_keys:
            header_dict = dk[1]
            if dk[2] == "keys":
                names_joiner = _const_str(j[1])
            else:
                types_joiner = _const_str(j[1])
        for b in bare:
            header_dict = b
            names_joiner = _const_str(j[1])
    if header_dict is None:
        raise AnalysisError(f"{where(fn, lines_ev.node)}: header mapping (dict whose keys are joined into the #h line) not found")
    names, types = [], []
    for k, v in header_dict[1]:
        ks, vs = _const_str(k) if k is not None else None, _const_str(v)
        if ks is None or vs is None:
            raise AnalysisError(f"{where(fn, lines_ev.node)}: header mapping has a non-literal entry")
        names.append(ks)
        types.append(vs)
    # literal comment lines: elements of the written list
    lists = find_terms(lines_ev.term, lambda x: x[0] == "list" and len(x[1]) >= 3)
    literal_lines = list(lists[0][1]) if lists else []

    def frame_of(path_obj):
        ev = [e for e in path_obj.events if e.kind == "call" and e.term[0] == "mcall" and e.term[2] == "to_csv"][0]
        frame = ev.term[1]
        if not (frame[0] == "call" and frame[1].endswith("DataFrame")):
            raise AnalysisError(f"{where(fn, ev.node)}: to_csv receiver is not a DataFrame(...) construction")
        if not frame[2]:
            raise AnalysisError(f"{where(fn, ev.node)}: DataFrame(...) without data argument")
        data = frame[2][0]
        if not (data[0] == "comp" and data[1] == "list" and data[2][0] == "dict" and len(data[3]) == 1):
            raise AnalysisError(f"{where(fn, ev.node)}: DataFrame data is not a list of dict literals over the rows")
        keys, vals = [], {}
        for k, v in data[2][1]:
            ks = _const_str(k) if k is not None else None
            if ks is None:
                raise AnalysisError(f"{where(fn, ev.node)}: record dict has a non-literal key")
            keys.append(ks)
            vals[ks] = v
        rows_term = data[3][0][0]
        idx = dict(frame[3]).get("index")
        return ev, keys, vals, rows_term, idx

    ev0, keys, vals, rows_term, idx = frame_of(out[0])
    _, _, vals_inl, _, _ = frame_of(out[1])
    return WriterTable(fn, header_dict, names, types, names_joiner, types_joiner, keys, vals, vals_inl, ("bv", 0),
                       rows_term, idx, dict(ev0.term[4]), literal_lines, ev0.node, lines_ev.node, reordered)


def row_attrs(t: Term, row: Term = ("bv", 0)) -> List[str]:
    """attribute names read directly from the row variable inside t"""
    out = []
    for x in T.subterms(t):
        if x[0] == "attr" and x[1] == row and x[2] not in out:
            out.append(x[2])
        if x[0] == "app" and x[2] == row:        # method call on the row
            name = x[1].split(".")[-1]
            if name not in out:
                out.append(name)
    return out


@dataclass
class ReaderTable:
    fn: FunctionInfo
    columns: List[str]                       # requested from readFile
    param_columns: Dict[str, List[str]]      # parse(...) parameter -> columns mentioned in its argument
    param_terms: Dict[str, Term]
    column_attr: Dict[str, str]              # column -> attribute of BionanoAlignment it lands in
    parse_fn: FunctionInfo
    row_parser: FunctionInfo
    pair_parser_arg: Optional[Term]
    columns_node: ast.AST


def extract_reader(ck) -> ReaderTable:
    ctx = ck.ctx
    p = ctx.p
    fn = p.find_method("XmapReader", "readAlignments")
    paths = explore(ck, fn, unroll=(0, 1))
    cols = None
    cols_node = None
    row_callable = None
    for pa in paths:
        for e in pa.events:
            if e.term is None:
                continue
            for x in T.subterms(e.term):
                if x[0] == "app" and x[1].endswith("BionanoFileReader.readFile"):
                    a = dict(x[3]).get("columns")
                    if a is not None and a[0] == "list":
                        cols = [_const_str(c) for c in a[1]]
                        cols_node = e.node
        if pa.value is not None:
            for x in T.subterms(pa.value):
                if x[0] == "mcall" and x[2] == "apply" and len(x[3]) >= 1:
                    row_callable = x[3][0]
    if cols is None or any(c is None for c in cols):
        raise AnalysisError(f"{fn.where}: literal column list requested from readFile not found")
    row_parser = None
    if row_callable is not None:
        c = row_callable
        if c[0] == "app":
            # a factory method returning the (nested) row-parsing function
            factory = p.get_function(c[1])
            inner = [k for k in factory.children if not k.is_lambda]
            if len(inner) == 1:
                row_parser = inner[0]
            else:
                raise AnalysisError(f"{factory.where}: expected one nested row-parsing function")
        elif c[0] == "fn":
            row_parser = p.get_function(c[1])
        elif c[0] == "attr":
            # a bound method of the reader
            name = c[2]
            cls = fn.enclosing_class
            for cand in (name, name.replace(f"_{cls.name}__", "__") if cls else name):
                m = cls.methods.get(cand) if cls else None
                if m is not None:
                    row_parser = m
                    break
    if row_parser is None:
        raise AnalysisError(f"{fn.where}: row parser (callable applied to each row) not found")
    rps = [pa for pa in explore(ck, row_parser) if pa.outcome == "return"]
    if len(rps) != 1:
        raise AnalysisError(f"{row_parser.where}: row parser expected to have a single return")
    v = rps[0].value
    if not (v[0] == "app"):
        raise AnalysisError(f"{row_parser.where}: row parser does not return a repository factory call")
    parse_fn = p.get_function(v[1])
    param_terms = dict(v[3])
    rowv = V(row_parser.call_params()[0].name)
    param_columns = {}
    for pname, t in param_terms.items():
        cs = []
        for x in T.subterms(t):
            if x[0] == "idx" and x[1] == rowv and _const_str(x[2]) is not None and x[2][1] not in cs:
                cs.append(x[2][1])
        param_columns[pname] = cs
    # parse(...) -> constructor parameter -> attribute
    pps = [pa for pa in explore(ck, parse_fn) if pa.outcome == "return"]
    if len(pps) != 1 or pps[0].value[0] != "new":
        raise AnalysisError(f"{parse_fn.where}: factory expected to return one constructor call")
    new = pps[0].value
    cls = p.classes[new[1]]
    init = p.lookup_method(cls, "__init__", None)
    if init is None:
        raise AnalysisError(f"{cls.where}: constructor not found")
    ips = explore(ck, init)
    attr_of_init_param: Dict[str, str] = {}
    for pa in ips:
        for e in pa.events:
            if e.kind == "setattr" and e.term[0] == "v":
                tgt = e.extra["target"]
                if tgt[0] == "attr" and tgt[1] == V(init.self_name):
                    attr_of_init_param[e.term[1]] = tgt[2]
    parse_param_to_attr: Dict[str, str] = {}
    for ip, t in new[2]:
        vs = [x[1] for x in T.subterms(t) if x[0] == "v"]
        for pv in vs:
            if ip in attr_of_init_param:
                parse_param_to_attr[pv] = attr_of_init_param[ip]
    column_attr: Dict[str, str] = {}
    for pname, cs in param_columns.items():
        if pname in parse_param_to_attr and len(cs) == 1:
            column_attr[cs[0]] = parse_param_to_attr[pname]
    return ReaderTable(fn, cols, param_columns, param_terms, column_attr, parse_fn, row_parser,
                       param_terms.get("alignment"), cols_node)

"""isinstance tests that can never succeed, and attribute reads a successful test does not license.

Two contradiction rules in the sense of Engler et al. - the code states a belief (the declared type of a variable; the
class an isinstance test has just established) and then acts against it:

  dead test     isinstance(x, K) where x has a declared / inferred repository class C and no repository class inherits from
                both C and K (and neither is a subclass of the other): the branch is never taken.  In COMA: the elements of a
                segment are Scored* wrappers; testing them against the bare NotAligned*Position classes silently stops
                counting unpaired labels.
  missing attr  inside the branch guarded by isinstance(x, K) (K or a tuple of classes), `x.attr` is read although a class of
                the test defines no such attribute (no field, method, property, or `self.attr = ...` in it, its bases or its
                subclasses): AttributeError at run time for that class.

Both are decided from the class table alone; a class with a dynamic attribute protocol (__getattr__, __slots__-less
setattr in other modules) is skipped.
"""
from __future__ import annotations

import ast
from typing import Dict, List, Optional, Set, Tuple

from ..loader import ClassInfo, FunctionInfo
from ..types import Inst, ClsT


def _attrs_of(p, c: ClassInfo) -> Optional[Set[str]]:
    """names readable on an instance of c (own, inherited, and - to stay on the safe side - those its subclasses add)"""
    out: Set[str] = set()
    seen = set()
    stack = list(p.mro(c))
    subs = list(c.subclasses)
    while subs:
        s = subs.pop()
        stack.append(s)
        subs.extend(s.subclasses)
    for k in stack:
        if k.qualname in seen:
            continue
        seen.add(k.qualname)
        if "__getattr__" in k.methods or "__getattribute__" in k.methods:
            return None
        if k.external_bases and not all(b.split(".")[-1] in ("ABC", "object", "NamedTuple", "Enum", "Generic", "Protocol") for b in k.external_bases):
            return None            # inherits from a class we cannot see
        out.update(k.methods.keys())
        out.update(f.name for f in k.fields)
        out.update(k.class_assigns.keys())
        for m in k.methods.values():
            sn = m.self_name
            if not sn:
                continue
            for n in ast.walk(m.node):
                if isinstance(n, ast.Attribute) and isinstance(n.ctx, ast.Store) and isinstance(n.value, ast.Name) and n.value.id == sn:
                    out.add(n.attr)
    # attributes attached from outside the class body (AlignedPair.null = ...)
    for mod in p.modules.values():
        for st in mod.attr_assigns:
            for t in st.targets:
                if isinstance(t, ast.Attribute) and isinstance(t.value, ast.Name) and t.value.id in {k.name for k in stack}:
                    out.add(t.attr)
    return out


def _related(p, a: ClassInfo, b: ClassInfo) -> bool:
    if p.is_subclass(a, b) or p.is_subclass(b, a):
        return True
    for c in p.classes.values():
        if p.is_subclass(c, a) and p.is_subclass(c, b):
            return True
    return False


def _classes_of_test(ctx, fn, node: ast.expr) -> List[ClassInfo]:
    t = ctx.t.type_of(fn, node)
    if isinstance(t, ClsT):
        return [t.cls]
    if isinstance(node, ast.Tuple):
        out = []
        for e in node.elts:
            te = ctx.t.type_of(fn, e)
            if not isinstance(te, ClsT):
                return []
            out.append(te.cls)
        return out
    return []


def findings(ctx, fn: FunctionInfo):
    """yields (kind, node, text) with kind in {'dead-test', 'missing-attr'}"""
    p = ctx.p
    mangled = lambda cls, name: name if not (name.startswith("__") and not name.endswith("__")) else name
    for node in ast.walk(fn.node):
        if not (isinstance(node, ast.Call) and isinstance(node.func, ast.Name) and node.func.id == "isinstance" and len(node.args) == 2):
            continue
        subject, klass = node.args
        ks = _classes_of_test(ctx, fn, klass)
        if not ks:
            continue
        st = ctx.t.type_of(fn, subject)
        if isinstance(st, Inst) and isinstance(getattr(st, "cls", None), ClassInfo):
            c0 = st.cls
            if not any(_related(p, c0, k) for k in ks):
                yield ("dead-test", node, f"`{ast.unparse(node)}` can never be true: `{ast.unparse(subject)}` is a {c0.name} "
                       f"and no class is both a {c0.name} and a {' / '.join(k.name for k in ks)}")
    # attribute reads under a positive isinstance guard
    for node in ast.walk(fn.node):
        if not isinstance(node, (ast.If, ast.IfExp)):
            continue
        def single_binding(name):
            b = [n for n in ast.walk(fn.node) if isinstance(n, ast.Assign) and len(n.targets) == 1 and isinstance(n.targets[0], ast.Name)
                 and n.targets[0].id == name]
            stores = [n for n in ast.walk(fn.node) if isinstance(n, ast.Name) and n.id == name and isinstance(n.ctx, ast.Store)]
            return b[0].value if len(b) == 1 and len(stores) == 1 else None

        def classes_for(t, name, depth=0):
            """classes `name` is known to be an instance of (one of) when test t holds - None when t does not establish that"""
            if depth > 3:
                return None
            if isinstance(t, ast.Call) and isinstance(t.func, ast.Name) and t.func.id == "isinstance" and len(t.args) == 2 \
                    and isinstance(t.args[0], ast.Name) and t.args[0].id == name:
                return _classes_of_test(ctx, fn, t.args[1]) or None
            if isinstance(t, ast.BoolOp) and isinstance(t.op, ast.And):
                for v in t.values:
                    r = classes_for(v, name, depth + 1)
                    if r:
                        return r
                return None
            if isinstance(t, ast.BoolOp) and isinstance(t.op, ast.Or):
                out = []
                for v in t.values:
                    r = classes_for(v, name, depth + 1)
                    if not r:
                        return None
                    out.extend(k for k in r if k not in out)
                return out
            if isinstance(t, ast.Name):
                v = single_binding(t.id)
                return classes_for(v, name, depth + 1) if v is not None else None
            return None
        subjects = {x.args[0].id for x in ast.walk(node.test) if isinstance(x, ast.Call) and isinstance(x.func, ast.Name)
                    and x.func.id == "isinstance" and len(x.args) == 2 and isinstance(x.args[0], ast.Name)}
        if isinstance(node.test, ast.Name):
            v = single_binding(node.test.id)
            if v is not None:
                subjects |= {x.args[0].id for x in ast.walk(v) if isinstance(x, ast.Call) and isinstance(x.func, ast.Name)
                             and x.func.id == "isinstance" and len(x.args) == 2 and isinstance(x.args[0], ast.Name)}
        guards: Dict[str, List[ClassInfo]] = {}
        for name in subjects:
            ks = classes_for(node.test, name)
            if ks:
                guards[name] = ks
        if not guards:
            continue
        body = node.body if isinstance(node, ast.If) else [node.body]
        for name, ks in guards.items():
            rebound = any(isinstance(x, ast.Name) and x.id == name and isinstance(x.ctx, ast.Store) for b in body for x in ast.walk(b))
            if rebound:
                continue
            for b in body:
                for x in ast.walk(b):
                    if isinstance(x, ast.Attribute) and isinstance(x.value, ast.Name) and x.value.id == name and isinstance(x.ctx, ast.Load):
                        if x.attr.startswith("__") and x.attr.endswith("__"):
                            continue
                        for k in ks:
                            attrs = _attrs_of(p, k)
                            if attrs is None:
                                continue
                            if x.attr not in attrs and not any(a.endswith("__" + x.attr.lstrip("_")) for a in attrs if x.attr.startswith("__")):
                                yield ("missing-attr", x, f"`{name}.{x.attr}` is read in the branch taken for a {k.name}, which has no "
                                       f"attribute `{x.attr}` (AttributeError)")

"""Sibling agreement: two functions that are meant to be mirror images of each other under an exchange of roles
(reference <-> query, start <-> end, 1 <-> 2) must be the same program once the roles are exchanged.

The comparison is made on the syntax tree: identifiers of one function are rewritten with the role exchange, local variable
names of both are replaced by their order of first binding (so renaming a local in one sibling only is invisible), doc strings
and annotations are dropped.  Outcomes:
  * identical                       -> holds
  * same shape, a leaf differs      -> VIOLATION naming the leaf (an operator, a constant, an attribute or a role that was
                                       changed on one side only)
  * different shape                 -> the siblings are no longer written alike; nothing can be said (AnalysisError)
"""
from __future__ import annotations

import ast
import copy
import re
from typing import Dict, List, Optional, Tuple

from ..loader import AnalysisError, FunctionInfo


def _swap_text(s: str, swaps: List[Tuple[str, str]]) -> str:
    # simultaneous exchange a<->b for every pair, case-sensitive, on sub-words
    marks = {}
    out = s
    for k, (a, b) in enumerate(swaps):
        out = out.replace(a, f"\x00{k}a\x00").replace(b, f"\x00{k}b\x00")
    for k, (a, b) in enumerate(swaps):
        out = out.replace(f"\x00{k}a\x00", b).replace(f"\x00{k}b\x00", a)
    return out


class _Canon(ast.NodeTransformer):
    def __init__(self, swaps, fn_name):
        self.swaps = swaps
        self.locals: Dict[str, str] = {}
        self.fn_name = fn_name

    def _id(self, name: str) -> str:
        return _swap_text(name, self.swaps) if self.swaps else name

    def _local(self, name: str) -> str:
        if name not in self.locals:
            self.locals[name] = f"v{len(self.locals)}"
        return self.locals[name]

    def visit_FunctionDef(self, node):
        node = copy.copy(node)
        node.name = "f"
        node.decorator_list = []
        node.returns = None
        node.args = self.visit(node.args)
        body = list(node.body)
        if body and isinstance(body[0], ast.Expr) and isinstance(body[0].value, ast.Constant) and isinstance(body[0].value.value, str):
            body = body[1:]
        node.body = [self.visit(s) for s in body]
        return node

    def visit_arguments(self, node):
        node = copy.deepcopy(node)
        for a in node.posonlyargs + node.args + node.kwonlyargs:
            a.annotation = None
            a.arg = self._local(self._id(a.arg)) if a.arg not in ("self", "cls") else a.arg
        return node

    def visit_Name(self, node):
        name = self._id(node.id)
        if isinstance(node.ctx, ast.Store) or name in self.locals:
            name = self._local(name)
        return ast.copy_location(ast.Name(id=name, ctx=node.ctx), node)

    def visit_Attribute(self, node):
        return ast.copy_location(ast.Attribute(value=self.visit(node.value), attr=self._id(node.attr), ctx=node.ctx), node)

    def visit_AnnAssign(self, node):
        if node.value is None:
            return ast.Pass()
        return self.visit(ast.copy_location(ast.Assign(targets=[node.target], value=node.value), node))

    def visit_Constant(self, node):
        return node


def _canon(fn: FunctionInfo, swaps) -> ast.AST:
    # two passes: the first collects locals in binding order, the second renames every occurrence consistently
    c = _Canon(swaps, fn.name)
    c.visit(copy.deepcopy(fn.node))
    c2 = _Canon(swaps, fn.name)
    c2.locals = dict(c.locals)
    return c2.visit(copy.deepcopy(fn.node))


def _leaves(node: ast.AST):
    """(path, leaf value) pairs in a deterministic walk; the path encodes the shape"""
    out = []

    def go(n, path):
        if isinstance(n, ast.AST):
            fields = [(f, getattr(n, f, None)) for f in n._fields if f not in ("ctx", "type_comment", "kind", "lineno")]
            out.append((path + (type(n).__name__,), None))
            for f, v in fields:
                go(v, path + (type(n).__name__, f))
        elif isinstance(n, list):
            out.append((path + ("#", len(n)), None))
            for i, x in enumerate(n):
                go(x, path + (i,))
        else:
            out.append((path, n))
    go(node, ())
    return out


def compare(fnA: FunctionInfo, fnB: FunctionInfo, swaps: List[Tuple[str, str]]):
    """('same', None) | ('leaf', (lineA, lineB, whatA, whatB)) | ('shape', description)"""
    a = _canon(fnA, swaps)
    b = _canon(fnB, [])
    if ast.dump(a) == ast.dump(b):
        return "same", None
    la, lb = _leaves(a), _leaves(b)
    # shape = the sequence of paths with operator / node-type leaves abstracted
    def shape(ls):
        sh = []
        for path, leaf in ls:
            sh.append(tuple(x if not (isinstance(x, str) and x in _OPS) else "<op>" for x in path))
        return sh
    if len(la) != len(lb) or shape(la) != shape(lb):
        return "shape", f"{fnA.name} and {fnB.name} are structured differently ({len(la)} vs {len(lb)} syntax nodes)"
    for (pa, va), (pb, vb) in zip(la, lb):
        if pa != pb or va != vb:
            def line_of(fn, path):
                return fn.lineno
            wa = va if va is not None else [x for x in pa if isinstance(x, str) and x in _OPS][-1:] or pa[-1]
            wb = vb if vb is not None else [x for x in pb if isinstance(x, str) and x in _OPS][-1:] or pb[-1]
            return "leaf", (wa, wb, pa)
    return "same", None


_OPS = {"Lt", "LtE", "Gt", "GtE", "Eq", "NotEq", "In", "NotIn", "Is", "IsNot", "Add", "Sub", "Mult", "Div", "FloorDiv", "Mod",
        "And", "Or", "Not", "USub", "UAdd", "Pow"}


def sibling_symmetry(ck, rule: str, fnA: FunctionInfo, fnB: FunctionInfo, swaps, what: str):
    from .common import short
    kind, info = compare(fnA, fnB, swaps)
    construct = f"{short(fnA)}~{short(fnB)}"
    if kind == "same":
        ck.ok(rule, construct, fnA.where, f"{what}: the two functions are the same program under the exchange "
              + "/".join(f"{a}<->{b}" for a, b in swaps))
    elif kind == "leaf":
        wa, wb, path = info
        ck.violation(rule, construct, fnB.where, f"{what}: the siblings differ in one place (changed on one side only)",
                     found=f"{short(fnA)} (roles exchanged) has `{wa}` where {short(fnB)} has `{wb}`",
                     required="identical after exchanging " + ", ".join(f"{a}<->{b}" for a, b in swaps))
    else:
        raise AnalysisError(f"{fnA.where}: {info}: sibling agreement cannot be judged")


# ------------------------------------------------------------------------------------------------ term-level comparison
def term_swap(t, swaps):
    """exchange the roles in every identifier carried by a term (attribute names, class / function names, variables)"""
    if isinstance(t, str):
        return _swap_text(t, swaps)
    if isinstance(t, tuple):
        return tuple(term_swap(x, swaps) for x in t)
    return t


def semantic_symmetry(ck, rule: str, fnA: FunctionInfo, fnB: FunctionInfo, swaps, what: str, unroll=(1, 2)):
    """The two functions return the same terms under the same conditions once the roles are exchanged (statement order and
    local names do not matter: values are compared after symbolic execution of each path)."""
    from .common import explore, short
    from .. import terms as T

    def outcomes(fn, sw):
        out = []
        for pa in explore(ck, fn, unroll=unroll):
            if pa.outcome != "return":
                continue
            conds = frozenset((term_swap(c, sw) if sw else c, tv) for c, tv, _ in pa.state.assumptions)
            val = term_swap(pa.value, sw) if sw else pa.value
            out.append((conds, val))
        return out
    a, b = outcomes(fnA, swaps), outcomes(fnB, [])
    construct = f"{short(fnA)}~{short(fnB)}"
    sa, sb = set(a), set(b)
    if sa == sb and a:
        ck.ok(rule, construct, fnA.where, f"{what}: {len(sa)} explored outcome(s) agree under the exchange "
              + "/".join(f"{x}<->{y}" for x, y in swaps))
        return
    if len(a) != len(b) or {c for c, _ in a} != {c for c, _ in b}:
        raise AnalysisError(f"{fnA.where}: {short(fnA)} and {short(fnB)} branch differently ({len(a)} vs {len(b)} explored outcomes): "
                            f"sibling agreement cannot be judged")
    bmap = dict(b)
    for conds, val in a:
        if bmap.get(conds) != val:
            ck.violation(rule, construct, fnB.where, f"{what}: under the same conditions the siblings compute different values "
                         f"(a change made on one side only)",
                         found=f"{short(fnA)} (roles exchanged): {T.show(val)[:220]}  |  {short(fnB)}: {T.show(bmap.get(conds))[:220]}",
                         required="identical after exchanging " + ", ".join(f"{x}<->{y}" for x, y in swaps))
            return

"""Single-use iterators consumed more than once (shared by C10, C05, C16).

A generator expression, or the result of map / filter / zip / iter / reversed / enumerate / itertools.*, can be consumed once.
When such a value is bound to a local name and that name is then read

  * inside a loop body or a comprehension element / condition that executes repeatedly relative to the binding, or
  * by two or more consuming reads on one straight-line stretch,

the second consumer sees it (partly) exhausted: `x in gen` advances the generator up to the first hit, `any(gen)` eats the
first truthy element, a second `for` gets nothing.  What a later reader then sees depends on what earlier readers looked for -
in COMA: on the other molecules / peaks processed before.  The rule is syntactic and exact for the constructs it names; a
name that is re-bound (e.g. `x = list(x)`) is followed only up to the re-binding.
"""
from __future__ import annotations

import ast
from typing import List, Optional, Tuple

SINGLE_USE_CALLS = {"map", "filter", "zip", "iter", "reversed", "enumerate"}
ITERTOOLS = {"chain", "islice", "dropwhile", "takewhile", "groupby", "starmap", "accumulate", "compress", "filterfalse",
             "zip_longest", "pairwise", "from_iterable", "tee", "repeat", "cycle", "count", "product", "permutations",
             "combinations"}
NON_CONSUMING_PARENTS = (ast.Return, ast.Yield, ast.YieldFrom)


def is_single_use(e: ast.expr) -> Optional[str]:
    if isinstance(e, ast.GeneratorExp):
        return "generator expression"
    if isinstance(e, ast.Call):
        f = e.func
        if isinstance(f, ast.Name) and f.id in SINGLE_USE_CALLS:
            return f.id + "(...)"
        if isinstance(f, ast.Name) and f.id in ITERTOOLS and f.id not in ("tee", "repeat", "cycle", "count"):
            return f.id + "(...)"
        if isinstance(f, ast.Attribute) and f.attr in ITERTOOLS and f.attr not in ("tee", "repeat", "cycle", "count"):
            base = f.value
            if isinstance(base, ast.Name) and base.id in ("itertools", "chain"):
                return ast.unparse(f) + "(...)"
            if isinstance(base, ast.Attribute) and base.attr == "chain":
                return ast.unparse(f) + "(...)"
    return None


def _parents(fn_node: ast.AST):
    par = {}
    for n in ast.walk(fn_node):
        for c in ast.iter_child_nodes(n):
            par[c] = n
    return par


def _repeat_depth(node: ast.AST, binding: ast.AST, par) -> int:
    """number of repeating constructs that enclose `node` but not `binding`; being the iterable evaluated once by a construct
    (iter of a `for`, iter of the first generator of a comprehension) does not count for that construct"""
    binding_anc = set()
    if isinstance(binding, ast.arg):
        binding = par.get(par.get(binding), binding)      # the function itself
        binding_anc.add(binding)
    x = binding
    while x in par:
        x = par[x]
        binding_anc.add(x)
    depth = 0
    child = node
    x = par.get(node)
    while x is not None:
        if x not in binding_anc:
            if isinstance(x, (ast.For, ast.AsyncFor)):
                if child is not x.iter:
                    depth += 1
            elif isinstance(x, ast.While):
                depth += 1
            elif isinstance(x, (ast.ListComp, ast.SetComp, ast.GeneratorExp, ast.DictComp)):
                first_iter = x.generators[0].iter
                inside_first_iter = False
                y = node
                while y is not None and y is not x:
                    if y is first_iter:
                        inside_first_iter = True
                        break
                    y = par.get(y)
                if not inside_first_iter:
                    depth += 1
            elif isinstance(x, (ast.Lambda, ast.FunctionDef)):
                depth += 1           # a closure may be called any number of times
        child = x
        x = par.get(x)
    return depth


def reuse_sites(fn_node: ast.AST, iterable_params: bool = False) -> List[Tuple[ast.AST, str, str, ast.AST]]:
    """[(read node, name, kind of single-use value, binding node)] for every offending read in the function.
    iterable_params: a parameter annotated Iterable[...] is treated as possibly single-use too (the signature admits an iterator)."""
    par = _parents(fn_node)
    out = []
    bindings = []
    if isinstance(fn_node, (ast.FunctionDef, ast.AsyncFunctionDef)):
        for a in fn_node.args.posonlyargs + fn_node.args.args + fn_node.args.kwonlyargs:
            ann = ast.unparse(a.annotation) if a.annotation is not None else ""
            head = a.annotation.value if isinstance(a.annotation, ast.Subscript) else a.annotation
            head_name = head.id if isinstance(head, ast.Name) else head.attr if isinstance(head, ast.Attribute) else None
            if head_name in ("Iterator", "Generator") or (iterable_params and head_name == "Iterable"):
                bindings.append((a, a.arg, f"parameter annotated {ann}"))
    for n in ast.walk(fn_node):
        if isinstance(n, ast.Assign) and len(n.targets) == 1 and isinstance(n.targets[0], ast.Name):
            k = is_single_use(n.value)
            if k:
                bindings.append((n, n.targets[0].id, k))
    for b, name, kind in bindings:
        scope = par.get(b)
        # reads after the binding, up to the next re-binding of the name (by line)
        rebinds = sorted(m.lineno for m in ast.walk(fn_node)
                         if isinstance(m, (ast.Assign, ast.AugAssign, ast.AnnAssign)) and m is not b
                         and m.lineno > getattr(b, "lineno", 0)
                         and any(isinstance(t, ast.Name) and t.id == name for t in
                                 (m.targets if isinstance(m, ast.Assign) else [m.target])))
        limit = rebinds[0] if rebinds else 10 ** 9
        own = {id(m) for m in ast.walk(b)}       # `xs = (f(x) for x in xs)`: the right-hand side reads the *previous* value
        reads = [m for m in ast.walk(fn_node) if isinstance(m, ast.Name) and m.id == name and isinstance(m.ctx, ast.Load)
                 and id(m) not in own
                 and (isinstance(b, ast.arg) or (m.lineno, m.col_offset) > (b.lineno, b.col_offset)) and m.lineno <= limit]
        consuming = []
        for r in reads:
            pr = par.get(r)
            if isinstance(pr, NON_CONSUMING_PARENTS):
                continue
            if isinstance(pr, ast.Compare) and all(isinstance(o, (ast.Is, ast.IsNot)) for o in pr.ops):
                continue
            if isinstance(pr, ast.Call) and isinstance(pr.func, ast.Name) and pr.func.id == "next" and pr.args and pr.args[0] is r:
                continue             # explicit cursor idiom: it = iter(xs); next(it) ... next(it)
            if iterable_params and isinstance(b, ast.arg) and (
                    (isinstance(pr, (ast.If, ast.While, ast.IfExp)) and pr.test is r) or isinstance(pr, ast.BoolOp) or
                    (isinstance(pr, ast.UnaryOp) and isinstance(pr.op, ast.Not))):
                continue             # a truth test of the argument looks at the object, not at its elements
            consuming.append(r)
        repeated = [r for r in consuming if _repeat_depth(r, b, par) > 0]
        if repeated:
            out.extend((r, name, kind, b) for r in repeated)
        elif len(consuming) >= 2:
            # two consuming reads on one stretch - unless they sit in different branches of one `if`
            def branch_path(n):
                pth = []
                c, x = n, par.get(n)
                while x is not None:
                    if isinstance(x, ast.If):
                        pth.append((id(x), "body" if any(c is s for s in x.body) else "else" if any(c is s for s in x.orelse) else "test"))
                    c, x = x, par.get(x)
                return dict(pth)
            for i in range(len(consuming)):
                for j in range(i + 1, len(consuming)):
                    a, c = branch_path(consuming[i]), branch_path(consuming[j])
                    exclusive = any(k in c and {a[k], c[k]} == {"body", "else"} for k in a)
                    if not exclusive:
                        out.append((consuming[j], name, kind, b))
    seen = set()
    uniq = []
    for r, name, kind, b in out:
        if id(r) not in seen:
            seen.add(id(r))
            uniq.append((r, name, kind, b))
    return uniq


def run_iterator_rule(ck, rule: str, functions=None, construct_prefix: str = "", iterable_params: bool = False):
    """apply the rule to the given functions (default: every non-test function of the repository)"""
    from .common import where, short
    p = ck.ctx.p
    fns = list(functions) if functions is not None else list(p.nontest_functions())
    n_bind = 0
    for fn in fns:
        for n in ast.walk(fn.node):
            if isinstance(n, ast.Assign) and len(n.targets) == 1 and isinstance(n.targets[0], ast.Name) and is_single_use(n.value):
                n_bind += 1
        sites = reuse_sites(fn.node, iterable_params)
        for r, name, kind, b in sites:
            ck.violation(rule, f"{construct_prefix}{short(fn)}:{name}:reused", where(fn, r),
                         f"`{name}` is a single-use iterator ({kind}) that is read again here: an earlier reader has already "
                         f"advanced or exhausted it, so what this reader sees depends on what was looked for before",
                         found=f"`{name}` bound at line {getattr(b, 'lineno', fn.lineno)}, read again at line {r.lineno}",
                         required="materialise once (list(...)) or read once")
    return n_bind


def late_binding_sites(fn_node: ast.AST):
    """(node, variable, kind): a lambda / generator expression / lazy map-filter that refers to the variable of the comprehension or
    loop it is created in and is *kept* (an element or value of the comprehension's result, appended, stored) instead of being
    consumed on the spot. Python closes over the variable, not its value: by the time the kept object runs, the variable holds the
    last value of the iteration - every kept object then works with that one value."""
    out = []
    EAGER = {"list", "tuple", "sorted", "set", "frozenset", "sum", "min", "max", "any", "all", "len", "next", "dict", "str"}

    def lazy_refs(expr, names):
        """lazy sub-expressions of expr (not under an eager consumer) that mention one of names"""
        hits = []

        def walk(n, eager):
            if isinstance(n, ast.Call) and ((isinstance(n.func, ast.Name) and n.func.id in EAGER) or
                                            (isinstance(n.func, ast.Attribute) and n.func.attr in ("join", "fmean", "mean", "median", "extend",
                                                                                                     "writelines", "update", "fromiter"))):
                for a in n.args:
                    walk(a, True)                  # consumed on the spot by the call it is handed to
                if isinstance(n.func, ast.Attribute):
                    walk(n.func.value, eager)
                return
            lazy = isinstance(n, (ast.Lambda, ast.GeneratorExp)) or (
                isinstance(n, ast.Call) and isinstance(n.func, ast.Name) and n.func.id in ("filter", "map", "zip", "enumerate")) or (
                isinstance(n, ast.Call) and ast.unparse(n.func) in ("itertools.filterfalse", "itertools.takewhile", "itertools.dropwhile",
                                                                    "filterfalse", "takewhile", "dropwhile", "itertools.starmap", "starmap"))
            if lazy and not eager:
                own = set()
                if isinstance(n, ast.Lambda):
                    own = {a.arg for a in n.args.args}
                used = {x.id for x in ast.walk(n) if isinstance(x, ast.Name) and isinstance(x.ctx, ast.Load)} - own
                if isinstance(n, ast.Call):
                    # a lazy call is only late-bound through a lambda / generator among its arguments
                    inner = [a for a in n.args if isinstance(a, (ast.Lambda, ast.GeneratorExp))]
                    used = set()
                    for a in inner:
                        own2 = {x.arg for x in a.args.args} if isinstance(a, ast.Lambda) else set()
                        used |= {x.id for x in ast.walk(a) if isinstance(x, ast.Name) and isinstance(x.ctx, ast.Load)} - own2
                hit = used & names
                if hit:
                    hits.append((n, sorted(hit)[0]))
                return
            for c in ast.iter_child_nodes(n):
                walk(c, eager)
        walk(expr, False)
        return hits

    for n in ast.walk(fn_node):
        if isinstance(n, (ast.ListComp, ast.SetComp, ast.DictComp)):
            names = {x.id for g in n.generators for x in ast.walk(g.target) if isinstance(x, ast.Name)}
            elts = [n.key, n.value] if isinstance(n, ast.DictComp) else [n.elt]
            for e in elts:
                for node, var in lazy_refs(e, names):
                    out.append((node, var, "comprehension"))
        elif isinstance(n, ast.For):
            names = {x.id for x in ast.walk(n.target) if isinstance(x, ast.Name)}
            for st in ast.walk(n):
                if isinstance(st, ast.Call) and isinstance(st.func, ast.Attribute) and st.func.attr in ("append", "add", "setdefault") and st.args:
                    for node, var in lazy_refs(st.args[-1], names):
                        out.append((node, var, "loop"))
                elif isinstance(st, ast.Assign) and isinstance(st.targets[0], ast.Subscript):
                    for node, var in lazy_refs(st.value, names):
                        out.append((node, var, "loop"))
    return out


def run_late_binding_rule(ck, rule: str, functions):
    from .common import where, short
    n = 0
    for fn in functions:
        if fn.is_lambda:
            continue
        n += 1
        for node, var, kind in late_binding_sites(fn.node):
            ck.violation(rule, f"{short(fn)}:{var}:late-binding", where(fn, node),
                         f"a lazily evaluated object (lambda / generator / filter / map) refers to the {kind} variable `{var}` and is kept "
                         "beyond its iteration: the closure sees the variable, not the value it had - when the object finally runs, "
                         f"`{var}` holds the last value, so every kept object selects the same rows",
                         found=ast.unparse(node)[:140], required="consume on the spot (list(...)) or bind the value (lambda r, k=k: ...)")
    return n

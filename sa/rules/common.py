"""Helpers shared by the per-property rule instances."""
from __future__ import annotations

import ast
from typing import Dict, Iterable, List, Optional, Set, Tuple

from ..loader import AnalysisError, FunctionInfo, ClassInfo
from .. import terms as T
from ..terms import Term, C, V
from ..norm import Ctx, Normalizer
from ..paths import Explorer, Path, nonempty_term


def where(fn: FunctionInfo, node: Optional[ast.AST] = None) -> str:
    line = getattr(node, "lineno", None) or fn.lineno
    return f"{fn.module.relpath}:{line}"


def short(fn_or_qual) -> str:
    q = fn_or_qual.qualname if hasattr(fn_or_qual, "qualname") else fn_or_qual
    return q.split(":")[-1]


def explore(ck, fn: FunctionInfo, **kw) -> List[Path]:
    ex = Explorer(ck.ctx, fn, **kw)
    paths = ex.run()
    ck.add_paths(len(paths))
    return paths


def mentions(t: Term, sub: Term) -> bool:
    return T.contains(t, sub)


def find_terms(t: Term, pred) -> List[Term]:
    return [x for x in T.subterms(t) if pred(x)]


def app_qual(t: Term) -> Optional[str]:
    return t[1] if t and t[0] == "app" else None


def app_arg(t: Term, name: str) -> Optional[Term]:
    if t[0] == "app":
        for k, v in t[3]:
            if k == name:
                return v
    if t[0] == "new":
        for k, v in t[2]:
            if k == name:
                return v
    return None


def app_args(t: Term) -> Dict[str, Term]:
    if t[0] == "app":
        return dict(t[3])
    if t[0] == "new":
        return dict(t[2])
    return {}


def single_return_term(ck, fn: FunctionInfo, **kw) -> Tuple[Term, Path]:
    paths = [p for p in explore(ck, fn, **kw) if p.outcome == "return"]
    if len(paths) != 1:
        raise AnalysisError(f"{fn.where} {short(fn)}: expected a single return path, found {len(paths)}")
    return paths[0].value, paths[0]


def fn_of(ctx: Ctx, qual: str) -> FunctionInfo:
    return ctx.p.get_function(qual)


def self_attr(*names: str) -> Term:
    t = V("self")
    for n in names:
        t = T.mk_attr(t, n)
    return t


def strip_wrappers(t: Term, names=("list", "tuple", "iter")) -> Term:
    while t[0] == "call" and t[1] in names and len(t[2]) == 1 and not t[3]:
        t = t[2][0]
    if t[0] == "comp" and t[1] in ("list", "gen") and len(t[3]) == 1 and not t[3][0][1] and t[2] == ("bv", _comp_level(t)):
        return strip_wrappers(t[3][0][0], names)
    return t


def _comp_level(t: Term) -> int:
    # level of the (single) generator variable of a comprehension: smallest bv in elt, if elt is a bare bv
    return t[2][1] if t[2][0] == "bv" else -1


EXCLUDED_FROM_RUN = ("src.diagnostic", "src.plot_alignments", "src.compare_alignments", "sv.")


def run_roots(ctx: Ctx) -> List[FunctionInfo]:
    return [ctx.p.get_function("src.program:Program.__init__"), ctx.p.get_function("src.program:Program.run")]


def run_reach(ctx: Ctx, extra_roots: Iterable[FunctionInfo] = ()) -> List[FunctionInfo]:
    """Functions reachable from Program.__init__/run, without the diagnostics extensions, plots and scripts
    (the dispatcher discards handler results; DESIGN.md C09.3)."""
    reach = ctx.cg.reach(run_roots(ctx) + list(extra_roots))
    out = []
    for q in sorted(reach):
        fn = ctx.p.functions[q]
        if fn.module.is_test:
            continue
        if any(fn.module.name.startswith(x) for x in EXCLUDED_FROM_RUN):
            continue
        out.append(fn)
    return out


def path_terms(pa: Path):
    """(term, facts-at-that-point, node, kind) for everything evaluated on a path."""
    for e in pa.events:
        if e.term is not None:
            yield e.term, (e.facts or {}), e.node, e.kind
        if e.extra:
            for k in ("base", "index", "target", "value"):
                v = e.extra.get(k)
                if isinstance(v, tuple) and v and isinstance(v[0], str):
                    yield v, (e.facts or {}), e.node, e.kind + ":" + k
    if pa.value is not None:
        yield pa.value, pa.facts, pa.node, pa.outcome


def parallel_map_site(ctx: Ctx):
    """(function, call node, map name, worker FunctionInfo) for the p_tqdm map inside the coordinators' execute."""
    found = []
    for cls_name in ("_WorkflowCoordinator",):
        cls = ctx.p.find_class(cls_name)
        for m in cls.methods.values():
            for site in ctx.cg.sites.get(m.qualname, []):
                for c in site.callees:
                    if c.kind == "ext" and c.name.split(".")[0] == "p_tqdm":
                        found.append((m, site.node, c.name.split(".")[-1]))
    if len(found) != 1:
        raise AnalysisError(f"expected exactly one p_tqdm map in _WorkflowCoordinator, found {len(found)}")
    fn, call, name = found[0]
    if not call.args:
        raise AnalysisError(f"{where(fn, call)}: parallel map without a positional worker argument")
    from ..types import FuncT
    warg = call.args[0]
    if isinstance(warg, ast.Call) and ast.unparse(warg.func) in ("partial", "functools.partial") and warg.args:
        warg = warg.args[0]             # partial(worker, <bound arguments>): the worker is the function that is bound
    wt = ctx.t.type_of(fn, warg)
    if not isinstance(wt, FuncT):
        raise AnalysisError(f"{where(fn, call)}: worker passed to {name} is not a resolvable function")
    worker = wt.fn
    # a lambda that just forwards to a method: the method is the worker
    target = worker
    if worker.is_lambda:
        body = worker.node.body
        if isinstance(body, ast.Call):
            cs = [c for c in ctx.cg.resolve_call(worker, body) if c.kind == "fn"]
            if len(cs) >= 1:
                target = cs[0].fn
    return fn, call, name, worker, target


def option_declarations(ck):
    """(parse function, [add_argument call nodes]) - searched in Args.parse and in every other function of its module (the
    parser construction may have been moved to a helper)"""
    p = ck.ctx.p
    args_cls = p.get_class("src.args:Args")
    parse = p.lookup_method(args_cls, "parse", None)
    if parse is None:
        raise AnalysisError("Args.parse not found")
    import copy
    nodes = []
    seen = set()
    fns = [parse] + [f for f in p.nontest_functions() if f.module is parse.module and f is not parse]

    class _Subst(ast.NodeTransformer):
        def __init__(self, mapping):
            self.mapping = mapping

        def visit_Name(self, n):
            if isinstance(n.ctx, ast.Load) and n.id in self.mapping:
                return copy.deepcopy(self.mapping[n.id])
            return n

        def visit_Subscript(self, n):
            self.generic_visit(n)
            if isinstance(n.value, (ast.List, ast.Tuple)) and isinstance(n.slice, ast.Constant) and isinstance(n.slice.value, int) \
                    and -len(n.value.elts) <= n.slice.value < len(n.value.elts):
                return n.value.elts[n.slice.value]
            return n

        def visit_BinOp(self, n):
            self.generic_visit(n)
            if isinstance(n.op, ast.Add) and isinstance(n.left, ast.Constant) and isinstance(n.right, ast.Constant) \
                    and isinstance(n.left.value, str) and isinstance(n.right.value, str):
                return ast.copy_location(ast.Constant(value=n.left.value + n.right.value), n)
            return n

    def literal(e):
        return isinstance(e, ast.Constant) or (isinstance(e, (ast.List, ast.Tuple)) and all(literal(x) for x in e.elts))

    def local_literals(fnode):
        # names of the function bound exactly once, to a literal
        stores = {}
        for n in ast.walk(fnode):
            if isinstance(n, ast.Name) and isinstance(n.ctx, ast.Store):
                stores[n.id] = stores.get(n.id, 0) + 1
        out = {}
        for n in ast.walk(fnode):
            if isinstance(n, ast.Assign) and len(n.targets) == 1 and isinstance(n.targets[0], ast.Name) and stores.get(n.targets[0].id) == 1 \
                    and literal(n.value):
                out[n.targets[0].id] = n.value
        return out
    for f in fns:
        consts = local_literals(f.node)
        # helpers (nested or module-level functions of this module) that declare an option from their parameters: one declaration per
        # call of the helper, with the call's arguments in place of the parameters
        helpers = {}
        for n in ast.walk(f.node):
            if isinstance(n, ast.FunctionDef) and n is not f.node:
                helpers[n.name] = n
        inside_helper = set()
        for h in helpers.values():
            for n in ast.walk(h):
                if isinstance(n, ast.Call) and isinstance(n.func, ast.Attribute) and n.func.attr == "add_argument":
                    inside_helper.add(id(n))
        for n in ast.walk(f.node):
            if id(n) in seen:
                continue
            seen.add(id(n))
            if isinstance(n, ast.Call) and isinstance(n.func, ast.Attribute) and n.func.attr == "add_argument" and id(n) not in inside_helper:
                nodes.append(_Subst(consts).visit(copy.deepcopy(n)) if consts else n)
            if isinstance(n, ast.Call) and isinstance(n.func, ast.Name) and n.func.id in helpers:
                h = helpers[n.func.id]
                from ..callgraph import bind_args as _bind
                from ..loader import Param as _P
                hp = [x.arg for x in h.args.posonlyargs + h.args.args]
                if any(isinstance(a, ast.Starred) for a in n.args) or any(k.arg is None for k in n.keywords) or len(n.args) > len(hp):
                    raise AnalysisError(f"{where(f, n)}: call of the option helper {h.name} is not understood")
                mapping = dict(consts)
                for name, a in zip(hp, n.args):
                    mapping[name] = a
                for k in n.keywords:
                    mapping[k.arg] = k.value
                defaults = h.args.defaults
                for name, dflt in zip(hp[len(hp) - len(defaults):], defaults):
                    mapping.setdefault(name, dflt)
                for m in ast.walk(h):
                    if isinstance(m, ast.Call) and isinstance(m.func, ast.Attribute) and m.func.attr == "add_argument":
                        new = _Subst(mapping).visit(copy.deepcopy(m))
                        ast.copy_location(new, n)
                        ast.fix_missing_locations(new)
                        nodes.append(new)
    return parse, nodes


def expand_simple_apps(ck, t: Term, depth: int = 2) -> Term:
    """Replace every application of a repository function whose body is a single straight-line expression (selectors,
    one-line helpers, properties written as methods) by that expression - used by a rule to retry when the shape it expects
    is hidden behind such a call."""
    ctx = ck.ctx
    if depth <= 0:
        return t

    def go(x: Term) -> Term:
        x = T.rebuild(x, go)
        if x[0] == "attr" and isinstance(x[2], str):
            # a property read through a receiver of unknown type: unique property of that name in the repository
            owners = [c for c in ctx.p.classes.values() if not c.module.is_test and x[2] in c.methods and c.methods[x[2]].is_property]
            if len(owners) == 1:
                fnp = owners[0].methods[x[2]]
                levels = [y[1] for y in T.subterms(x) if y[0] == "bv"]
                n = Normalizer(ctx, fnp, env={fnp.self_name: x[1]} if fnp.self_name else {}, level=(max(levels) + 1) if levels else 0)
                try:
                    r = n._body_to_term(list(fnp.body))
                except Exception:
                    r = None
                if r is not None and not T.contains(r, x):
                    return expand_simple_apps(ck, r, depth - 1)
            return x
        if x[0] == "app":
            fn = ctx.p.functions.get(x[1])
            if fn is not None and not fn.module.is_test:
                env = dict(x[3])
                if "*" in env:
                    return x
                levels = [y[1] for y in T.subterms(x) if y[0] == "bv"]
                n = Normalizer(ctx, fn, env=env, level=(max(levels) + 1) if levels else 0)
                if fn.self_name and x[2] is not None:
                    n.env[fn.self_name] = x[2]
                body = [s for s in fn.body] if not fn.is_lambda else fn.body
                try:
                    r = n._body_to_term(list(body)) if not fn.is_lambda else None
                except Exception:
                    r = None
                if r is not None:
                    return expand_simple_apps(ck, r, depth - 1)
        return x
    return go(t)


def select_cases(t: Term, limit: int = 8):
    """[(specialised term, [(condition, truth), ...])]: a term containing conditional expressions (whose tests mention no
    bound variable) is split into one case per outcome, so a rule written for if/else paths also reads `a if c else b`"""
    def first_select(x):
        for y in T.subterms(x):
            if y[0] == "select" and not any(z[0] == "bv" for z in T.subterms(y[1])):
                return y
        return None
    out = []
    work = [(t, [])]
    while work:
        cur, conds = work.pop()
        sel = first_select(cur)
        if sel is None or len(out) + len(work) >= limit:
            out.append((cur, conds))
            continue
        pc, pol = T.positive(sel[1])
        for tv in (True, False):
            work.append((T.specialize(cur, {pc: tv}), conds + [(pc, tv)]))
    return out


def merged_return(ck, fn: FunctionInfo, **kw) -> Tuple[Term, Path]:
    """The value a function returns as ONE term: the return paths are folded back into a tree of conditional expressions
    along the conditions they assumed, so `if c: return a` / `return b` and `return a if c else b` read the same."""
    paths = [p for p in explore(ck, fn, **kw) if p.outcome == "return"]
    if not paths:
        raise AnalysisError(f"{fn.where} {short(fn)}: no return path")

    def fold(items):
        # items: [(remaining assumptions [(cond, truth)], value)]
        if len(items) == 1:
            return items[0][1]
        heads = {it[0][0][0] if it[0] else None for it in items}
        if None in heads or len(heads) != 1:
            raise AnalysisError(f"{fn.where} {short(fn)}: return paths do not branch on a common condition")
        c = next(iter(heads))
        t_items = [(it[0][1:], it[1]) for it in items if it[0][0][1] is True]
        f_items = [(it[0][1:], it[1]) for it in items if it[0][0][1] is False]
        if not t_items or not f_items:
            return fold(t_items or f_items)
        return T.mk_select(c, fold(t_items), fold(f_items))
    items = [([(c, tv) for c, tv, _ in p.state.assumptions], p.value) for p in paths]
    return fold(items), paths[0]


def cmap_reader_methods(ck):
    """(read, parse) of CmapReader found by what they do, not by what they are called: `read` is the method that reads the
    file through the file reader (calls readFile), `parse` the one that builds an OpticalMap from one molecule's rows"""
    p = ck.ctx.p
    cr = p.find_class("CmapReader")
    read = parse = None
    for m in cr.methods.values():
        if m.name == "__init__":
            continue
        txt = ast.unparse(m.node)
        if "readFile" in txt and read is None:
            read = m
        if "OpticalMap(" in txt and "readFile" not in txt:
            parse = m
    if read is not None and parse is None:
        _paired_by_position(ck, read)
    if parse is None and read is not None:
        # the per-molecule parser moved out of the class: a function of the module that builds the OpticalMap and is handed to apply
        for f in p.nontest_functions():
            if f.module is cr.module and not f.is_lambda and f.cls is None and "OpticalMap(" in ast.unparse(f.node) \
                    and "readFile" not in ast.unparse(f.node):
                parse = f
    if read is None or parse is None:
        raise AnalysisError(f"{cr.where}: CmapReader's reading method / per-molecule parser not found")
    ck.ctx.keep_calls.update((read.qualname, parse.qualname))
    return read, parse


def _paired_by_position(ck, read):
    """no per-molecule parser: if the reader builds OpticalMap(id, length, positions) from sequences that are zipped together,
    a molecule's length is whatever happens to stand at the same index - not the length recorded under the molecule's id"""
    for n in ast.walk(read.node):
        if isinstance(n, ast.Call) and isinstance(n.func, ast.Name) and n.func.id == "OpticalMap":
            holder = None
            for m in ast.walk(read.node):
                if isinstance(m, (ast.ListComp, ast.GeneratorExp)) and any(x is n for x in ast.walk(m)):
                    holder = m
            zips = [g.iter for g in holder.generators if isinstance(g.iter, ast.Call) and isinstance(g.iter.func, ast.Name)
                    and g.iter.func.id == "zip"] if holder is not None else []
            if zips:
                rule = "C17.2" if ck.prop_id == "C17" else ("C10.3" if ck.prop_id == "C10" else f"{ck.prop_id}.reader")
                ck.violation(rule, short(read) + ":paired-by-position", where(read, n),
                             "molecule id / label positions and molecule length are taken from two sequences that are zipped "
                             "together: they are paired by position, not by molecule id (a molecule without labels, present in one "
                             "sequence only, shifts every later length)", found=ast.unparse(zips[0])[:160],
                             required="length and labels selected from the rows of one CMapId")


class _Mismatch(Exception):
    pass


def push_select_inside(t: Term) -> Term:
    """select(c, f(a1, x), f(a2, x))  ->  f(select(c, a1, a2), x): a conditional at the top of a term is moved down to the
    smallest sub-terms that actually differ, so the common shape can be matched and the difference is named where it is"""
    if t[0] != "select":
        return t
    c, a, b = t[1], push_select_inside(t[2]), push_select_inside(t[3])

    TAGS = {"and", "andthen", "app", "attr", "await", "binop", "bv", "c", "call", "cls", "comp", "concat", "dict", "div", "elem",
            "eq", "ext", "fmt", "fn", "fstr", "idx", "in", "is", "isnone", "isnot", "kwstar", "lam", "le", "list", "lt", "mcall",
            "ne", "new", "not", "notin", "notnone", "or", "orelse", "poly", "pow", "rep", "select", "set", "slice", "star",
            "tuple", "unk", "v", "yieldval", "mod", "floordiv"}

    def is_term(x):
        return isinstance(x, tuple) and len(x) > 0 and isinstance(x[0], str) and x[0] in TAGS

    def au(x, y):
        if x == y:
            return x
        if is_term(x) and is_term(y) and (x[0] != y[0] or len(x) != len(y) or x[0] in ("c", "v", "bv", "select")):
            return ("select", c, x, y)
        if isinstance(x, tuple) and isinstance(y, tuple) and len(x) == len(y):
            if is_term(x) and is_term(y):
                try:
                    return tuple(au_raw(p, q) for p, q in zip(x, y))
                except _Mismatch:
                    return ("select", c, x, y)
            if not is_term(x) and not is_term(y):
                return tuple(au_raw(p, q) for p, q in zip(x, y))
        raise _Mismatch()

    def au_raw(x, y):
        if x == y:
            return x
        if isinstance(x, tuple) and isinstance(y, tuple):
            return au(x, y)
        raise _Mismatch()
    try:
        return au(a, b)
    except _Mismatch:
        return ("select", c, a, b)


def arg_or_default(ck, t: Term, name: str) -> Optional[Term]:
    """argument `name` of an app / new term; when it was left out (or spelled as the constant default, which the normaliser
    drops) the parameter's constant default"""
    v = app_arg(t, name)
    if v is not None:
        return v
    p = ck.ctx.p
    params = None
    if t[0] == "app":
        fn = p.functions.get(t[1])
        params = fn.call_params() if fn is not None else None
    elif t[0] == "new":
        cls = p.classes.get(t[1])
        params = p.constructor_params(cls) if cls is not None else None
    for prm in params or []:
        if prm.name == name and isinstance(prm.default, ast.Constant):
            return C(prm.default.value)
    return None


def set_difference(t):
    """(a, b) when `t` is the set difference of the elements of a and b, in either spelling:
    set(a).difference(b) / set(a).difference(set(b)) / set(a) - set(b).  None otherwise."""
    def unset(x):
        return x[2][0] if x[0] == "call" and x[1] in ("set", "frozenset") and len(x[2]) == 1 and not x[3] else None
    if t[0] == "mcall" and t[2] == "difference" and len(t[3]) == 1 and not (t[4] if len(t) > 4 else ()):
        a = unset(t[1])
        b = unset(t[3][0]) or t[3][0]
        return (a, b) if a is not None else None
    if t[0] == "poly":
        items = T.to_poly(t)
        if len(items) == 2 and all(len(m) == 1 for m in items):
            pos = [m[0] for m, c in items.items() if c == 1]
            neg = [m[0] for m, c in items.items() if c == -1]
            if len(pos) == 1 and len(neg) == 1 and unset(pos[0]) is not None and unset(neg[0]) is not None:
                return unset(pos[0]), unset(neg[0])
    return None


def reachable_only_from(ctx, f, root_short: str, _seen=None) -> bool:
    """`f` is the public function `root_short` ("Class.method"), is nested in it, or is a private helper every call site of which
    lies in such a function (transitively): a frozen exception granted to a public entry point covers exactly these - renaming,
    extracting or inlining a private helper does not change what the entry point guarantees"""
    seen = _seen if _seen is not None else set()
    if short(f) == root_short:
        return True
    if f.qualname in seen:
        return False
    seen.add(f.qualname)
    g = f.parent
    while g is not None:
        if short(g) == root_short:
            return True
        g = g.parent
    if not f.name.startswith("_") or (f.name.startswith("__") and f.name.endswith("__")):
        return False
    sites = [s0 for s0 in ctx.cg.sites_calling(f) if not s0.caller.module.is_test]
    return bool(sites) and all(reachable_only_from(ctx, s0.caller, root_short, seen) for s0 in sites)


def _direct_call_names(f) -> set:
    out = set()
    for n in ast.walk(f.node):
        if isinstance(n, ast.Call):
            if isinstance(n.func, ast.Attribute):
                out.add(n.func.attr)
            elif isinstance(n.func, ast.Name):
                out.add(n.func.id)
    return out


def private_anchor(ctx, class_name: str, name: str, root: str, calls=(), returns_of_root=False):
    """The private helper `class_name.name`. Private names are free to change: when it is gone, the helper is re-found by its
    role - the one private function (method of any class or module-level, reachable only from the public `root`
    "Class.method") whose own statements call one of `calls`. Ambiguity or absence is an ANALYSIS-ERROR."""
    ci = ctx.p.find_class(class_name)
    from ..loader import mangle
    fi = ci.methods.get(mangle(name, ci.name))
    if fi is not None:
        return fi
    cands = []
    ctx_keep = ctx.keep_calls
    for f in ctx.p.nontest_functions():
        if f.is_lambda or short(f) == root or not f.name.startswith("_") or (f.name.startswith("__") and f.name.endswith("__")):
            continue
        if calls and not (_direct_call_names(f) & set(calls)):
            continue
        if reachable_only_from(ctx, f, root):
            cands.append(f)
    if len(cands) != 1:
        raise AnalysisError(f"anchor method {class_name}.{name} not found ({ci.where}); by role (private, only reached from {root}, "
                            f"calls {sorted(calls)}): {[short(c) for c in cands]}")
    ctx_keep.add(cands[0].qualname)
    return cands[0]


def option_interface(ck, rule, only_dests=None):
    """What an option accepts is not narrowed with respect to the pinned command-line interface (sa/pinned_functions.json,
    "options"): a float option stays float (an int type rejects 0.5 - the run ends in a usage error and no XMAP is written), a typed
    option keeps a type (without one the value reaches the components as a string: `"0" == 0` is False), choices are not removed.
    New options, wider types (int -> float) and added choices are fine."""
    import json
    import os
    with open(os.path.join(os.path.dirname(os.path.dirname(__file__)), "pinned_functions.json")) as f:
        pinned = json.load(f).get("options", {})
    parse, nodes = option_declarations(ck)
    n = 0
    for node in nodes:
        kw = {k.arg: k.value for k in node.keywords if k.arg}
        dest = kw["dest"].value if isinstance(kw.get("dest"), ast.Constant) else None
        if dest is None or dest not in pinned or (only_dests is not None and dest not in only_dests):
            continue
        n += 1
        was = pinned[dest]
        now_type = ast.unparse(kw["type"]) if "type" in kw else None
        w = where(parse, node)
        construct = f"Args.parse:{dest}"
        if was["type"] in ("int", "float") and now_type not in ("int", "float"):
            # a numeric type expressed through a module-level alias still counts when it resolves to int / float
            ck.violation(rule, construct + ":type", w,
                         f"option --{dest} was declared type={was['type']} and is now " + (f"type={now_type}" if now_type else "untyped") +
                         ": the value reaches the components as a string (comparisons with numbers are False, arithmetic raises)",
                         found=ast.unparse(node)[:140], required=f"type={was['type']}")
        elif was["type"] == "float" and now_type == "int":
            ck.violation(rule, construct + ":type", w,
                         f"option --{dest} accepted any number (type=float) and now only integers: a value the option help allows "
                         "(0.5) ends the run with a usage error before anything is written",
                         found=ast.unparse(node)[:140], required="type=float")
        else:
            ck.ok(rule, construct + ":type", w, f"type {now_type} (pinned: {was['type']})", "")
        if "choices" in kw:
            try:
                now_choices = ast.literal_eval(kw["choices"])
            except Exception:
                now_choices = None
            if now_choices is not None:
                if was["choices"] is None:
                    bad = was["type"] in ("int", "float") and any(isinstance(c, str) for c in now_choices)
                    if bad or was["type"] in ("int", "float"):
                        ck.violation(rule, construct + ":choices", w,
                                     f"option --{dest} accepted every {was['type']} and is now restricted to {now_choices}"
                                     + (" - given as strings, which an int-typed value never equals" if bad else ""),
                                     found=ast.unparse(kw["choices"])[:100], required="no restriction of the accepted values")
                else:
                    lost = [c for c in was["choices"] if c not in now_choices]
                    ck.judge(not lost, rule, construct + ":choices", w, "every value the option accepted is still accepted",
                             found=f"no longer accepted: {lost}" if lost else str(now_choices))
    ck.floor(f"{rule} options compared with the pinned interface", n, 1 if only_dests else 20)


def definitely_assigned(fn_node: ast.AST) -> Dict[int, set]:
    """Definite assignment over the statements of one function: for every statement, the local names that are bound on *every*
    path from the function's entry to that statement (id(stmt) -> set). A name bound only in an earlier iteration of a loop, or
    only in one arm of a conditional, is not in the set: reading it there reads whatever an earlier iteration (or nothing) left.
    Handles the statement kinds the repository uses (if / for / while / with / try / return / continue / break / raise)."""
    out: Dict[int, set] = {}

    def targets(t) -> set:
        return {n.id for n in ast.walk(t) if isinstance(n, ast.Name) and isinstance(n.ctx, ast.Store)}

    def walrus(e) -> set:
        return {n.target.id for n in ast.walk(e) if isinstance(n, ast.NamedExpr) and isinstance(n.target, ast.Name)} if e is not None else set()

    def block(stmts, cur: Optional[set]) -> Optional[set]:
        # cur is None when the point is unreachable
        for s in stmts:
            if cur is None:
                out[id(s)] = set()
                continue
            out[id(s)] = set(cur)
            if isinstance(s, (ast.Assign, ast.AnnAssign, ast.AugAssign)):
                if isinstance(s, ast.Assign):
                    for t in s.targets:
                        cur = cur | targets(t)
                elif isinstance(s, ast.AnnAssign) and s.value is not None:
                    cur = cur | targets(s.target)
                cur = cur | walrus(s.value)
            elif isinstance(s, ast.If):
                cur = cur | walrus(s.test)
                a = block(s.body, set(cur))
                b = block(s.orelse, set(cur))
                cur = b if a is None else a if b is None else (a & b)
            elif isinstance(s, (ast.For, ast.AsyncFor)):
                inner = block(s.body, cur | targets(s.target))
                after = block(s.orelse, set(cur))
                cur = after if after is not None else set(cur)
            elif isinstance(s, ast.While):
                block(s.body, cur | walrus(s.test))
                endless = isinstance(s.test, ast.Constant) and bool(s.test.value)
                cur = set(cur) | walrus(s.test)
                if s.orelse:
                    block(s.orelse, set(cur))
                if endless and not any(isinstance(x, ast.Break) for x in ast.walk(s)):
                    cur = None
            elif isinstance(s, (ast.With, ast.AsyncWith)):
                for it in s.items:
                    if it.optional_vars is not None:
                        cur = cur | targets(it.optional_vars)
                cur = block(s.body, cur)
            elif isinstance(s, ast.Try):
                a = block(s.body, set(cur))
                hs = []
                for h in s.handlers:
                    hs.append(block(h.body, set(cur) | ({h.name} if h.name else set())))
                if a is not None and s.orelse:
                    a = block(s.orelse, a)
                alive = [x for x in [a] + hs if x is not None]
                cur = set.intersection(*alive) if alive else None
                if s.finalbody:
                    f = block(s.finalbody, set(cur) if cur is not None else set())
                    cur = f if cur is not None else None
            elif isinstance(s, (ast.Return, ast.Raise, ast.Continue, ast.Break)):
                cur = None
            elif isinstance(s, (ast.FunctionDef, ast.AsyncFunctionDef, ast.ClassDef)):
                cur = cur | {s.name}
            elif isinstance(s, (ast.Import, ast.ImportFrom)):
                cur = cur | {(a.asname or a.name).split(".")[0] for a in s.names}
            elif isinstance(s, ast.Expr):
                cur = cur | walrus(s.value)
            elif isinstance(s, ast.Match):
                raise AnalysisError("definite assignment: match statement not modelled")
        return cur

    a = fn_node.args
    params = {x.arg for x in a.posonlyargs + a.args + a.kwonlyargs} | ({a.vararg.arg} if a.vararg else set()) | ({a.kwarg.arg} if a.kwarg else set())
    block(fn_node.body, params)
    return out


def stale_reads(fn: FunctionInfo, stmt_filter) -> List[Tuple[ast.stmt, str]]:
    """(statement, name) for every local name that a statement accepted by `stmt_filter` reads without it being bound on every path
    to that statement (see definitely_assigned). Names that are not locals of the function (globals, builtins) are ignored."""
    da = definitely_assigned(fn.node)
    a = fn.node.args
    locals_ = {n.id for n in ast.walk(fn.node) if isinstance(n, ast.Name) and isinstance(n.ctx, ast.Store)} | \
        {x.arg for x in a.posonlyargs + a.args + a.kwonlyargs}
    res = []
    for s in ast.walk(fn.node):
        if not isinstance(s, ast.stmt) or id(s) not in da or not stmt_filter(s):
            continue
        if isinstance(s, (ast.If, ast.While)):
            own = s.test
        elif isinstance(s, (ast.For, ast.AsyncFor)):
            own = s.iter
        elif isinstance(s, (ast.With, ast.AsyncWith)):
            own = ast.Tuple(elts=[it.context_expr for it in s.items], ctx=ast.Load())
        elif isinstance(s, (ast.Try, ast.FunctionDef, ast.AsyncFunctionDef, ast.ClassDef)):
            continue
        else:
            own = s
        comp_bound = {n.id for c in ast.walk(own) if isinstance(c, ast.comprehension) for n in ast.walk(c.target) if isinstance(n, ast.Name)} | \
            {x.arg for l in ast.walk(own) if isinstance(l, ast.Lambda) for x in l.args.args}
        for n in ast.walk(own):
            if isinstance(n, ast.Name) and isinstance(n.ctx, ast.Load) and n.id in locals_ and n.id not in da[id(s)] and n.id not in comp_bound:
                res.append((s, n.id))
    return res

"""R-GUARD helpers: sub-terms together with the conditions under which they are evaluated."""
from __future__ import annotations

from typing import Dict, Iterator, List, Optional, Set, Tuple

from .. import terms as T
from ..terms import Term


def guarded_subterms(t: Term, facts: Optional[Dict[Term, bool]] = None) -> Iterator[Tuple[Term, Dict[Term, bool]]]:
    """Yield (sub-term, facts) where facts extends the given facts with the conditions of the enclosing
    conditional expressions and short-circuit operators."""
    facts = dict(facts or {})
    yield t, facts
    tag = t[0]
    if tag == "select":
        yield from guarded_subterms(t[1], facts)
        f1 = dict(facts)
        T.add_fact(f1, t[1], True)
        yield from guarded_subterms(t[2], f1)
        f2 = dict(facts)
        T.add_fact(f2, t[1], False)
        yield from guarded_subterms(t[3], f2)
        return
    if tag in ("andthen", "orelse"):
        cur = dict(facts)
        for x in t[1]:
            yield from guarded_subterms(x, cur)
            cur = dict(cur)
            T.add_fact(cur, T.as_bool(x), tag == "andthen")
        return
    if tag == "comp":
        # generator conditions guard the element expression
        cur = dict(facts)
        for it, ifs in t[3]:
            yield from guarded_subterms(it, cur)
            for c in ifs:
                yield from guarded_subterms(c, cur)
                cur = dict(cur)
                T.add_fact(cur, c, True)
        elt = t[2]
        if t[1] == "dict":
            yield from guarded_subterms(elt[0], cur)
            yield from guarded_subterms(elt[1], cur)
        else:
            yield from guarded_subterms(elt, cur)
        return
    for ch in T.children(t):
        yield from guarded_subterms(ch, facts)


def truthy_facts(facts: Dict[Term, bool]) -> Set[Term]:
    return {t for t, v in facts.items() if v is True}


def is_groupby_group(t: Term) -> bool:
    """bound variable component 1 of an itertools.groupby iteration: ('idx', ('bv', k), 1) or a loop element of groupby."""
    if t[0] == "idx" and t[2] == ("c", 1):
        b = t[1]
        if b[0] == "bv":
            return True        # judged by the caller against the comprehension's iterable
        if b[0] == "elem" and _is_groupby(b[1]):
            return True
    return False


def _is_groupby(t: Term) -> bool:
    return t[0] == "call" and t[1] in ("itertools.groupby", "groupby")

"""In-place change of a list that is also known under another name.

    a = b                # no copy
    a += more            # or a.append / a.extend / a.sort / a.insert / a.remove / a.pop / a.clear / a.reverse / del a[..] / a[..] = ..
    ... b ...            # read afterwards: b has changed too

`+=` on a list extends it in place, so every later reader of `b` sees the extended list.  Decided syntactically inside one
function; `b` must be a list as far as the light type inference can tell (annotation, comprehension, list(...), sorted(...),
a repository function annotated to return a list), so `n = total; n += 1` on numbers is not reported.
"""
from __future__ import annotations

import ast
from typing import List, Tuple

MUTATORS = {"append", "extend", "sort", "insert", "remove", "pop", "clear", "reverse"}


def _is_listish(ctx, fn, node: ast.expr) -> bool:
    from ..types import ListOf
    t = ctx.t.type_of(fn, node)
    if isinstance(t, ListOf):
        return True
    # assigned from an obviously list-valued expression somewhere in the function
    if isinstance(node, ast.Name):
        for n in ast.walk(fn.node):
            if isinstance(n, ast.Assign) and len(n.targets) == 1 and isinstance(n.targets[0], ast.Name) and n.targets[0].id == node.id:
                v = n.value
                if isinstance(v, (ast.List, ast.ListComp)) or (isinstance(v, ast.Call) and isinstance(v.func, ast.Name)
                                                               and v.func.id in ("list", "sorted")):
                    return True
                if isinstance(v, ast.BinOp) and isinstance(v.op, ast.Add) and any(isinstance(x, (ast.List, ast.ListComp)) for x in (v.left, v.right)):
                    return True
    return False


def findings(ctx, fn) -> List[Tuple[ast.AST, str]]:
    out = []
    body_nodes = list(ast.walk(fn.node))
    aliases = [n for n in body_nodes if isinstance(n, ast.Assign) and len(n.targets) == 1 and isinstance(n.targets[0], ast.Name)
               and isinstance(n.value, ast.Name) and n.targets[0].id != n.value.id]
    for al in aliases:
        a, b = al.targets[0].id, al.value.id
        if not _is_listish(ctx, fn, al.value):
            continue
        pos = (al.lineno, al.col_offset)
        # a re-bound before it is mutated?  (keep it simple: a must be bound exactly once)
        if sum(1 for n in body_nodes if isinstance(n, ast.Name) and n.id == a and isinstance(n.ctx, ast.Store)) != 1 + sum(
                1 for n in body_nodes if isinstance(n, ast.AugAssign) and isinstance(n.target, ast.Name) and n.target.id == a):
            continue
        muts = []
        for n in body_nodes:
            p2 = (getattr(n, "lineno", 0), getattr(n, "col_offset", 0))
            if p2 <= pos:
                continue
            if isinstance(n, ast.AugAssign) and isinstance(n.target, ast.Name) and n.target.id == a and isinstance(n.op, (ast.Add, ast.Mult)):
                muts.append(n)
            elif isinstance(n, ast.Call) and isinstance(n.func, ast.Attribute) and isinstance(n.func.value, ast.Name) \
                    and n.func.value.id == a and n.func.attr in MUTATORS:
                muts.append(n)
            elif isinstance(n, ast.Subscript) and isinstance(n.value, ast.Name) and n.value.id == a and isinstance(n.ctx, (ast.Store, ast.Del)):
                muts.append(n)
        for m in muts:
            mp = (m.lineno, m.col_offset)
            later = [n for n in body_nodes if isinstance(n, ast.Name) and n.id == b and isinstance(n.ctx, ast.Load)
                     and (n.lineno, n.col_offset) > mp]
            rebound = [n for n in body_nodes if isinstance(n, ast.Name) and n.id == b and isinstance(n.ctx, ast.Store)
                       and pos < (n.lineno, n.col_offset) < mp]
            if later and not rebound:
                out.append((m, f"`{a}` is another name for the list `{b}` (line {al.lineno}: no copy); `{ast.unparse(m)[:60]}` changes "
                               f"that list in place, and `{b}` is read again at line {later[0].lineno}"))
                break
    return out

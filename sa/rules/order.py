"""Recognisers for the small vocabulary of order operators (ARGMAX, TOPK, one-per-key filter, groupby-after-sort)."""
from __future__ import annotations

from typing import List, Optional, Tuple

from .. import terms as T
from ..terms import C, V, Term


def key_path(ctx, k: Optional[Term]) -> Optional[Tuple[str, ...]]:
    """('confidence',) for  lambda r: r.confidence  /  a function reference whose body returns its parameter's
    attribute path; ('-', 'confidence') for the negated attribute; None when not recognised."""
    if k is None:
        return None
    if k[0] == "lam" and k[1] == 1:
        body = k[2]
        lvl = _lam_level(k)
        return _path_of(body, ("bv", lvl))
    if k[0] == "fn":
        fn = ctx.p.functions.get(k[1])
        if fn is not None:
            from ..norm import Normalizer
            params = fn.call_params()
            if len(params) == 1:
                n = Normalizer(ctx, fn, {params[0].name: ("bv", 0)})
                t = n._body_to_term(list(fn.body))
                if t is not None:
                    return _path_of(t, ("bv", 0))
    if k[0] == "attr" and k[1][0] == "cls":       # Class.staticSelector referenced through the class
        cls = ctx.p.classes.get(k[1][1])
        if cls is not None:
            m = ctx.p.lookup_method(cls, k[2], None)
            if m is not None:
                return key_path(ctx, ("fn", m.qualname))
    if k[0] == "attr" and k[1][0] == "v":              # self.__selector / obj.selector: a method referenced through an instance
        owners = [c for c in ctx.p.classes.values() if not c.module.is_test and k[2] in c.methods]
        if len(owners) == 1:
            return key_path(ctx, ("fn", owners[0].methods[k[2]].qualname))
    if k[0] == "call" and k[1] in ("operator.attrgetter",) and len(k[2]) == 1 and k[2][0][0] == "c":
        return tuple(str(k[2][0][1]).split("."))
    return None


def _lam_level(lam: Term) -> int:
    lv = [x[1] for x in T.subterms(lam[2]) if x[0] == "bv"]
    return min(lv) if lv else 0


def _path_of(body: Term, var: Term) -> Optional[Tuple[str, ...]]:
    neg = False
    if body[0] == "poly":
        items = T.to_poly(body)
        if len(items) == 1:
            (m, c), = items.items()
            if len(m) == 1 and c == -1:
                body = m[0]
                neg = True
    names = []
    cur = body
    while cur[0] == "attr":
        names.append(cur[2])
        cur = cur[1]
    if cur != var:
        return None
    path = tuple(reversed(names))
    return ("-",) + path if neg else path


def key_tuple(ctx, k: Optional[Term]) -> Optional[List[Tuple[str, ...]]]:
    """for  lambda r: (r.a, -r.b)  ->  [('a',), ('-','b')]"""
    if k is not None and k[0] == "lam" and k[1] == 1 and k[2][0] == "tuple":
        lvl = _lam_level(k)
        out = []
        for el in k[2][1]:
            pth = _path_of(el, ("bv", lvl))
            if pth is None:
                return None
            out.append(pth)
        return out
    return None


def sort_spec(t: Term):
    """(input, key term or None, descending: bool | None) for sorted(...) ; None otherwise"""
    if t[0] == "call" and t[1] == "sorted" and len(t[2]) >= 1:
        kw = dict(t[3])
        rev = kw.get("reverse", C(False))
        desc = True if rev == C(True) else (False if rev == C(False) else None)
        return t[2][0], kw.get("key"), desc
    return None


def strip_iter(t: Term) -> Term:
    while t[0] == "call" and t[1] in ("iter", "list", "tuple") and len(t[2]) == 1 and not t[3]:
        t = t[2][0]
    return t


def as_arg_extreme(ctx, t: Term):
    """Recognise 'the element of X that is extreme by key':
         next(iter(sorted(X, key=K, reverse=R)), d)      max(X, key=K, default=d)     min(...)
         sorted(X, key=K, reverse=R)[0] / [-1]
       -> dict(input=X, key=path, kind='max'|'min', default=Term|None)   or None"""
    default = None
    inner = None
    if t[0] == "call" and t[1] == "next" and 1 <= len(t[2]) <= 2:
        default = t[2][1] if len(t[2]) == 2 else None
        inner = (strip_iter(t[2][0]), 0)
    elif t[0] == "idx" and t[2] in (C(0), C(-1)):
        inner = (t[1], t[2][1])
    elif t[0] == "call" and t[1] in ("max", "min") and len(t[2]) == 1:
        kw = dict(t[3])
        path = key_path(ctx, kw.get("key"))
        if path is None:
            return None
        kind = t[1]
        if path and path[0] == "-":
            path = path[1:]
            kind = "min" if kind == "max" else "max"
        return {"input": t[2][0], "key": path, "kind": kind, "default": kw.get("default"), "has_default": "default" in kw}
    if inner is None:
        return None
    s, pos = inner
    spec = sort_spec(s)
    if spec is None:
        return None
    x, k, desc = spec
    path = key_path(ctx, k)
    if path is None or desc is None:
        return None
    if path and path[0] == "-":
        path = path[1:]
        desc = not desc
    first = (pos == 0)
    kind = "max" if (desc == first) else "min"
    return {"input": x, "key": path, "kind": kind, "default": default, "has_default": default is not None}


def as_topk(ctx, t: Term):
    """sorted(X, key=K, reverse=R)[:k] / [0:k]  or heapq.nlargest(k, X, key=K)
       -> dict(input, key, kind='largest'|'smallest', k)"""
    if t[0] == "slice" and t[2] == T.NONE and t[4] == T.NONE:
        spec = sort_spec(t[1])
        if spec is None:
            return None
        x, k, desc = spec
        path = key_path(ctx, k)
        if path is None or desc is None:
            return None
        if path and path[0] == "-":
            path = path[1:]
            desc = not desc
        return {"input": x, "key": path, "kind": "largest" if desc else "smallest", "k": t[3]}
    if t[0] == "call" and t[1] in ("heapq.nlargest", "heapq.nsmallest") and len(t[2]) == 2:
        path = key_path(ctx, dict(t[3]).get("key"))
        if path is None:
            return None
        return {"input": t[2][1], "key": path, "kind": "largest" if t[1].endswith("nlargest") else "smallest", "k": t[2][0]}
    return None


def groupby_sites(t: Term):
    """all (groupby term, input, key) inside t"""
    out = []
    for x in T.subterms(t):
        if x[0] == "call" and x[1] in ("itertools.groupby", "groupby") and len(x[2]) >= 1:
            k = x[2][1] if len(x[2]) > 1 else dict(x[3]).get("key")
            out.append((x, x[2][0], k))
    return out


def as_one_per_key(ctx, t: Term):
    """[next(g) for _, g in groupby(S, K)]  with S a (nested) sort.
       -> dict(group_key=path, sorts=[(path, desc), ...] outermost first, input=X, take='first'|'last'|None)"""
    if t[0] != "comp" or len(t[3]) != 1:
        return None
    it, ifs = t[3][0]
    if ifs:
        return None
    gb = it
    if not (gb[0] == "call" and gb[1] in ("itertools.groupby", "groupby") and len(gb[2]) >= 1):
        return None
    k = gb[2][1] if len(gb[2]) > 1 else dict(gb[3]).get("key")
    gpath = key_path(ctx, k)
    elt = t[2]
    lvl = None
    for x in T.subterms(elt):
        if x[0] == "bv":
            lvl = x[1]
    take = None
    group = ("idx", ("bv", lvl), C(1)) if lvl is not None else None
    if elt[0] == "call" and elt[1] == "next" and len(elt[2]) >= 1 and strip_iter(elt[2][0]) == group:
        take = "first"
    elif elt[0] == "idx" and strip_iter(elt[1]) == group and elt[2] in (C(0), C(-1)):
        take = "first" if elt[2] == C(0) else "last"
    elif elt[0] in ("call",) and elt[1] in ("max", "min") and len(elt[2]) == 1 and strip_iter(elt[2][0]) == group:
        kp = key_path(ctx, dict(elt[3]).get("key"))
        take = (elt[1], kp)
    sorts = []
    cur = gb[2][0]
    while True:
        spec = sort_spec(cur)
        if spec is None:
            break
        x, kk, desc = spec
        kt = key_tuple(ctx, kk)
        if kt is not None:
            for pth in kt:
                d = desc
                if pth and pth[0] == "-":
                    pth = pth[1:]
                    d = not desc
                sorts.append((pth, d))
        else:
            pth = key_path(ctx, kk)
            d = desc
            if pth and pth[0] == "-":
                pth = pth[1:]
                d = (not desc) if desc is not None else None
            sorts.append((pth, d))
        cur = x
    return {"group_key": gpath, "sorts": sorts, "input": cur, "take": take}

"""Mode specialisation of the multi-pass coordinator (shared by C05, C08, C01)."""
from __future__ import annotations

import ast
from dataclasses import dataclass, field
from typing import Dict, List, Optional, Tuple

from ..loader import AnalysisError, FunctionInfo
from .. import terms as T
from ..terms import C, V, Term
from .common import explore, where, short, self_attr

MODE_ATTR = self_attr("args", "outputMode")


def declared_modes(ck) -> Tuple[List[str], Optional[str], ast.AST]:
    """(choices of --outputMode, default, node) from Args.parse"""
    from .common import option_declarations
    parse, nodes = option_declarations(ck)
    for n in nodes:
        if True:
            kw = {k.arg: k.value for k in n.keywords}
            if isinstance(kw.get("dest"), ast.Constant) and kw["dest"].value == "outputMode":
                def const_of(e):
                    # a module-level NAME bound once to a literal stands for that literal
                    if isinstance(e, ast.Name) and e.id in parse.module.assigns:
                        stores = [x for x in ast.walk(parse.module.tree) if isinstance(x, ast.Name) and x.id == e.id
                                  and isinstance(x.ctx, ast.Store)]
                        if len(stores) == 1:
                            return parse.module.assigns[e.id]
                    return e
                ch = const_of(kw.get("choices"))
                if "default" in kw:
                    kw["default"] = const_of(kw["default"])
                if not isinstance(ch, (ast.List, ast.Tuple)) or not all(isinstance(e, ast.Constant) for e in ch.elts):
                    raise AnalysisError(f"{where(parse, n)}: literal choices of --outputMode not found")
                default = kw["default"].value if isinstance(kw.get("default"), ast.Constant) else None
                return [e.value for e in ch.elts], default, n
    raise AnalysisError("add_argument(dest='outputMode') not found")


@dataclass
class ModeBehaviour:
    mode: str
    returned: List[Tuple[Term, object]]               # (term, path) per return path
    saves: List[Tuple[Term, Term, object, object]]    # (rows term, file-number term, event, path)
    falls: List[object]                               # paths that fall off the end (implicit None)
    paths: int


def multipass_execute(ck) -> FunctionInfo:
    return ck.ctx.p.find_method("_MultiPassWorkflowCoordinator", "execute")


def mode_behaviour(ck, mode: str, fn: Optional[FunctionInfo] = None) -> ModeBehaviour:
    fn = fn or multipass_execute(ck)
    keep = {"saveAdditionalOutput", "getSecondPassAlignmentRows", "createAdditionalOutputFile", "execute"}
    classes = set(ck.ctx.p.mro(fn.cls)) if fn.cls is not None else set()

    def follow(callee):
        # helper methods of the coordinator that a refactoring may have extracted from execute()
        return callee.cls in classes and callee.name not in keep and not callee.is_property
    paths = explore(ck, fn, heap={MODE_ATTR: C(mode)}, unroll=(0, 1), follow=follow)
    mb = ModeBehaviour(mode, [], [], [], len(paths))
    for pa in paths:
        if pa.outcome == "return":
            mb.returned.append((pa.value, pa))
        elif pa.outcome == "fall":
            mb.falls.append(pa)
        for e in pa.events:
            if e.kind == "call" and e.term[0] == "app" and e.term[1].endswith(".saveAdditionalOutput"):
                a = dict(e.term[3])
                params = list(a)
                rows = a.get(params[0]) if params else None
                num = a.get(params[1]) if len(params) > 1 else None
                mb.saves.append((rows, num, e, pa))
    return mb


def mode_constants_compared(fn: FunctionInfo) -> List[str]:
    """string constants the function compares args.outputMode with"""
    out = []
    for n in ast.walk(fn.node):
        if isinstance(n, ast.Compare):
            sides = [n.left] + list(n.comparators)
            if any(isinstance(s, ast.Attribute) and s.attr == "outputMode" for s in sides):
                for s in sides:
                    if isinstance(s, ast.Constant) and isinstance(s.value, str) and s.value not in out:
                        out.append(s.value)
                    if isinstance(s, (ast.Tuple, ast.List, ast.Set)):
                        for el in s.elts:
                            if isinstance(el, ast.Constant) and el.value not in out:
                                out.append(el.value)
        if isinstance(n, ast.Match) and isinstance(n.subject, ast.Attribute) and n.subject.attr == "outputMode":
            for case in n.cases:
                for c in ast.walk(case.pattern):
                    if isinstance(c, ast.MatchValue) and isinstance(c.value, ast.Constant) and c.value.value not in out:
                        out.append(c.value.value)
    return out

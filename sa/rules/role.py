"""R-ROLE: argument / role agreement (the "argument selection defect" lint specialised to this repository).

An identifier is split into tokens (camelCase, snake_case, digits).  A *role family* is a pair of antonymous token
sets taken from the repository's own vocabulary.  Wherever a plain access path (optionally wrapped in int()/str()/
"{..}".format()) is bound to a parameter / attribute / column whose name carries exactly the *other* role of a family
than the access path does, that binding is a VIOLATION.  Arithmetic or mixed-role arguments are not judged.
"""
from __future__ import annotations

import ast
import re
from typing import Dict, Iterable, List, Optional, Set, Tuple

from ..loader import FunctionInfo, ClassInfo, Param
from ..callgraph import CallSite, bind_args

FAMILIES: Dict[str, Tuple[Set[str], Set[str]]] = {
    "query/reference": ({"query", "qry", "queries"}, {"reference", "ref", "references", "refs"}),
    "start/end": ({"start", "first"}, {"end", "stop", "last"}),
    "primary/secondary": ({"primary", "initial"}, {"secondary", "refined"}),
    "left/right": ({"left"}, {"right"}),
    "1/2": ({"1"}, {"2"}),
    "previous/current": ({"previous", "prev"}, {"current", "cur"}),
    "insertion/deletion": ({"insertion", "insertions"}, {"deletion", "deletions"}),
}

_TOKEN = re.compile(r"[A-Z]+(?![a-z])|[A-Z]?[a-z]+|\d+")

# (file, callee name, argument text) -> reason.  Confirmed by reading; one symbol each.
EXCEPTIONS = {
    ("sv/read_files.py", "readReferences", "open(query_file)"):
        "sv/read_files.py reads the *query* CMAP with readReferences on purpose (untrimmed coordinates are needed "
        "to measure indel gaps)",
}


def tokens(name: str) -> List[str]:
    out = []
    for part in re.split(r"[^A-Za-z0-9]+", name):
        out.extend(t.lower() for t in _TOKEN.findall(part))
    return out


def roles_of_tokens(toks: Iterable[str]) -> Dict[str, Optional[int]]:
    """family -> 0 / 1 when exactly one side of the family occurs, None when both occur (mixed)."""
    toks = set(toks)
    out: Dict[str, Optional[int]] = {}
    for fam, (a, b) in FAMILIES.items():
        ha, hb = bool(toks & a), bool(toks & b)
        if ha and hb:
            out[fam] = None
        elif ha:
            out[fam] = 0
        elif hb:
            out[fam] = 1
    return out


def access_path_tokens(e: ast.expr) -> Optional[List[str]]:
    """tokens of a plain access path (Name / Attribute chain / constant-string subscript), looking through
    int(), str(), float(), "{:..}".format(x), open(x); None when the expression is not a plain path."""
    if isinstance(e, ast.Call):
        f = e.func
        if isinstance(f, ast.Name) and f.id in ("int", "str", "float", "open", "list", "len") and len(e.args) >= 1:
            return access_path_tokens(e.args[0])
        if isinstance(f, ast.Attribute) and f.attr == "format" and isinstance(f.value, ast.Constant) and len(e.args) == 1:
            return access_path_tokens(e.args[0])
        return None
    if isinstance(e, ast.Name):
        return tokens(e.id)
    if isinstance(e, ast.Attribute):
        base = access_path_tokens(e.value)
        if base is None:
            return None
        return base + tokens(e.attr)
    if isinstance(e, ast.Subscript):
        base = access_path_tokens(e.value)
        if base is None:
            return None
        if isinstance(e.slice, ast.Constant) and isinstance(e.slice.value, str):
            return base + tokens(e.slice.value)
        return None
    if isinstance(e, ast.JoinedStr):
        vals = [v for v in e.values if isinstance(v, ast.FormattedValue)]
        if len(vals) == 1 and all(isinstance(v, ast.FormattedValue) or (isinstance(v, ast.Constant) and not v.value.strip())
                                  for v in e.values):
            return access_path_tokens(vals[0].value)
        return None
    return None


def significant_tokens(e: ast.expr) -> Optional[List[str]]:
    """For role purposes the *last* components of a path matter most: `query.positions` is a query thing,
    `self.args.queryFile.name` is a query thing.  `self` / `args` / `row` prefixes carry no role anyway."""
    return access_path_tokens(e)


def conflict(arg_tokens: List[str], target_tokens: List[str]) -> Optional[str]:
    ra = roles_of_tokens(arg_tokens)
    rt = roles_of_tokens(target_tokens)
    for fam in FAMILIES:
        if fam in ra and fam in rt and ra[fam] is not None and rt[fam] is not None and ra[fam] != rt[fam]:
            return fam
    return None


def check_call_site(ctx, site: CallSite):
    """Yield (kind, family, param/target name, arg text, node) conflicts and count bound arguments.
    Returns (n_bound, conflicts)."""
    conflicts = []
    n_bound = 0
    callees = site.repo_callees()
    if not callees:
        return 0, conflicts
    # judge against every possible callee; report only if all agree on the conflict (dynamic dispatch siblings
    # share their parameter names in this repository)
    per_callee = []
    for c in callees:
        params = c.params(ctx.p)
        if params is None:
            continue
        binding, exact = bind_args(params, site.node)
        found = []
        for pname, arg in binding.items():
            at = significant_tokens(arg)
            if at is None:
                continue
            n_bound += 1
            fam = conflict(at, tokens(pname))
            if fam:
                found.append(("param", fam, pname, ast.unparse(arg), arg))
            else:
                # callee-name form: only when the parameter itself is role-free in that family
                callee_name = c.fn.name if c.kind == "fn" else c.cls.name
                fam2 = conflict(at, tokens(callee_name))
                if fam2 and fam2 not in roles_of_tokens(tokens(pname)) and c.kind == "fn":
                    # a callee that is also handed an argument of its own role takes things of both roles (alignRefined(initial,
                    # refined, ...)): its name then says nothing about this argument
                    want = roles_of_tokens(tokens(callee_name)).get(fam2)
                    others = [significant_tokens(a2) for p2, a2 in binding.items() if p2 != pname]
                    if any(o is not None and roles_of_tokens(o).get(fam2) == want for o in others):
                        continue
                    found.append(("callee-name", fam2, callee_name, ast.unparse(arg), arg))
        # swapped-argument form: the argument is named exactly like another parameter of the callee, and that
        # parameter is bound to something that is not named like it
        last = {}
        for pname, arg in binding.items():
            ln = _last_identifier(arg)
            if ln:
                last[pname] = ln
        pnames = {p.name for p in params}
        for pname, ln in last.items():
            if ln != pname and ln in pnames and last.get(ln) is not None and last[ln] != ln and last[ln] in pnames:
                found.append(("swap", "name", pname, ast.unparse(binding[pname]), binding[pname]))
        per_callee.append(found)
    if per_callee:
        first = per_callee[0]
        for item in first:
            if all(any(x[1] == item[1] and x[3] == item[3] for x in other) for other in per_callee[1:]):
                conflicts.append(item)
    return n_bound, conflicts


def _last_identifier(e: ast.expr) -> Optional[str]:
    while isinstance(e, ast.Call) and isinstance(e.func, ast.Name) and e.func.id in ("int", "str", "float") and e.args:
        e = e.args[0]
    if isinstance(e, ast.Name):
        return e.id
    if isinstance(e, ast.Attribute):
        return e.attr
    return None


def run_role_rule(ck, rule: str, modules: Optional[Set[str]] = None, functions: Optional[Set[str]] = None) -> int:
    """Apply R-ROLE to all call sites in the given modules / functions (None = every non-test module).
    Returns number of argument bindings judged."""
    ctx = ck.ctx
    judged = 0
    for q, sites in ctx.cg.sites.items():
        fn = ctx.p.functions[q]
        if fn.module.is_test:
            continue
        if modules is not None and fn.module.name not in modules:
            if functions is None or q not in functions:
                continue
        for site in sites:
            n, conflicts = check_call_site(ctx, site)
            judged += n
            for kind, fam, target, argtext, node in conflicts:
                callee_names = {(c.fn.name if c.kind == "fn" else c.cls.name) for c in site.repo_callees()}
                exc = None
                for cn in callee_names:
                    exc = exc or EXCEPTIONS.get((fn.module.relpath, cn, argtext))
                construct = f"{q.split(':')[-1]}->{'/'.join(sorted(callee_names))}({argtext})"
                if exc:
                    ck.ok(rule, construct, site.where, "frozen exception: " + exc)
                    continue
                if kind == "swap":
                    ck.violation(rule, construct, site.where,
                                 f"argument `{argtext}` is named like another parameter of the callee but is bound to "
                                 f"`{target}` (arguments exchanged)", found=f"{argtext} -> {target}",
                                 required="each like-named argument in its own parameter")
                    continue
                ck.violation(rule, construct, site.where,
                             f"argument `{argtext}` carries the opposite {fam} role to the "
                             f"{'parameter' if kind == 'param' else 'callee'} `{target}` it is bound to",
                             found=f"{argtext} -> {target}", required=f"an argument of the same {fam} role")
    # constructor attribute wiring: self.<attr> = <param>
    for ci in ctx.p.classes.values():
        if ci.module.is_test or (modules is not None and ci.module.name not in modules):
            continue
        for m in ci.methods.values():
            if m.name != "__init__" or not m.self_name:
                continue
            pnames = {p.name for p in m.params}
            for n in ast.walk(m.node):
                if isinstance(n, ast.Assign) and len(n.targets) == 1 and isinstance(n.targets[0], ast.Attribute) \
                        and isinstance(n.targets[0].value, ast.Name) and n.targets[0].value.id == m.self_name \
                        and isinstance(n.value, ast.Name) and n.value.id in pnames:
                    judged += 1
                    fam = conflict(tokens(n.value.id), tokens(n.targets[0].attr))
                    if fam:
                        ck.violation(rule, f"{ci.name}.__init__:self.{n.targets[0].attr}",
                                     f"{ci.module.relpath}:{n.lineno}",
                                     f"constructor stores parameter `{n.value.id}` in attribute `{n.targets[0].attr}` of the "
                                     f"opposite {fam} role", found=ast.unparse(n))
    return judged

"""R-EFFECT helpers: worker-persistent state, field taint, nondeterministic APIs, in-place mutation."""
from __future__ import annotations

import ast
from typing import Dict, Iterable, List, Optional, Set, Tuple

from ..loader import AnalysisError, FunctionInfo, ClassInfo, mangle
from ..types import Inst, ClsT, ModT, ListOf, Ext, FuncT, UNKNOWN
from ..callgraph import bind_args
from .common import run_reach, parallel_map_site, short, where

UNORDERED_MAPS = {"p_umap", "p_uimap", "imap_unordered", "as_completed", "t_imap_unordered", "uimap"}
ORDERED_MAPS = {"p_map", "p_imap", "t_map", "t_imap", "map", "imap"}

NONDET_PREFIXES = ("random.", "numpy.random.", "secrets.", "uuid.", "time.time", "time.perf_counter", "time.monotonic",
                   "time.process_time", "time.clock", "datetime.datetime.now", "datetime.datetime.today",
                   "datetime.datetime.utcnow", "datetime.date.today", "os.getpid", "os.getppid", "os.urandom", "os.listdir",
                   "os.scandir", "os.walk", "glob.glob", "glob.iglob", "threading.get_ident", "os.times", "tempfile.",
                   "socket.gethostname", "platform.node", "getpass.getuser", "os.getlogin", "os.environ")
NONDET_BUILTINS = {"id"}
MUTATORS = {"append", "extend", "pop", "insert", "remove", "sort", "reverse", "clear", "update", "add", "discard",
            "popitem", "setdefault", "__setitem__", "__delitem__"}


def dotted_call_name(ctx, fn: FunctionInfo, call: ast.Call) -> Optional[str]:
    """fully qualified name of an external callee (through the module's imports), or None"""
    for c in ctx.cg.resolve_call(fn, call):
        if c.kind == "ext":
            n = c.name
            return n[len("builtins."):] if n.startswith("builtins.") else n
    return None


def iter_calls(fn: FunctionInfo):
    if fn.is_lambda:
        nodes = ast.walk(fn.node.body)
    else:
        from ..types import _iter_own_nodes
        nodes = _iter_own_nodes(fn.node)
    for n in nodes:
        if isinstance(n, ast.Call):
            yield n


def unordered_map_calls_in_tree(tree: ast.AST) -> List[Tuple[str, int]]:
    """syntactic detector (used for the positive fixture): calls whose callee name is an unordered map"""
    out = []
    for n in ast.walk(tree):
        if isinstance(n, ast.Call):
            f = n.func
            name = f.id if isinstance(f, ast.Name) else (f.attr if isinstance(f, ast.Attribute) else None)
            if name in UNORDERED_MAPS:
                out.append((name, n.lineno))
    return out


def long_lived_classes(ctx, coordinator: ClassInfo) -> List[ClassInfo]:
    """type closure of the attributes of the coordinator (objects that outlive one worker call)"""
    seen: List[ClassInfo] = []
    work = [coordinator] + [c for c in ctx.p.all_subclasses(coordinator) if not c.module.is_test]
    while work:
        c = work.pop()
        if c in seen:
            continue
        seen.append(c)
        for base in ctx.p.mro(c)[1:]:
            work.append(base)
        for k in ctx.p.mro(c):
            for m in k.methods.values():
                sn = m.self_name
                if not sn:
                    continue
                for n in ast.walk(m.node):
                    if isinstance(n, ast.Assign):
                        for tg in n.targets:
                            if isinstance(tg, ast.Attribute) and isinstance(tg.value, ast.Name) and tg.value.id == sn:
                                t = ctx.t.type_of(m, n.value)
                                for cls in _classes_of(t):
                                    if not cls.module.is_test:
                                        work.append(cls)
    return seen


def _classes_of(t) -> List[ClassInfo]:
    if isinstance(t, Inst):
        return [t.cls]
    if isinstance(t, ListOf):
        return _classes_of(t.elem)
    return []


def attribute_stores(fn: FunctionInfo):
    """(attr node, statement) for every store self.<attr> / obj.<attr> in fn (own statements only)"""
    from ..types import _iter_own_nodes
    if fn.is_lambda:
        return
    for n in _iter_own_nodes(fn.node):
        targets = []
        if isinstance(n, ast.Assign):
            targets = n.targets
        elif isinstance(n, (ast.AugAssign, ast.AnnAssign)):
            targets = [n.target]
        for tg in targets:
            for t in ast.walk(tg):
                if isinstance(t, ast.Attribute) and isinstance(t.ctx, ast.Store):
                    yield t, n


def persistent_state(ctx, worker_reach: Set[str], long_lived: List[ClassInfo]) -> List[Tuple[ClassInfo, str, FunctionInfo, ast.AST]]:
    """attributes of long-lived classes written outside __init__ in worker-reachable methods"""
    out = []
    for cls in long_lived:
        for m in cls.methods.values():
            if m.qualname not in worker_reach or m.name == "__init__" or not m.self_name:
                continue
            for attr, stmt in attribute_stores(m):
                if isinstance(attr.value, ast.Name) and attr.value.id == m.self_name:
                    out.append((cls, mangle(attr.attr, cls.name), m, stmt))
    return out


def init_param_to_attr(ctx, cls: ClassInfo) -> Dict[str, str]:
    """constructor parameter -> attribute it is stored in (self.x = param), following super().__init__ one level"""
    out: Dict[str, str] = {}
    init = ctx.p.lookup_method(cls, "__init__", None)
    if init is None or not init.self_name:
        return out
    pnames = {p.name for p in init.params}
    for n in ast.walk(init.node):
        if isinstance(n, ast.Assign) and len(n.targets) == 1 and isinstance(n.targets[0], ast.Attribute) \
                and isinstance(n.targets[0].value, ast.Name) and n.targets[0].value.id == init.self_name \
                and isinstance(n.value, ast.Name) and n.value.id in pnames:
            out[n.value.id] = n.targets[0].attr
    return out


def self_state_writes(p, fn, include_init: bool = False):
    """[(function, node, kind)] for every write to an attribute / container of `self` (kind 'state-write') and every use of
    id() (kind 'identity') in `fn` and in the methods of its class that it calls through self (transitively)"""
    out = []
    todo, seen = [fn], set()
    while todo:
        f = todo.pop()
        if f.qualname in seen:
            continue
        seen.add(f.qualname)
        me = f.self_name
        if me is None:
            continue
        for node in ast.walk(f.node):
            hit = None
            if isinstance(node, (ast.Assign, ast.AugAssign, ast.AnnAssign)):
                targets = node.targets if isinstance(node, ast.Assign) else [node.target]
                for t in targets:
                    base = t
                    while isinstance(base, (ast.Subscript, ast.Attribute)):
                        if isinstance(base, ast.Attribute) and isinstance(base.value, ast.Name) and base.value.id == me:
                            hit = node
                            break
                        base = base.value
            if isinstance(node, ast.Call) and isinstance(node.func, ast.Attribute) and node.func.attr in (
                    "append", "extend", "insert", "update", "setdefault", "add", "pop", "clear", "remove", "__setitem__"):
                base = node.func.value
                while isinstance(base, (ast.Subscript, ast.Attribute)):
                    if isinstance(base, ast.Attribute) and isinstance(base.value, ast.Name) and base.value.id == me:
                        hit = node
                        break
                    base = base.value
            if hit is not None:
                out.append((f, node, "state-write"))
            if isinstance(node, ast.Call) and isinstance(node.func, ast.Name) and node.func.id == "id":
                out.append((f, node, "identity"))
            if isinstance(node, ast.Call) and isinstance(node.func, ast.Attribute) and isinstance(node.func.value, ast.Name) \
                    and node.func.value.id == me and f.cls is not None:
                callee = p.lookup_method(f.cls, node.func.attr, None)
                if callee is not None and (include_init or callee.name != "__init__"):
                    todo.append(callee)
    return out, len(seen)


def mutated_mutable_defaults(fn: FunctionInfo):
    """(parameter name, default node, mutating node) for every parameter whose default is a mutable display / constructor call and
    which the body changes in place (append/extend/..., `+=`, an element store) or hands back: the one default object is shared by
    every call that omits the argument - state that survives from call to call inside a process."""
    if fn.is_lambda:
        return
    from ..types import _iter_own_nodes
    for prm in fn.params:
        d = prm.default
        if d is None:
            continue
        mutable = isinstance(d, (ast.List, ast.Dict, ast.Set, ast.ListComp, ast.DictComp, ast.SetComp)) or (
            isinstance(d, ast.Call) and isinstance(d.func, ast.Name) and d.func.id in ("list", "dict", "set", "defaultdict", "deque",
                                                                                    "OrderedDict", "Counter", "bytearray"))
        if not mutable:
            continue
        rebound = any(isinstance(n, ast.Name) and n.id == prm.name and isinstance(n.ctx, ast.Store) for n in _iter_own_nodes(fn.node))
        if rebound:
            continue                 # `x = x or []` style: judged elsewhere if at all
        for n in _iter_own_nodes(fn.node):
            if isinstance(n, ast.Call) and isinstance(n.func, ast.Attribute) and n.func.attr in MUTATORS and \
                    isinstance(n.func.value, ast.Name) and n.func.value.id == prm.name:
                yield prm.name, d, n
                break
            if isinstance(n, ast.AugAssign) and isinstance(n.target, ast.Name) and n.target.id == prm.name:
                yield prm.name, d, n
                break
            if isinstance(n, (ast.Assign, ast.AugAssign, ast.Delete)):
                tg = n.targets if isinstance(n, (ast.Assign, ast.Delete)) else [n.target]
                if any(isinstance(t, ast.Subscript) and isinstance(t.value, ast.Name) and t.value.id == prm.name for t in tg):
                    yield prm.name, d, n
                    break


def default_is_used(ctx, fn: FunctionInfo, pname: str) -> bool:
    """some call site of `fn` leaves parameter `pname` to its default (or the call sites cannot all be seen)"""
    sites = [s0 for s0 in ctx.cg.sites_calling(fn) if not s0.caller.module.is_test]
    if not sites or not fn.name.startswith("_"):
        return True                   # public or never called in the repository: the default is part of the interface
    for s0 in sites:
        for c in s0.repo_callees():
            if c.kind == "fn" and c.fn is fn:
                params = c.params(ctx.p)
                b, exact = bind_args(params, s0.node) if params is not None else ({}, False)
                if not exact or pname not in b:
                    return True
    return False


_MEMO = ("lru_cache", "functools.lru_cache", "cache", "functools.cache")


def memoised_with_incomplete_key(p, fn: FunctionInfo):
    """`fn` is memoised (functools.lru_cache / cache) as a method, and its body reads an attribute of `self` that does not take part
    in the equality / hash of its class - so two objects that differ only in that attribute are one cache key and the second is
    answered with the first one's result. Returns (decorator text, sorted attribute names, reason) or None.
    Decided from the class alone: a dataclass compares its fields except those declared field(compare=False); a class with its own
    __eq__ compares what that method mentions; a class with neither compares by identity (no collision)."""
    deco = next((d for d in fn.decorators if d.split("(")[0] in _MEMO), None)
    if deco is None or not fn.binds_self or fn.is_classmethod:
        return None
    cls = fn.cls
    if cls is None or not fn.self_name:
        return None
    methods = {name: m for k in reversed(p.mro(cls)) for name, m in k.methods.items()}
    inst_attrs = {f.name for k in p.mro(cls) for f in k.fields}
    for k in p.mro(cls):
        for m in k.methods.values():
            if m.self_name:
                inst_attrs |= {n.attr for n in ast.walk(m.node) if isinstance(n, ast.Attribute) and isinstance(n.ctx, ast.Store)
                               and isinstance(n.value, ast.Name) and n.value.id == m.self_name}

    def reads_of(f, depth=0):
        """attributes of self that f's result may depend on: read directly, through properties / methods of the class, or all of
        them when self itself is handed on (stored in the result, passed to a constructor)"""
        out = set()
        if not f.self_name:
            return out
        attr_bases = {id(n.value) for n in ast.walk(f.node) if isinstance(n, ast.Attribute)}
        for n in ast.walk(f.node):
            if isinstance(n, ast.Attribute) and isinstance(n.ctx, ast.Load) and isinstance(n.value, ast.Name) and n.value.id == f.self_name:
                a = mangle(n.attr, cls.name)
                if a in methods and depth < 3 and methods[a] is not f:
                    out |= reads_of(methods[a], depth + 1)
                else:
                    out.add(a)
            elif isinstance(n, ast.Name) and n.id == f.self_name and isinstance(n.ctx, ast.Load) and id(n) not in attr_bases:
                out |= inst_attrs
        return out
    reads = reads_of(fn)
    field_names = inst_attrs
    eq = next((k.methods["__eq__"] for k in p.mro(cls) if "__eq__" in k.methods), None)
    if eq is not None:
        compared = {n.attr for n in ast.walk(eq.node) if isinstance(n, ast.Attribute)}
        missing = sorted(a for a in reads & field_names if a not in compared) if field_names else \
            sorted(a for a in reads if a not in compared and a not in {m for k in p.mro(cls) for m in k.methods})
        return (deco, missing, "not compared by the class's __eq__") if missing else None
    if cls.is_dataclass:
        if any("eq=False" in d.replace(" ", "") for d in cls.decorators):
            return None                      # identity
        excluded = set()
        for k in p.mro(cls):
            for f in k.fields:
                d = f.default
                if isinstance(d, ast.Call) and ast.unparse(d.func).split(".")[-1] == "field" and any(
                        kw.arg == "compare" and isinstance(kw.value, ast.Constant) and kw.value.value is False for kw in d.keywords):
                    excluded.add(f.name)
        missing = sorted(reads & excluded)
        return (deco, missing, "declared field(compare=False): left out of the generated __eq__ and __hash__") if missing else None
    return None


def _access_paths(fn: FunctionInfo, expr: ast.AST, _seen=None) -> Set[str]:
    """the access paths (names, dotted attribute chains) an expression reads; a local name bound exactly once in `fn` stands for
    the paths of what it was bound to; callee names, classes and modules are not inputs"""
    seen = _seen if _seen is not None else set()
    out: Set[str] = set()
    params = {pp.name for pp in fn.params}
    callee_ids = {id(n.func) for n in ast.walk(expr) if isinstance(n, ast.Call)}

    def chain(n):
        parts = []
        while isinstance(n, ast.Attribute):
            parts.append(n.attr)
            n = n.value
        if isinstance(n, ast.Name):
            return n.id, list(reversed(parts))
        return None, None

    def visit(n):
        if isinstance(n, ast.Attribute):
            root, parts = chain(n)
            if root is not None:
                if id(n) in callee_ids:
                    # a method call x.a.m(...): the receiver path is read
                    if parts[:-1] or root:
                        add(root, parts[:-1])
                else:
                    add(root, parts)
                return
        if isinstance(n, ast.Name):
            if id(n) not in callee_ids and isinstance(n.ctx, ast.Load):
                add(n.id, [])
            return
        for c in ast.iter_child_nodes(n):
            visit(c)

    def add(root, parts):
        if root in params or root == fn.self_name:
            out.add(".".join([root] + parts))
            return
        binds = [x for x in ast.walk(fn.node) if isinstance(x, ast.Assign) and len(x.targets) == 1
                 and isinstance(x.targets[0], ast.Name) and x.targets[0].id == root]
        stores = [x for x in ast.walk(fn.node) if isinstance(x, ast.Name) and x.id == root and isinstance(x.ctx, ast.Store)]
        if len(binds) == 1 and len(stores) == 1 and root not in seen:
            seen.add(root)
            inner = _access_paths(fn, binds[0].value, seen)
            out.update(inner if not parts else {q + "." + ".".join(parts) for q in inner})
        elif stores:
            out.add(".".join([root] + parts))          # a local we cannot see through: an input of its own
        # otherwise: a global / builtin / imported name - not an input
    visit(expr)
    return out


def memo_idiom(p, fn: FunctionInfo, container_text: str):
    """`container[K] = E` with reads `container[K]` / `K in container` / `container.get(K)` of the same key expression, all inside
    `fn`. Returns (missing inputs sorted, key text, value text) when the cached value depends on something the key does not cover,
    ([], key, value) when the key covers every input (a pure memo: what it returns does not depend on what was asked before), or
    None when the container is not used that way in `fn`."""
    stores = []
    for n in ast.walk(fn.node):
        if isinstance(n, ast.Assign) and len(n.targets) == 1 and isinstance(n.targets[0], ast.Subscript) \
                and ast.unparse(n.targets[0].value) == container_text:
            stores.append((n.targets[0].slice, n.value, n))
        if isinstance(n, ast.Call) and isinstance(n.func, ast.Attribute) and n.func.attr == "setdefault" \
                and ast.unparse(n.func.value) == container_text and len(n.args) == 2:
            stores.append((n.args[0], n.args[1], n))
    if len(stores) != 1:
        return None
    key, value, store_node = stores[0]
    ktext = ast.unparse(key)
    # every other use of the container in fn asks with the same key
    for n in ast.walk(fn.node):
        if isinstance(n, (ast.Name, ast.Attribute)) and ast.unparse(n) == container_text and isinstance(getattr(n, "ctx", None), ast.Load):
            pass
    uses_ok = True
    parent = {}
    for n in ast.walk(fn.node):
        for c in ast.iter_child_nodes(n):
            parent[id(c)] = n
    for n in ast.walk(fn.node):
        if not (isinstance(n, (ast.Name, ast.Attribute)) and ast.unparse(n) == container_text):
            continue
        up = parent.get(id(n))
        if isinstance(up, ast.Subscript) and up.value is n:
            uses_ok = uses_ok and ast.unparse(up.slice) == ktext
        elif isinstance(up, ast.Compare) and n in up.comparators and all(isinstance(o, (ast.In, ast.NotIn)) for o in up.ops):
            uses_ok = uses_ok and ast.unparse(up.left) == ktext
        elif isinstance(up, ast.Attribute) and up.attr in ("get", "setdefault"):
            call = parent.get(id(up))
            uses_ok = uses_ok and isinstance(call, ast.Call) and call.args and ast.unparse(call.args[0]) == ktext
        elif isinstance(up, ast.Attribute) and up.value is n:
            uses_ok = False          # .clear(), .pop(), iteration helpers ...: not the plain idiom
        elif isinstance(up, ast.Attribute):
            continue                 # n is the inner part of a longer chain that was compared as a whole
        else:
            uses_ok = False
    if not uses_ok:
        return None
    deps = _access_paths(fn, value)
    # what the key identifies: its components that are plain access paths (len(x), id(x), str(x) ... identify less than x)
    key_expr = key
    if isinstance(key_expr, ast.Name):
        binds = [x for x in ast.walk(fn.node) if isinstance(x, ast.Assign) and len(x.targets) == 1
                 and isinstance(x.targets[0], ast.Name) and x.targets[0].id == key_expr.id]
        if len(binds) == 1:
            key_expr = binds[0].value
    comps = list(key_expr.elts) if isinstance(key_expr, ast.Tuple) else [key_expr]
    covered: Set[str] = set()
    for c0 in comps:
        if isinstance(c0, (ast.Name, ast.Attribute)):
            covered |= _access_paths(fn, c0)
    cls = fn.cls
    config = set()
    if cls is not None and fn.self_name:
        written_elsewhere = set()
        for k in p.mro(cls):
            for m in k.methods.values():
                if m.name in ("__init__", "__post_init__") or not m.self_name:
                    continue
                written_elsewhere |= {x.attr for x in ast.walk(m.node) if isinstance(x, ast.Attribute) and isinstance(x.ctx, ast.Store)
                                      and isinstance(x.value, ast.Name) and x.value.id == m.self_name}
        config = {a for a in {d.split(".")[1] for d in deps if d.startswith(fn.self_name + ".") and d.count(".") >= 1}
                  if a not in written_elsewhere}
    missing = []
    for d in sorted(deps):
        if d == fn.self_name or d == container_text:
            continue
        if fn.self_name and d.startswith(fn.self_name + ".") and d.split(".")[1] in config and d != container_text:
            continue                 # configuration of the object: the same for every call
        if any(d == k or d.startswith(k + ".") for k in covered):
            continue
        missing.append(d)
    return missing, ktext, ast.unparse(value)[:120]

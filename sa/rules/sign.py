"""R-SIGN: abstract interpretation of a term over the sign domain {neg, zero, pos, nonneg, nonpos, top}."""
from __future__ import annotations

from typing import Dict, Optional

from .. import terms as T
from ..terms import Term

NEG, ZERO, POS, NONNEG, NONPOS, TOP = "neg", "zero", "pos", "nonneg", "nonpos", "top"


def _neg(s):
    return {NEG: POS, POS: NEG, NONNEG: NONPOS, NONPOS: NONNEG, ZERO: ZERO, TOP: TOP}[s]


def _mul(a, b):
    if a == ZERO or b == ZERO:
        return ZERO
    if a == TOP or b == TOP:
        return TOP
    sa = 1 if a in (POS, NONNEG) else -1
    sb = 1 if b in (POS, NONNEG) else -1
    strict = a in (POS, NEG) and b in (POS, NEG)
    if sa * sb > 0:
        return POS if strict else NONNEG
    return NEG if strict else NONPOS


def _add(a, b):
    if a == ZERO:
        return b
    if b == ZERO:
        return a
    if a == TOP or b == TOP:
        return TOP
    up_a, up_b = a in (POS, NONNEG), b in (POS, NONNEG)
    if up_a and up_b:
        return POS if POS in (a, b) else NONNEG
    if not up_a and not up_b:
        return NEG if NEG in (a, b) else NONPOS
    return TOP


def join(a, b):
    if a == b:
        return a
    s = {a, b}
    if s <= {POS, NONNEG, ZERO}:
        return NONNEG
    if s <= {NEG, NONPOS, ZERO}:
        return NONPOS
    return TOP


def sign(t: Term, env: Optional[Dict[Term, str]] = None) -> str:
    env = env or {}
    if t in env:
        return env[t]
    tag = t[0]
    if tag == "c":
        v = t[1]
        if isinstance(v, bool) or not isinstance(v, (int, float)):
            return TOP
        return ZERO if v == 0 else (POS if v > 0 else NEG)
    if tag == "poly":
        total = ZERO
        for mono, coeff in t[1]:
            s = POS if coeff > 0 else (NEG if coeff < 0 else ZERO)
            factors = list(mono)
            # even powers are non-negative whatever the sign of the base
            while factors:
                f = factors.pop(0)
                if f in factors:
                    factors.remove(f)
                    fs = sign(f, env)
                    sq = ZERO if fs == ZERO else (POS if fs in (POS, NEG) else NONNEG)
                    s = _mul(s, sq)
                else:
                    s = _mul(s, sign(f, env))
            total = _add(total, s)
        return total
    if tag == "call":
        name, args = t[1], t[2]
        if name == "abs" and len(args) == 1:
            s = sign(args[0], env)
            return ZERO if s == ZERO else (POS if s in (POS, NEG) else NONNEG)
        if name == "max" and len(args) >= 2 and not t[3]:
            ss = [sign(a, env) for a in args]
            if POS in ss:
                return POS
            if any(s in (NONNEG, ZERO) for s in ss):
                return NONNEG
            if all(s in (NEG,) for s in ss):
                return NEG
            if all(s in (NEG, NONPOS) for s in ss):
                return NONPOS
            return TOP
        if name == "min" and len(args) >= 2 and not t[3]:
            ss = [sign(a, env) for a in args]
            if NEG in ss:
                return NEG
            if any(s in (NONPOS, ZERO) for s in ss):
                return NONPOS
            if all(s == POS for s in ss):
                return POS
            if all(s in (POS, NONNEG) for s in ss):
                return NONNEG
            return TOP
        if name == "len":
            return NONNEG
        if name in ("float", "int") and len(args) == 1:
            return sign(args[0], env)
        return TOP
    if tag == "div":
        a, b = sign(t[1], env), sign(t[2], env)
        if b not in (POS, NEG):
            return TOP
        return _mul(a, b)
    if tag == "select":
        return join(sign(t[2], env), sign(t[3], env))
    if t in (("ext", "math.inf"), ("ext", "numpy.inf")):
        return POS
    if tag == "pow" and t[2][0] == "c" and isinstance(t[2][1], int) and t[2][1] % 2 == 0:
        return NONNEG
    return TOP


# ---------------------------------------------------------------------------------------------------------------------
# Sign evaluation on the un-normalised syntax (polynomial expansion destroys sums of squares)
import ast


class SignEval:
    """Abstract evaluation of the expressions *returned* by a function over the sign domain.  Locals are looked up
    through their (single) assignment in the function; calls to repository functions are evaluated through the
    callee's returned expressions (depth-limited)."""

    def __init__(self, ctx, fn, assumptions=None, depth=3):
        self.ctx = ctx
        self.fn = fn
        self.assumptions = dict(assumptions or {})   # ast.unparse(expr) -> sign
        self.depth = depth
        self.trace = []

    def _assignments(self, name):
        out = []
        for n in ast.walk(self.fn.node):
            if isinstance(n, ast.Assign) and any(isinstance(t, ast.Name) and t.id == name for t in n.targets):
                if self.ctx.p.enclosing_function(self.fn.module, n) is self.fn:
                    out.append(n.value)
        return out

    def ev(self, e) -> str:
        key = ast.unparse(e)
        if key in self.assumptions:
            return self.assumptions[key]
        if isinstance(e, ast.Constant):
            v = e.value
            if isinstance(v, bool) or not isinstance(v, (int, float)):
                return TOP
            return ZERO if v == 0 else (POS if v > 0 else NEG)
        if isinstance(e, ast.UnaryOp):
            if isinstance(e.op, ast.USub):
                return _neg(self.ev(e.operand))
            if isinstance(e.op, ast.UAdd):
                return self.ev(e.operand)
            return TOP
        if isinstance(e, ast.BinOp):
            a, b = self.ev(e.left), self.ev(e.right)
            if isinstance(e.op, ast.Add):
                return _add(a, b)
            if isinstance(e.op, ast.Sub):
                return _add(a, _neg(b))
            if isinstance(e.op, ast.Mult):
                if ast.unparse(e.left) == ast.unparse(e.right):
                    return ZERO if a == ZERO else (POS if a in (POS, NEG) else NONNEG)
                return _mul(a, b)
            if isinstance(e.op, ast.Div):
                if b not in (POS, NEG):
                    return TOP
                return _mul(a, b)
            if isinstance(e.op, ast.Pow):
                if isinstance(e.right, ast.Constant) and isinstance(e.right.value, int) and e.right.value >= 0:
                    if e.right.value % 2 == 0:
                        return ZERO if a == ZERO else (POS if a in (POS, NEG) else NONNEG)
                    return a
                return TOP
            return TOP
        if isinstance(e, ast.IfExp):
            return join(self.ev(e.body), self.ev(e.orelse))
        if isinstance(e, ast.Name):
            vals = self._assignments(e.id)
            if len(vals) == 1:
                return self.ev(vals[0])
            if len(vals) > 1:
                s = self.ev(vals[0])
                for v in vals[1:]:
                    s = join(s, self.ev(v))
                return s
            mod = self.fn.module
            imp = mod.imports.get(e.id)
            if imp and imp[0] != "module" and (imp[1], imp[2]) in (("math", "inf"), ("numpy", "inf")):
                return POS                                   # from math import inf [as x]
            if e.id in mod.assigns and not any(p.name == e.id for p in self.fn.params):
                stores = [n for n in ast.walk(mod.tree) if isinstance(n, ast.Name) and n.id == e.id and isinstance(n.ctx, ast.Store)]
                if len(stores) == 1:
                    return self.ev(mod.assigns[e.id])        # a module-level constant bound once
            return TOP
        if isinstance(e, ast.Attribute):
            txt = ast.unparse(e)
            if isinstance(e.value, ast.Name):
                imp = self.fn.module.imports.get(e.value.id)
                if imp and imp[0] == "module":
                    txt = imp[1] + "." + e.attr              # import math as m; m.inf
            if txt in ("math.inf", "np.inf", "numpy.inf"):
                return POS
            return TOP
        if isinstance(e, ast.Call):
            f = e.func
            name = f.id if isinstance(f, ast.Name) else None
            if name == "abs" and len(e.args) == 1:
                s = self.ev(e.args[0])
                return ZERO if s == ZERO else (POS if s in (POS, NEG) else NONNEG)
            if name in ("max", "min") and len(e.args) >= 2 and not e.keywords:
                ss = [self.ev(a) for a in e.args]
                if name == "max":
                    if POS in ss:
                        return POS
                    if any(s in (NONNEG, ZERO) for s in ss):
                        return NONNEG
                    if all(s == NEG for s in ss):
                        return NEG
                    return NONPOS if all(s in (NEG, NONPOS) for s in ss) else TOP
                if NEG in ss:
                    return NEG
                if any(s in (NONPOS, ZERO) for s in ss):
                    return NONPOS
                if all(s == POS for s in ss):
                    return POS
                return NONNEG if all(s in (POS, NONNEG) for s in ss) else TOP
            if name == "float" and len(e.args) == 1 and isinstance(e.args[0], ast.Constant) and isinstance(e.args[0].value, str):
                txt = e.args[0].value.strip().lower()
                if txt in ("inf", "+inf", "infinity", "+infinity"):
                    return POS
                if txt in ("-inf", "-infinity"):
                    return NEG
            if name == "len":
                return NONNEG
            if self.depth > 0:
                callees = [c for c in self.ctx.cg.resolve_call(self.fn, e) if c.kind == "fn"]
                if len(callees) == 1:
                    callee = callees[0].fn
                    sub = SignEval(self.ctx, callee, self.assumptions, self.depth - 1)
                    return sub.returns()
            return TOP
        return TOP

    def returns(self) -> str:
        """join of the signs of every returned expression of the function"""
        out = None
        if self.fn.is_lambda:
            return self.ev(self.fn.node.body)
        for n in ast.walk(self.fn.node):
            if isinstance(n, ast.Return) and n.value is not None and self.ctx.p.enclosing_function(self.fn.module, n) is self.fn:
                s = self.ev(n.value)
                self.trace.append((n.lineno, ast.unparse(n.value)[:120], s))
                out = s if out is None else join(out, s)
        return out if out is not None else TOP

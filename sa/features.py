"""Language features the normaliser / path explorer does not model faithfully.

A VIOLATION is only as good as the model of the code it was derived from.  When the function a deviation is reported in (or a
helper introduced after the pinned tree that it calls) uses one of the constructs below - and did not use it on the pinned
tree - the deviation is not trusted: the run ends as ANALYSIS-ERROR (exit 2, "cannot decide"), never as VIOLATION.

  try            try/except: the handler is explored as an alternative path without the condition under which it is taken
  match          a match statement the desugaring did not turn into if/elif (sequence / mapping / capture patterns)
  comp-walrus    an assignment expression inside a comprehension (the binding is visible to later clauses)
  reduce         functools.reduce / operator.iconcat folds
  dict-dispatch  subscript of a dict display (or of a class-level / module-level dict) by a non-constant key
  next-sentinel  a loop driven by next(it, sentinel)
  while-true     while True with breaks
"""
from __future__ import annotations

import ast
from typing import Set


def features_of(node: ast.AST) -> Set[str]:
    out: Set[str] = set()
    for n in ast.walk(node):
        if isinstance(n, ast.Try) and n.handlers:
            out.add("try")
        elif isinstance(n, ast.Match):
            out.add("match")
        elif isinstance(n, (ast.ListComp, ast.SetComp, ast.DictComp, ast.GeneratorExp)):
            if any(isinstance(x, ast.NamedExpr) for x in ast.walk(n)):
                out.add("comp-walrus")
        elif isinstance(n, ast.Call):
            f = n.func
            name = f.id if isinstance(f, ast.Name) else f.attr if isinstance(f, ast.Attribute) else None
            flatten = name == "reduce" and len(n.args) == 3 and isinstance(n.args[2], ast.List) and not n.args[2].elts and \
                (ast.unparse(n.args[0]).split(".")[-1] in ("iconcat", "concat", "add"))
            if name == "reduce" and not flatten:
                out.add("reduce")
        elif isinstance(n, ast.Subscript) and isinstance(n.value, ast.Dict) and not isinstance(n.slice, ast.Constant):
            out.add("dict-dispatch")
        elif isinstance(n, ast.Subscript) and (isinstance(n.slice, (ast.Compare, ast.BoolOp)) or (
                isinstance(n.slice, ast.Call) and isinstance(n.slice.func, ast.Name) and n.slice.func.id == "bool")
                or (isinstance(n.slice, ast.UnaryOp) and isinstance(n.slice.op, ast.Not))):
            out.add("dict-dispatch")          # table[bool(condition)]: a branch spelled as a lookup
        elif isinstance(n, ast.While):
            if isinstance(n.test, ast.Constant) and n.test.value is True:
                out.add("while-true")
            if any(isinstance(x, ast.Call) and isinstance(x.func, ast.Name) and x.func.id == "next" and len(x.args) == 2
                   for x in ast.walk(n.test)):
                out.add("next-sentinel")
    return out

"""Source-level canonicalisation applied to every parsed module before anything is indexed.

The only rewrite: an accumulator loop is read as the comprehension it spells out.

    xs = []                                xs = [E for t in it if c]
    for t in it:               ==>
        if c:
            xs.append(E)

Conditions: the `for` statement follows the `xs = []` / `xs = list()` / `xs = set()` assignment directly in the same block;
the loop nest consists of `for` (no else, simple or tuple targets) and `if` (no else) statements with exactly one statement
each, ending in `xs.append(E)` / `xs.add(E)`; `xs` is not mentioned anywhere else in the loop.  Anything else is left as it is.
Several such loops in a row that fill the same list become `xs = [..] + [..]`.
Line numbers of the comprehension are those of the loop, so reports still point at the construct.
"""
from __future__ import annotations

import ast
from typing import List, Optional


def _empty_acc(stmt: ast.stmt) -> Optional[tuple]:
    if isinstance(stmt, ast.Assign) and len(stmt.targets) == 1 and isinstance(stmt.targets[0], ast.Name):
        v = stmt.value
        if isinstance(v, ast.List) and not v.elts:
            return stmt.targets[0].id, "list"
        if isinstance(v, ast.Call) and isinstance(v.func, ast.Name) and not v.args and not v.keywords:
            if v.func.id == "list":
                return stmt.targets[0].id, "list"
            if v.func.id == "set":
                return stmt.targets[0].id, "set"
    if isinstance(stmt, ast.AnnAssign) and isinstance(stmt.target, ast.Name) and stmt.value is not None:
        v = stmt.value
        if isinstance(v, ast.List) and not v.elts:
            return stmt.target.id, "list"
    return None


def _mentions(node: ast.AST, name: str) -> int:
    return sum(1 for n in ast.walk(node) if isinstance(n, ast.Name) and n.id == name)


def _as_comprehension(loop: ast.For, acc: str, kind: str) -> Optional[ast.expr]:
    gens: List[ast.comprehension] = []
    node: ast.stmt = loop
    while True:
        if isinstance(node, ast.For):
            if node.orelse or len(node.body) != 1:
                return None
            gens.append(ast.comprehension(target=node.target, iter=node.iter, ifs=[], is_async=0))
            node = node.body[0]
        elif isinstance(node, ast.If):
            if node.orelse or len(node.body) != 1 or not gens:
                return None
            gens[-1].ifs.append(node.test)
            node = node.body[0]
        else:
            break
    if not (isinstance(node, ast.Expr) and isinstance(node.value, ast.Call) and isinstance(node.value.func, ast.Attribute)
            and isinstance(node.value.func.value, ast.Name) and node.value.func.value.id == acc
            and node.value.func.attr == ("append" if kind == "list" else "add")
            and len(node.value.args) == 1 and not node.value.keywords and not isinstance(node.value.args[0], ast.Starred)):
        return None
    if _mentions(loop, acc) != 1:
        return None
    elt = node.value.args[0]
    comp = ast.ListComp(elt=elt, generators=gens) if kind == "list" else ast.SetComp(elt=elt, generators=gens)
    return ast.copy_location(comp, loop)


class _Desugar(ast.NodeTransformer):
    def _block(self, stmts: List[ast.stmt]) -> List[ast.stmt]:
        out: List[ast.stmt] = []
        i = 0
        while i < len(stmts):
            s = stmts[i]
            acc = _empty_acc(s)
            if acc is not None and i + 1 < len(stmts) and isinstance(stmts[i + 1], ast.For):
                comp = _as_comprehension(stmts[i + 1], acc[0], acc[1])
                if comp is not None:
                    value = comp
                    j = i + 2
                    # further loops filling the same list: xs = [..first..] + [..second..]
                    while acc[1] == "list" and j < len(stmts) and isinstance(stmts[j], ast.For):
                        more = _as_comprehension(stmts[j], acc[0], acc[1])
                        if more is None:
                            break
                        value = ast.BinOp(left=value, op=ast.Add(), right=more)
                        ast.copy_location(value, stmts[j])
                        j += 1
                    new = ast.Assign(targets=[ast.Name(id=acc[0], ctx=ast.Store())], value=value)
                    ast.copy_location(new, stmts[i + 1])
                    ast.fix_missing_locations(new)
                    out.append(new)
                    i = j
                    continue
            out.append(s)
            i += 1
        return out

    def generic_visit(self, node):
        super().generic_visit(node)
        for fieldname in ("body", "orelse", "finalbody"):
            blk = getattr(node, fieldname, None)
            if isinstance(blk, list) and blk and isinstance(blk[0], ast.stmt):
                setattr(node, fieldname, self._block(blk))
        return node


def desugar(tree: ast.Module) -> ast.Module:
    return _Desugar().visit(tree)

"""Source-level canonicalisation applied to every parsed module before anything is indexed.

The only rewrite: an accumulator loop is read as the comprehension it spells out.

    xs = []                                xs = [E for t in it if c]
    for t in it:               ==>
        if c:
            xs.append(E)

Conditions: the `for` statement follows the `xs = []` / `xs = list()` / `xs = set()` assignment directly in the same block;
the loop nest consists of `for` (no else, simple or tuple targets) and `if` (no else) statements with exactly one statement
each, ending in `xs.append(E)` / `xs.add(E)`; `xs` is not mentioned anywhere else in the loop.  Anything else is left as it is.
A second rewrite reads the hand-written window loop

    flag = True                                    yield from takewhile(lambda x: not B, dropwhile(lambda x: P, xs))
    for x in xs:                          ==>      (or  acc = list(...)  for the append form)
        if flag:
            if P: continue
            flag = False
        if B: break
        yield x            # or acc.append(x)

as the itertools expression it re-implements (the flag may also start False and be tested with `not`).
A third one reads the hand-written grouping of adjacent equal keys

    G = []
    for x in XS:
        if G and K(G[0]) != K(x):                ==>     yield from (E(G) for _, G in groupby(XS, K))
            yield E(G); G = []
        G.append(x)
    if G: yield E(G)

as `itertools.groupby`.
Several such loops in a row that fill the same list become `xs = [..] + [..]`.
Line numbers of the comprehension are those of the loop, so reports still point at the construct.
"""
from __future__ import annotations

import ast
import copy
from typing import List, Optional


def _empty_acc(stmt: ast.stmt) -> Optional[tuple]:
    if isinstance(stmt, ast.Assign) and len(stmt.targets) == 1 and isinstance(stmt.targets[0], ast.Name):
        v = stmt.value
        if isinstance(v, ast.List) and not v.elts:
            return stmt.targets[0].id, "list"
        if isinstance(v, ast.Call) and isinstance(v.func, ast.Name) and not v.args and not v.keywords:
            if v.func.id == "list":
                return stmt.targets[0].id, "list"
            if v.func.id == "set":
                return stmt.targets[0].id, "set"
    if isinstance(stmt, ast.AnnAssign) and isinstance(stmt.target, ast.Name) and stmt.value is not None:
        v = stmt.value
        if isinstance(v, ast.List) and not v.elts:
            return stmt.target.id, "list"
    return None


def _mentions(node: ast.AST, name: str) -> int:
    return sum(1 for n in ast.walk(node) if isinstance(n, ast.Name) and n.id == name)


def _as_comprehension(loop: ast.For, acc: str, kind: str) -> Optional[ast.expr]:
    gens: List[ast.comprehension] = []
    node: ast.stmt = loop
    while True:
        if isinstance(node, ast.For):
            if node.orelse or len(node.body) != 1:
                return None
            if isinstance(node.iter, (ast.Tuple, ast.List)):
                return None          # a loop over a display is unrolled exactly by the path explorer: keep its paths
            gens.append(ast.comprehension(target=node.target, iter=node.iter, ifs=[], is_async=0))
            node = node.body[0]
        elif isinstance(node, ast.If):
            if node.orelse or len(node.body) != 1 or not gens:
                return None
            gens[-1].ifs.append(node.test)
            node = node.body[0]
        else:
            break
    # acc += E  /  acc.extend(E)  inside the loop nest: one more generator over E
    if kind == "list" and gens and _mentions(loop, acc) == 1:
        more = None
        if isinstance(node, ast.AugAssign) and isinstance(node.op, ast.Add) and isinstance(node.target, ast.Name) and node.target.id == acc:
            more = node.value
        elif isinstance(node, ast.Expr) and isinstance(node.value, ast.Call) and isinstance(node.value.func, ast.Attribute) \
                and isinstance(node.value.func.value, ast.Name) and node.value.func.value.id == acc \
                and node.value.func.attr == "extend" and len(node.value.args) == 1 and not node.value.keywords:
            more = node.value.args[0]
        if more is not None and not isinstance(more, ast.Starred):
            var = "__sa_item__"
            gens.append(ast.comprehension(target=ast.Name(id=var, ctx=ast.Store()), iter=more, ifs=[], is_async=0))
            comp = ast.ListComp(elt=ast.Name(id=var, ctx=ast.Load()), generators=gens)
            return ast.copy_location(comp, loop)
    if not (isinstance(node, ast.Expr) and isinstance(node.value, ast.Call) and isinstance(node.value.func, ast.Attribute)
            and isinstance(node.value.func.value, ast.Name) and node.value.func.value.id == acc
            and node.value.func.attr == ("append" if kind == "list" else "add")
            and len(node.value.args) == 1 and not node.value.keywords and not isinstance(node.value.args[0], ast.Starred)):
        return None
    if _mentions(loop, acc) != 1:
        return None
    elt = node.value.args[0]
    comp = ast.ListComp(elt=elt, generators=gens) if kind == "list" else ast.SetComp(elt=elt, generators=gens)
    return ast.copy_location(comp, loop)


def _bool_const(e) -> Optional[bool]:
    return e.value if isinstance(e, ast.Constant) and isinstance(e.value, bool) else None


def _window_loop(flag_stmt: ast.stmt, loop: ast.stmt, acc: Optional[str]):
    """flag = <bool>; for x in xs: [if <still skipping>: [if P: continue]; flag = <flipped>]; [if B: break]; <emit x>
       ->  (xs expression, P or None, B or None, loop variable, kind 'yield'|'append')   - or None"""
    if not (isinstance(flag_stmt, ast.Assign) and len(flag_stmt.targets) == 1 and isinstance(flag_stmt.targets[0], ast.Name)
            and _bool_const(flag_stmt.value) is not None):
        return None
    flag, init = flag_stmt.targets[0].id, _bool_const(flag_stmt.value)
    if not (isinstance(loop, ast.For) and not loop.orelse and isinstance(loop.target, ast.Name) and 2 <= len(loop.body) <= 3):
        return None
    x = loop.target.id
    body = list(loop.body)
    first = body[0]
    # still-skipping test: `flag` when it starts True, `not flag` when it starts False
    if not isinstance(first, ast.If) or first.orelse:
        return None
    t = first.test
    skipping = (isinstance(t, ast.Name) and t.id == flag and init is True) or \
        (isinstance(t, ast.UnaryOp) and isinstance(t.op, ast.Not) and isinstance(t.operand, ast.Name) and t.operand.id == flag
         and init is False)
    if not skipping or len(first.body) != 2:
        return None
    inner, flip = first.body
    if not (isinstance(inner, ast.If) and not inner.orelse and len(inner.body) == 1 and isinstance(inner.body[0], ast.Continue)):
        return None
    if not (isinstance(flip, ast.Assign) and len(flip.targets) == 1 and isinstance(flip.targets[0], ast.Name)
            and flip.targets[0].id == flag and _bool_const(flip.value) is (not init)):
        return None
    P = inner.test
    rest = body[1:]
    B = None
    if len(rest) == 2:
        brk = rest[0]
        if not (isinstance(brk, ast.If) and not brk.orelse and len(brk.body) == 1 and isinstance(brk.body[0], ast.Break)):
            return None
        B = brk.test
        rest = rest[1:]
    emit = rest[0]
    kind = None
    if isinstance(emit, ast.Expr) and isinstance(emit.value, ast.Yield) and isinstance(emit.value.value, ast.Name) \
            and emit.value.value.id == x and acc is None:
        kind = "yield"
    elif acc is not None and isinstance(emit, ast.Expr) and isinstance(emit.value, ast.Call) \
            and isinstance(emit.value.func, ast.Attribute) and isinstance(emit.value.func.value, ast.Name) \
            and emit.value.func.value.id == acc and emit.value.func.attr == "append" and len(emit.value.args) == 1 \
            and isinstance(emit.value.args[0], ast.Name) and emit.value.args[0].id == x:
        kind = "append"
    if kind is None:
        return None
    # the flag (and the accumulator) must not be used anywhere else in the loop
    if _mentions(loop, flag) != 2 or (acc is not None and _mentions(loop, acc) != 1):
        return None
    return loop.iter, P, B, x, kind


def _window_expr(xs, P, B, x):
    """takewhile(lambda x: not B, dropwhile(lambda x: P, xs)) spelled with analysis-internal names (no import needed)"""
    def lam(body):
        return ast.Lambda(args=ast.arguments(posonlyargs=[], args=[ast.arg(arg=x)], kwonlyargs=[], kw_defaults=[], defaults=[]),
                          body=body)
    e = ast.Call(func=ast.Name(id="__sa_dropwhile__", ctx=ast.Load()), args=[lam(P), xs], keywords=[])
    if B is not None:
        e = ast.Call(func=ast.Name(id="__sa_takewhile__", ctx=ast.Load()),
                     args=[lam(ast.UnaryOp(op=ast.Not(), operand=B)), e], keywords=[])
    return e


def _manual_groupby(init: ast.stmt, loop: ast.stmt, tail: ast.stmt):
    """G = []; for x in XS: (if G and K(G[0]) != K(x): yield E(G); G = []); G.append(x)   followed by   if G: yield E(G)
       ->  (XS, K, E, G)  - or None"""
    acc = _empty_acc(init)
    if acc is None or acc[1] != "list":
        return None
    G = acc[0]
    if not (isinstance(loop, ast.For) and not loop.orelse and isinstance(loop.target, ast.Name) and len(loop.body) == 2):
        return None
    x = loop.target.id
    flush, app = loop.body
    if not (isinstance(app, ast.Expr) and isinstance(app.value, ast.Call) and isinstance(app.value.func, ast.Attribute)
            and isinstance(app.value.func.value, ast.Name) and app.value.func.value.id == G and app.value.func.attr == "append"
            and len(app.value.args) == 1 and isinstance(app.value.args[0], ast.Name) and app.value.args[0].id == x):
        return None
    if not (isinstance(flush, ast.If) and not flush.orelse and len(flush.body) == 2 and isinstance(flush.test, ast.BoolOp)
            and isinstance(flush.test.op, ast.And) and len(flush.test.values) == 2):
        return None
    nonempty, differs = flush.test.values
    if not (isinstance(nonempty, ast.Name) and nonempty.id == G):
        return None
    cmp = differs
    negate = False
    if isinstance(cmp, ast.UnaryOp) and isinstance(cmp.op, ast.Not):
        cmp, negate = cmp.operand, True
    if not (isinstance(cmp, ast.Compare) and len(cmp.ops) == 1 and len(cmp.comparators) == 1):
        return None
    is_ne = isinstance(cmp.ops[0], ast.NotEq) and not negate or isinstance(cmp.ops[0], ast.Eq) and negate
    if not is_ne:
        return None
    a, b = cmp.left, cmp.comparators[0]

    def key_of(call, arg_pred):
        if isinstance(call, ast.Call) and len(call.args) == 1 and not call.keywords and arg_pred(call.args[0]):
            return call.func
        return None

    def is_member(e):      # G[0] / G[-1]
        return isinstance(e, ast.Subscript) and isinstance(e.value, ast.Name) and e.value.id == G

    def is_x(e):
        return isinstance(e, ast.Name) and e.id == x
    K = None
    for p, q in ((a, b), (b, a)):
        k1, k2 = key_of(p, is_member), key_of(q, is_x)
        if k1 is not None and k2 is not None and ast.dump(k1) == ast.dump(k2):
            K = k1
    if K is None:
        return None
    y, reset = flush.body
    if not (isinstance(y, ast.Expr) and isinstance(y.value, ast.Yield) and y.value.value is not None):
        return None
    if _empty_acc(reset) is None or _empty_acc(reset)[0] != G:
        return None
    E = y.value.value
    if not (isinstance(tail, ast.If) and not tail.orelse and len(tail.body) == 1 and isinstance(tail.test, ast.Name)
            and tail.test.id == G and isinstance(tail.body[0], ast.Expr) and isinstance(tail.body[0].value, ast.Yield)
            and tail.body[0].value.value is not None and ast.dump(tail.body[0].value.value) == ast.dump(E)):
        return None
    return loop.iter, K, E, G


def _break_loop(loop: ast.stmt, acc: str):
    """for x in XS: if B: break; acc.append(x)     ->  (XS, B, x)   - or None"""
    if not (isinstance(loop, ast.For) and not loop.orelse and isinstance(loop.target, ast.Name) and len(loop.body) == 2):
        return None
    x = loop.target.id
    brk, emit = loop.body
    if not (isinstance(brk, ast.If) and not brk.orelse and len(brk.body) == 1 and isinstance(brk.body[0], ast.Break)):
        return None
    if not (isinstance(emit, ast.Expr) and isinstance(emit.value, ast.Call) and isinstance(emit.value.func, ast.Attribute)
            and isinstance(emit.value.func.value, ast.Name) and emit.value.func.value.id == acc
            and emit.value.func.attr == "append" and len(emit.value.args) == 1 and not emit.value.keywords
            and isinstance(emit.value.args[0], ast.Name) and emit.value.args[0].id == x):
        return None
    if _mentions(loop, acc) != 1:
        return None
    return loop.iter, brk.test, x


def _index_scan(init: ast.stmt, loop: ast.stmt):
    """i = 0; while i < len(XS) and P(XS[i]): i += 1     ->  (i, XS, P with XS[i] replaced by the lambda parameter)  - or None
    (afterwards i is the length of the longest prefix of XS whose elements all satisfy P)"""
    if not (isinstance(init, ast.Assign) and len(init.targets) == 1 and isinstance(init.targets[0], ast.Name)
            and isinstance(init.value, ast.Constant) and init.value.value == 0 and type(init.value.value) is int):
        return None
    i = init.targets[0].id
    if not (isinstance(loop, ast.While) and not loop.orelse and len(loop.body) == 1):
        return None
    step = loop.body[0]
    if not (isinstance(step, ast.AugAssign) and isinstance(step.op, ast.Add) and isinstance(step.target, ast.Name)
            and step.target.id == i and isinstance(step.value, ast.Constant) and step.value.value == 1):
        return None
    t = loop.test
    if not (isinstance(t, ast.BoolOp) and isinstance(t.op, ast.And) and len(t.values) >= 2):
        return None
    bound = t.values[0]
    if not (isinstance(bound, ast.Compare) and len(bound.ops) == 1 and isinstance(bound.ops[0], ast.Lt)
            and isinstance(bound.left, ast.Name) and bound.left.id == i
            and isinstance(bound.comparators[0], ast.Call) and isinstance(bound.comparators[0].func, ast.Name)
            and bound.comparators[0].func.id == "len" and len(bound.comparators[0].args) == 1):
        return None
    xs = bound.comparators[0].args[0]
    xs_dump = ast.dump(xs)
    param = "__sa_p__"

    class Repl(ast.NodeTransformer):
        ok = True

        def visit_Subscript(self, n):
            if ast.dump(n.value) == xs_dump and isinstance(n.slice, ast.Name) and n.slice.id == i and isinstance(n.ctx, ast.Load):
                return ast.copy_location(ast.Name(id=param, ctx=ast.Load()), n)
            return self.generic_visit(n)

        def visit_Name(self, n):
            if n.id == i:
                self.ok = False
            return n
    import copy
    rest = [copy.deepcopy(v) for v in t.values[1:]]
    r = Repl()
    rest = [r.visit(v) for v in rest]
    if not r.ok:
        return None
    P = rest[0] if len(rest) == 1 else ast.BoolOp(op=ast.And(), values=rest)
    return i, xs, P, param


def _names_stored(nodes) -> set:
    out = set()
    for b in nodes:
        for n in ast.walk(b):
            if isinstance(n, ast.Name) and isinstance(n.ctx, (ast.Store, ast.Del)):
                out.add(n.id)
            elif isinstance(n, (ast.FunctionDef, ast.ClassDef)):
                out.add(n.name)
    return out

def _names_loaded(node) -> set:
    return {n.id for n in ast.walk(node) if isinstance(n, ast.Name)}

def _has_own_continue(body) -> bool:
    """a `continue` that belongs to this loop (not to a nested one)"""
    def rec(stmts):
        for s in stmts:
            if isinstance(s, ast.Continue):
                return True
            if isinstance(s, (ast.For, ast.While, ast.AsyncFor, ast.FunctionDef, ast.ClassDef, ast.AsyncFunctionDef)):
                if isinstance(s, (ast.For, ast.While)) and rec(s.orelse):
                    return True
                continue
            for f in ("body", "orelse", "finalbody", "handlers"):
                sub = getattr(s, f, None)
                if isinstance(sub, list):
                    items = []
                    for x in sub:
                        items.extend(x.body if isinstance(x, ast.ExceptHandler) else [x])
                    if rec([x for x in items if isinstance(x, ast.stmt)]):
                        return True
            if isinstance(s, ast.Match):
                for c in s.cases:
                    if rec(c.body):
                        return True
        return False
    return rec(body)

def _plus(e, k):
    if isinstance(e, ast.Constant) and isinstance(e.value, int) and not isinstance(e.value, bool):
        v = e.value + k
        return ast.Constant(value=v) if v >= 0 else ast.UnaryOp(op=ast.USub(), operand=ast.Constant(value=-v))
    if isinstance(e, ast.BinOp) and isinstance(e.op, ast.Sub) and isinstance(e.right, ast.Constant) and e.right.value == k:
        return e.left                      # (n - 1) + 1
    return ast.BinOp(left=e, op=ast.Add() if k > 0 else ast.Sub(), right=ast.Constant(value=abs(k)))


def while_index_to_for(init: ast.stmt, loop: ast.stmt, later: List[ast.stmt]) -> Optional[ast.For]:
    """i = A; while i < B: BODY; i += 1      ->  for i in range(A, B): BODY
       i = A; while i >= B: BODY; i -= 1     ->  for i in range(A, B - 1, -1): BODY          (also `> B`, `<= B`)
    when i is written nowhere else in the loop, B's variables are not written in it, the step is the last statement, no
    `continue` of this loop skips it, there is no else clause, and i is not read after the loop (a for loop leaves the last
    index in i, the while loop the first one that failed the test)."""
    if not (isinstance(init, ast.Assign) and len(init.targets) == 1 and isinstance(init.targets[0], ast.Name)):
        return None
    i = init.targets[0].id
    if not (isinstance(loop, ast.While) and not loop.orelse and len(loop.body) >= 2):
        return None
    t = loop.test
    if not (isinstance(t, ast.Compare) and len(t.ops) == 1 and isinstance(t.left, ast.Name) and t.left.id == i):
        return None
    def is_step(x):
        return isinstance(x, ast.AugAssign) and isinstance(x.target, ast.Name) and x.target.id == i \
            and isinstance(x.value, ast.Constant) and x.value.value == 1 and isinstance(x.op, (ast.Add, ast.Sub))
    steps = [k for k, x in enumerate(loop.body) if is_step(x)]
    if len(steps) != 1:
        return None
    step = loop.body[steps[0]]
    # the step may stand anywhere at the top of the body as long as nothing after it looks at the index
    after = loop.body[steps[0] + 1:]
    if any(isinstance(n, ast.Name) and n.id == i for b in after for n in ast.walk(b)):
        return None
    body = loop.body[:steps[0]] + after
    if not body:
        return None
    up = isinstance(step.op, ast.Add)
    op, bound = t.ops[0], t.comparators[0]
    if up and isinstance(op, ast.Lt):
        stop = bound
    elif up and isinstance(op, ast.LtE):
        stop = _plus(bound, 1)
    elif not up and isinstance(op, ast.GtE):
        stop = _plus(bound, -1)
    elif not up and isinstance(op, ast.Gt):
        stop = bound
    else:
        return None
    if i in _names_stored(body) or (_names_loaded(bound) & (_names_stored(body) | {i})) or _has_own_continue(body):
        return None
    # calls in the bound that could observe the body's effects (len(xs) while the body appends to xs): the bound must be
    # re-evaluated each time round a while loop but only once by range() - refuse when the body mutates a name the bound reads
    mutated = set()
    for b in body:
        for n in ast.walk(b):
            if isinstance(n, ast.Call) and isinstance(n.func, ast.Attribute) and isinstance(n.func.value, ast.Name) \
                    and n.func.attr in ("append", "extend", "pop", "remove", "insert", "clear", "sort", "reverse", "add", "discard", "update"):
                mutated.add(n.func.value.id)
            if isinstance(n, (ast.Subscript, ast.Attribute)) and isinstance(n.ctx, (ast.Store, ast.Del)):
                if isinstance(n, ast.Subscript) and isinstance(n.ctx, ast.Store) and not isinstance(n.slice, ast.Slice):
                    continue              # xs[i] = v replaces an element: the length the bound reads stays what it was
                root = n
                while isinstance(root, (ast.Subscript, ast.Attribute)):
                    root = root.value
                if isinstance(root, ast.Name):
                    mutated.add(root.id)
    if _names_loaded(bound) & mutated:
        return None
    for s in later:
        if i in _names_loaded(s):
            # read after the loop: only fine if it is assigned first - keep it simple and refuse
            return None
    args = [init.value, stop] if up else [init.value, stop, ast.UnaryOp(op=ast.USub(), operand=ast.Constant(value=1))]
    if up and isinstance(init.value, ast.Constant) and init.value.value == 0:
        args = [stop]
    new = ast.For(target=ast.Name(id=i, ctx=ast.Store()), iter=ast.Call(func=ast.Name(id="range", ctx=ast.Load()), args=args, keywords=[]),
                  body=body, orelse=[], type_comment=None)
    ast.copy_location(new, loop)
    ast.fix_missing_locations(new)
    return new

def _is_len_of(e, dump):
    return isinstance(e, ast.Call) and isinstance(e.func, ast.Name) and e.func.id == "len" and len(e.args) == 1 and not e.keywords \
        and ast.dump(e.args[0]) == dump

def range_index_to_elements(loop: ast.stmt, env_lens=None) -> Optional[ast.For]:
    """for i in range(len(xs)): ... xs[i] ...        ->  for i, x in enumerate(xs): ... x ...     (for x in xs when i is not used otherwise)
       for i in range(a, len(xs)): ... xs[i] ...     ->  for i, x in enumerate(xs[a:], a)         (for x in xs[a:] ...)
       for i in range(len(xs) - 1, -1, -1): ... xs[i] ...  ->  for x in xs[::-1]                  (only when i is not used otherwise)
    when xs is a name or attribute chain that the body does not write or mutate."""
    if not (isinstance(loop, ast.For) and not loop.orelse and isinstance(loop.target, ast.Name) and isinstance(loop.iter, ast.Call)
            and isinstance(loop.iter.func, ast.Name) and loop.iter.func.id == "range" and not loop.iter.keywords):
        return None
    i = loop.target.id
    a = loop.iter.args
    # which sequence? the one subscripted by i in the body
    subs = [n for b in loop.body for n in ast.walk(b) if isinstance(n, ast.Subscript) and isinstance(n.slice, ast.Name) and n.slice.id == i
            and isinstance(n.ctx, ast.Load)]
    if not subs:
        return None
    dumps = {ast.dump(n.value) for n in subs}
    if len(dumps) != 1:
        # several sequences are indexed by i: the one whose length bounds the loop is the one iterated, the others keep their [i]
        bound = a[0] if len(a) == 1 else a[1] if len(a) == 2 else None
        want = None
        if isinstance(bound, ast.Call) and isinstance(bound.func, ast.Name) and bound.func.id == "len" and len(bound.args) == 1:
            want = ast.dump(bound.args[0])
        elif isinstance(bound, ast.Name) and env_lens and bound.id in env_lens:
            want = env_lens[bound.id]
        subs = [n for n in subs if ast.dump(n.value) == want]
        if want is None or not subs:
            return None
    xs = subs[0].value
    d = ast.dump(xs)
    if env_lens:
        # `n = len(xs)` in front of the loop: range(n) is range(len(xs))
        a = [ast.Call(func=ast.Name(id="len", ctx=ast.Load()), args=[copy.deepcopy(xs)], keywords=[])
             if isinstance(x, ast.Name) and env_lens.get(x.id) == d else x for x in a]
    root = xs
    while isinstance(root, ast.Attribute):
        root = root.value
    if not isinstance(root, ast.Name):
        return None
    # not written / mutated in the body
    for b in loop.body:
        for n in ast.walk(b):
            if isinstance(n, (ast.Subscript, ast.Attribute)) and isinstance(n.ctx, (ast.Store, ast.Del)) and ast.dump(n.value) == d:
                return None
            if isinstance(n, ast.Call) and isinstance(n.func, ast.Attribute) and ast.dump(n.func.value) == d and \
                    n.func.attr in ("append", "extend", "pop", "remove", "insert", "clear", "sort", "reverse"):
                return None
            if isinstance(n, ast.Name) and isinstance(n.ctx, ast.Store) and n.id == root.id:
                return None
    kind = None
    start = None
    if len(a) == 1 and _is_len_of(a[0], d):
        kind, start = "up", None
    elif len(a) == 2 and _is_len_of(a[1], d):
        kind, start = "up", a[0]
    elif len(a) == 3 and isinstance(a[0], ast.BinOp) and isinstance(a[0].op, ast.Sub) and _is_len_of(a[0].left, d) \
            and isinstance(a[0].right, ast.Constant) and a[0].right.value == 1 \
            and ast.dump(a[1]) == ast.dump(ast.UnaryOp(op=ast.USub(), operand=ast.Constant(value=1))) \
            and ast.dump(a[2]) == ast.dump(ast.UnaryOp(op=ast.USub(), operand=ast.Constant(value=1))):
        kind = "down"
    else:
        return None
    elem = "__sa_elem_" + i
    class Repl(ast.NodeTransformer):
        def visit_Subscript(self, n):
            if isinstance(n.slice, ast.Name) and n.slice.id == i and isinstance(n.ctx, ast.Load) and ast.dump(n.value) == d:
                return ast.copy_location(ast.Name(id=elem, ctx=ast.Load()), n)
            return self.generic_visit(n)
    body = [Repl().visit(copy.deepcopy(b)) for b in loop.body]
    # `x = xs[i]` as a statement of the body has become `x = <element>`: fine. An inner loop over the elements in front of i,
    # `for j in range(i): ... xs[j] ...`, is the loop over enumerate(xs[:i])
    class Inner(ast.NodeTransformer):
        def visit_For(self, n):
            self.generic_visit(n)
            if not (not n.orelse and isinstance(n.target, ast.Name) and isinstance(n.iter, ast.Call) and isinstance(n.iter.func, ast.Name)
                    and n.iter.func.id == "range" and not n.iter.keywords):
                return n
            ra = n.iter.args
            upper = ra[0] if len(ra) == 1 else ra[1] if len(ra) == 2 and isinstance(ra[0], ast.Constant) and ra[0].value == 0 else None
            if not (isinstance(upper, ast.Name) and upper.id == i):
                return n
            j = n.target.id
            if any(isinstance(y, ast.Name) and y.id == j and isinstance(y.ctx, ast.Store) for b0 in n.body for y in ast.walk(b0)):
                return n
            ej = "__sa_elem_" + j
            hit = [False]

            class R2(ast.NodeTransformer):
                def visit_Subscript(self, m):
                    if isinstance(m.slice, ast.Name) and m.slice.id == j and isinstance(m.ctx, ast.Load) and ast.dump(m.value) == d:
                        hit[0] = True
                        return ast.copy_location(ast.Name(id=ej, ctx=ast.Load()), m)
                    return self.generic_visit(m)
            nb = [R2().visit(b0) for b0 in n.body]
            if not hit[0]:
                return n
            seq = ast.Subscript(value=copy.deepcopy(xs), slice=ast.Slice(lower=None, upper=ast.Name(id=i, ctx=ast.Load()), step=None), ctx=ast.Load())
            new_in = ast.For(target=ast.Tuple(elts=[ast.Name(id=j, ctx=ast.Store()), ast.Name(id=ej, ctx=ast.Store())], ctx=ast.Store()),
                             iter=ast.Call(func=ast.Name(id="enumerate", ctx=ast.Load()), args=[seq], keywords=[]), body=nb, orelse=[],
                             type_comment=None)
            ast.copy_location(new_in, n)
            ast.fix_missing_locations(new_in)
            return new_in
    body = [Inner().visit(b) for b in body]
    uses_i = any(isinstance(n, ast.Name) and n.id == i for b in body for n in ast.walk(b))
    if kind == "down":
        if uses_i:
            return None
        it = ast.Subscript(value=xs, slice=ast.Slice(lower=None, upper=None, step=ast.UnaryOp(op=ast.USub(), operand=ast.Constant(value=1))), ctx=ast.Load())
        target = ast.Name(id=elem, ctx=ast.Store())
    else:
        seq = xs if start is None else ast.Subscript(value=xs, slice=ast.Slice(lower=start, upper=None, step=None), ctx=ast.Load())
        if uses_i:
            it = ast.Call(func=ast.Name(id="enumerate", ctx=ast.Load()), args=[seq] + ([start] if start is not None else []), keywords=[])
            target = ast.Tuple(elts=[ast.Name(id=i, ctx=ast.Store()), ast.Name(id=elem, ctx=ast.Store())], ctx=ast.Store())
        else:
            it = seq
            target = ast.Name(id=elem, ctx=ast.Store())
    new = ast.For(target=target, iter=it, body=body, orelse=[], type_comment=None)
    ast.copy_location(new, loop)
    ast.fix_missing_locations(new)
    return new



def inplace_map(loop: ast.stmt, params: set) -> Optional[ast.Assign]:
    """for i in range(len(xs)): xs[i] = E(xs[i])      ->      xs = [E(x) for x in xs]
    for a local list xs (a plain name that is not a parameter of the function: nobody else holds the list whose slots are
    overwritten) when the body is that one assignment and E looks at xs only through xs[i]"""
    if not (isinstance(loop, ast.For) and not loop.orelse and isinstance(loop.target, ast.Name) and len(loop.body) == 1
            and isinstance(loop.iter, ast.Call) and isinstance(loop.iter.func, ast.Name) and loop.iter.func.id == "range"
            and len(loop.iter.args) == 1 and not loop.iter.keywords):
        return None
    i = loop.target.id
    st = loop.body[0]
    if not (isinstance(st, ast.Assign) and len(st.targets) == 1 and isinstance(st.targets[0], ast.Subscript)
            and isinstance(st.targets[0].value, ast.Name) and isinstance(st.targets[0].slice, ast.Name) and st.targets[0].slice.id == i):
        return None
    xs = st.targets[0].value.id
    if xs in params or not _is_len_of(loop.iter.args[0], ast.dump(ast.Name(id=xs, ctx=ast.Load()))):
        return None
    elem = "__sa_elem_" + i
    ok = [True]

    class Repl(ast.NodeTransformer):
        def visit_Subscript(self, n):
            if isinstance(n.value, ast.Name) and n.value.id == xs and isinstance(n.slice, ast.Name) and n.slice.id == i \
                    and isinstance(n.ctx, ast.Load):
                return ast.copy_location(ast.Name(id=elem, ctx=ast.Load()), n)
            return self.generic_visit(n)

        def visit_Name(self, n):
            if n.id in (xs, i):
                ok[0] = False
            return n
    value = Repl().visit(copy.deepcopy(st.value))
    if not ok[0]:
        return None
    comp = ast.ListComp(elt=value, generators=[ast.comprehension(target=ast.Name(id=elem, ctx=ast.Store()),
                                                                 iter=ast.Name(id=xs, ctx=ast.Load()), ifs=[], is_async=0)])
    new = ast.Assign(targets=[ast.Name(id=xs, ctx=ast.Store())], value=comp)
    ast.copy_location(new, loop)
    ast.fix_missing_locations(new)
    return new


def _continue_guards(body: List[ast.stmt]) -> List[ast.stmt]:
    """inside a loop body:   if C: continue          ->   if not C:
                             REST                              REST
    (only for an `if` without else whose body is the single `continue`; applied from the top of the body downwards)"""
    for k, s in enumerate(body):
        if isinstance(s, ast.If) and not s.orelse and len(s.body) == 1 and isinstance(s.body[0], ast.Continue) and k + 1 < len(body):
            rest = _continue_guards(body[k + 1:])
            neg = ast.UnaryOp(op=ast.Not(), operand=s.test)
            new = ast.If(test=neg, body=rest, orelse=[])
            ast.copy_location(new, s)
            ast.copy_location(neg, s.test)
            ast.fix_missing_locations(new)
            return body[:k] + [new]
        if isinstance(s, (ast.Continue, ast.Break, ast.Return, ast.Raise)):
            break
    return body


def _first_match(init: ast.stmt, loop: ast.stmt) -> Optional[ast.Assign]:
    """X = D; for x in XS: if C: X = E; break        ->      X = next((E for x in XS if C), D)"""
    if not (isinstance(init, ast.Assign) and len(init.targets) == 1 and isinstance(init.targets[0], ast.Name)):
        return None
    X = init.targets[0].id
    if not (isinstance(loop, ast.For) and not loop.orelse and isinstance(loop.target, ast.Name) and len(loop.body) == 1):
        return None
    first = loop.body[0]
    if not (isinstance(first, ast.If) and not first.orelse and len(first.body) == 2 and isinstance(first.body[1], ast.Break)):
        return None
    st = first.body[0]
    if not (isinstance(st, ast.Assign) and len(st.targets) == 1 and isinstance(st.targets[0], ast.Name) and st.targets[0].id == X):
        return None
    if any(isinstance(n, ast.Name) and n.id == X for n in ast.walk(first.test)) or \
            any(isinstance(n, ast.Name) and n.id == X for n in ast.walk(st.value)) or \
            any(isinstance(n, ast.Name) and n.id == X for n in ast.walk(loop.iter)):
        return None
    gen = ast.GeneratorExp(elt=st.value, generators=[ast.comprehension(target=loop.target, iter=loop.iter, ifs=[first.test], is_async=0)])
    new = ast.Assign(targets=[ast.Name(id=X, ctx=ast.Store())],
                     value=ast.Call(func=ast.Name(id="next", ctx=ast.Load()), args=[gen, init.value], keywords=[]))
    ast.copy_location(new, loop)
    ast.fix_missing_locations(new)
    return new


def _first_match_list(init: ast.stmt, loop: ast.stmt) -> Optional[ast.Assign]:
    """acc = []; for x in XS: if C: acc.append(E); break      ->      acc = list(islice((E for x in XS if C), 1))
    (the list of the first match, or the empty list; XS is read no further than the first match)"""
    acc = _empty_acc(init)
    if acc is None or acc[1] != "list":
        return None
    X = acc[0]
    if not (isinstance(loop, ast.For) and not loop.orelse and len(loop.body) == 1):
        return None
    first = loop.body[0]
    if not (isinstance(first, ast.If) and not first.orelse and len(first.body) == 2 and isinstance(first.body[1], ast.Break)):
        return None
    st = first.body[0]
    if not (isinstance(st, ast.Expr) and isinstance(st.value, ast.Call) and isinstance(st.value.func, ast.Attribute)
            and isinstance(st.value.func.value, ast.Name) and st.value.func.value.id == X and st.value.func.attr == "append"
            and len(st.value.args) == 1 and not st.value.keywords and not isinstance(st.value.args[0], ast.Starred)):
        return None
    if _mentions(loop, X) != 1:
        return None
    gen = ast.GeneratorExp(elt=st.value.args[0], generators=[ast.comprehension(target=loop.target, iter=loop.iter, ifs=[first.test], is_async=0)])
    new = ast.Assign(targets=[ast.Name(id=X, ctx=ast.Store())],
                     value=ast.Call(func=ast.Name(id="list", ctx=ast.Load()),
                                    args=[ast.Call(func=ast.Name(id="__sa_islice__", ctx=ast.Load()),
                                                   args=[gen, ast.Constant(value=1)], keywords=[])], keywords=[]))
    ast.copy_location(new, loop)
    ast.fix_missing_locations(new)
    return new


def _any_loop(loop: ast.stmt) -> Optional[ast.If]:
    """for x in XS:                       ->   if any(C for x in XS): BODY  [else: ELSE]
           if C: BODY; break
       [else: ELSE]
    when BODY does not mention x (the first element that satisfies C only decides *whether* BODY runs)"""
    if not (isinstance(loop, ast.For) and isinstance(loop.target, ast.Name) and len(loop.body) == 1):
        return None
    first = loop.body[0]
    if not (isinstance(first, ast.If) and not first.orelse and len(first.body) >= 2 and isinstance(first.body[-1], ast.Break)):
        return None
    x = loop.target.id
    body = first.body[:-1]
    if any(isinstance(n, ast.Name) and n.id == x for b in body for n in ast.walk(b)):
        return None
    if any(isinstance(n, (ast.Break, ast.Continue)) for b in body for n in ast.walk(b)):
        return None
    gen = ast.GeneratorExp(elt=first.test, generators=[ast.comprehension(target=loop.target, iter=loop.iter, ifs=[], is_async=0)])
    test = ast.Call(func=ast.Name(id="any", ctx=ast.Load()), args=[gen], keywords=[])
    new = ast.If(test=test, body=body, orelse=list(loop.orelse))
    ast.copy_location(new, loop)
    ast.fix_missing_locations(new)
    return new


def _try_as_guard(t: ast.Try) -> Optional[ast.stmt]:
    """try: X = xs[0] (or xs[-1])            ->   X = xs[0] if xs else D
       except IndexError: X = D
       try: next(it)                         ->   next(it, None)
       except StopIteration: pass
    (one statement in the body, one handler naming exactly that exception, no else / finally)"""
    if t.orelse or t.finalbody or len(t.handlers) != 1 or len(t.body) != 1:
        return None
    h = t.handlers[0]
    exc = h.type.id if isinstance(h.type, ast.Name) else None
    b = t.body[0]
    if exc == "IndexError" and h.name is None and len(h.body) == 1 and isinstance(b, ast.Assign) and isinstance(h.body[0], ast.Assign) \
            and len(b.targets) == 1 and len(h.body[0].targets) == 1 and isinstance(b.targets[0], ast.Name) \
            and isinstance(h.body[0].targets[0], ast.Name) and b.targets[0].id == h.body[0].targets[0].id \
            and isinstance(b.value, ast.Subscript) and isinstance(b.value.value, (ast.Name, ast.Attribute)):
        k = b.value.slice
        is0 = isinstance(k, ast.Constant) and k.value == 0
        ism1 = isinstance(k, ast.UnaryOp) and isinstance(k.op, ast.USub) and isinstance(k.operand, ast.Constant) and k.operand.value == 1
        calls = any(isinstance(x, ast.Call) for x in ast.walk(b.value))
        if (is0 or ism1) and not calls:
            new = ast.Assign(targets=[ast.Name(id=b.targets[0].id, ctx=ast.Store())],
                             value=ast.IfExp(test=copy.deepcopy(b.value.value), body=b.value, orelse=h.body[0].value))
            ast.copy_location(new, t)
            ast.fix_missing_locations(new)
            return new
    if exc == "IndexError" and h.name is None and len(h.body) == 1 and isinstance(b, ast.Assign) and len(b.targets) == 1 \
            and isinstance(b.targets[0], ast.Tuple) and isinstance(b.value, ast.Tuple) and len(b.targets[0].elts) == len(b.value.elts) \
            and all(isinstance(x, ast.Name) for x in b.targets[0].elts) and isinstance(h.body[0], ast.Assign):
        names = [x.id for x in b.targets[0].elts]
        hb = h.body[0]
        # handler: a = b = D   or   a, b = D1, D2
        defaults = None
        if all(isinstance(x, ast.Name) for x in hb.targets) and sorted(x.id for x in hb.targets) == sorted(names):
            defaults = {n: hb.value for n in names}
        elif len(hb.targets) == 1 and isinstance(hb.targets[0], ast.Tuple) and isinstance(hb.value, ast.Tuple) \
                and [getattr(x, "id", None) for x in hb.targets[0].elts] == names and len(hb.value.elts) == len(names):
            defaults = dict(zip(names, hb.value.elts))
        subs = b.value.elts
        same = len({ast.dump(x.value) for x in subs if isinstance(x, ast.Subscript)}) == 1 and all(isinstance(x, ast.Subscript) for x in subs)

        def edge(k):
            return (isinstance(k, ast.Constant) and k.value == 0) or (
                isinstance(k, ast.UnaryOp) and isinstance(k.op, ast.USub) and isinstance(k.operand, ast.Constant) and k.operand.value == 1)
        if defaults is not None and same and all(edge(x.slice) for x in subs) and isinstance(subs[0].value, (ast.Name, ast.Attribute)) \
                and not any(isinstance(y, ast.Call) for x in subs for y in ast.walk(x)) \
                and not any(isinstance(y, ast.Name) and y.id in names for d in defaults.values() for y in ast.walk(d)):
            out = []
            for n, sub in zip(names, subs):
                new = ast.Assign(targets=[ast.Name(id=n, ctx=ast.Store())],
                                 value=ast.IfExp(test=copy.deepcopy(sub.value), body=sub, orelse=copy.deepcopy(defaults[n])))
                ast.copy_location(new, t)
                ast.fix_missing_locations(new)
                out.append(new)
            return out
    if exc == "StopIteration" and h.name is None and len(h.body) == 1 and isinstance(h.body[0], ast.Pass) \
            and isinstance(b, ast.Expr) and isinstance(b.value, ast.Call) and isinstance(b.value.func, ast.Name) \
            and b.value.func.id == "next" and len(b.value.args) == 1 and not b.value.keywords:
        new = ast.Expr(value=ast.Call(func=ast.Name(id="next", ctx=ast.Load()), args=[b.value.args[0], ast.Constant(value=None)],
                                      keywords=[]))
        ast.copy_location(new, t)
        ast.fix_missing_locations(new)
        return new
    return None


def _simple_subject(e: ast.expr) -> bool:
    if isinstance(e, ast.Name):
        return True
    if isinstance(e, ast.Attribute):
        return _simple_subject(e.value)
    if isinstance(e, ast.Tuple):
        return all(_simple_subject(x) or isinstance(x, (ast.Constant, ast.Compare, ast.BoolOp, ast.UnaryOp, ast.Call)) for x in e.elts)
    return False


def _pattern_test(p: ast.pattern, subject: ast.expr) -> Optional[ast.expr]:
    """the boolean expression `subject` must satisfy to match pattern `p` - None for patterns that bind names or need a
    runtime protocol this rewrite does not spell out"""
    T_ = ast.Constant(value=True)
    if isinstance(p, ast.MatchValue):
        return ast.Compare(left=subject, ops=[ast.Eq()], comparators=[p.value])
    if isinstance(p, ast.MatchSingleton):
        if p.value is True or p.value is False or p.value is None:
            return ast.Compare(left=subject, ops=[ast.Is()], comparators=[ast.Constant(value=p.value)])
        return None
    if isinstance(p, ast.MatchAs):
        if p.pattern is None and p.name is None:
            return T_
        return None
    if isinstance(p, ast.MatchOr):
        parts = [_pattern_test(q, subject) for q in p.patterns]
        if any(x is None for x in parts):
            return None
        return ast.BoolOp(op=ast.Or(), values=parts)
    if isinstance(p, ast.MatchClass):
        if p.patterns:
            return None
        tests = [ast.Call(func=ast.Name(id="isinstance", ctx=ast.Load()), args=[subject, p.cls], keywords=[])]
        for attr, q in zip(p.kwd_attrs, p.kwd_patterns):
            t = _pattern_test(q, ast.Attribute(value=subject, attr=attr, ctx=ast.Load()))
            if t is None:
                return None
            if not (isinstance(t, ast.Constant) and t.value is True):
                tests.append(t)
        return tests[0] if len(tests) == 1 else ast.BoolOp(op=ast.And(), values=tests)
    if isinstance(p, ast.MatchSequence):
        if not isinstance(subject, ast.Tuple) or len(subject.elts) != len(p.patterns) or \
                any(isinstance(q, ast.MatchStar) for q in p.patterns):
            return None
        tests = []
        for q, el in zip(p.patterns, subject.elts):
            # `case (True, False)` on a tuple of conditions compares by equality: True == 1; the elements here must be
            # booleans for `is`-free reading - comparisons, not/and/or, bool(...) - otherwise refuse
            if isinstance(q, ast.MatchSingleton) and q.value in (True, False):
                if not isinstance(el, (ast.Compare, ast.BoolOp)) and not (isinstance(el, ast.UnaryOp) and isinstance(el.op, ast.Not)) \
                        and not (isinstance(el, ast.Call) and isinstance(el.func, ast.Name) and el.func.id in ("bool", "isinstance", "any", "all")):
                    return None
                tests.append(el if q.value else ast.UnaryOp(op=ast.Not(), operand=el))
                continue
            t = _pattern_test(q, el)
            if t is None:
                return None
            if not (isinstance(t, ast.Constant) and t.value is True):
                tests.append(t)
        if not tests:
            return T_
        return tests[0] if len(tests) == 1 else ast.BoolOp(op=ast.And(), values=tests)
    return None


def _match_to_if(m: ast.Match) -> Optional[ast.stmt]:
    """match S: case P1 [if g1]: B1 ... case _: Bn     ->     if t1: B1 elif ... else: Bn
    for value / singleton / class (keyword sub-patterns) / or / wildcard patterns and fixed-length sequence patterns over a
    tuple display; the subject must be an expression that can be re-evaluated (names, attribute chains, tuples of those)"""
    if not _simple_subject(m.subject):
        return None
    arms = []
    for case in m.cases:
        t = _pattern_test(case.pattern, m.subject)
        if t is None:
            return None
        if case.guard is not None:
            t = case.guard if (isinstance(t, ast.Constant) and t.value is True) else ast.BoolOp(op=ast.And(), values=[t, case.guard])
        arms.append((t, case.body))
    node = None
    for t, body in reversed(arms):
        if isinstance(t, ast.Constant) and t.value is True:
            node_body = body
            node = ("else", node_body)
            continue
        orelse = []
        if node is not None:
            orelse = node[1] if node[0] == "else" else [node[1]]
        new = ast.If(test=t, body=body, orelse=orelse)
        node = ("if", new)
    if node is None:
        return None
    if node[0] == "else":
        new = ast.If(test=ast.Constant(value=True), body=node[1], orelse=[])
    else:
        new = node[1]
    ast.copy_location(new, m)
    ast.fix_missing_locations(new)
    return new


def _split_fused_accumulators(stmts: List[ast.stmt], list_names: set) -> List[ast.stmt]:
    """a = []; b = []; for t in xs: a.append(E1); b.append(E2)   ==>   a = []; for t in xs: a.append(E1); b = []; for t in xs: b.append(E2)
    when xs is a parameter declared as a list (iterating it twice is the same as once) and E1 / E2 mention neither accumulator:
    the two lists a fused loop fills are the two comprehensions it was fused from."""
    out: List[ast.stmt] = []
    i = 0
    while i < len(stmts):
        accs = []
        j = i
        while j < len(stmts) and _empty_acc(stmts[j]) is not None and _empty_acc(stmts[j])[1] == "list":
            accs.append(_empty_acc(stmts[j])[0])
            j += 1
        loop = stmts[j] if j < len(stmts) else None
        ok = len(accs) >= 2 and len(set(accs)) == len(accs) and isinstance(loop, ast.For) and not loop.orelse and \
            isinstance(loop.iter, ast.Name) and loop.iter.id in list_names and len(loop.body) == len(accs)
        parts = {}
        if ok:
            for b in loop.body:
                if isinstance(b, ast.Expr) and isinstance(b.value, ast.Call) and isinstance(b.value.func, ast.Attribute) and \
                        isinstance(b.value.func.value, ast.Name) and b.value.func.value.id in accs and b.value.func.attr == "append" and \
                        len(b.value.args) == 1 and not b.value.keywords and not isinstance(b.value.args[0], ast.Starred) and \
                        b.value.func.value.id not in parts and not any(_mentions(b.value.args[0], a) for a in accs):
                    parts[b.value.func.value.id] = b
                else:
                    ok = False
                    break
        if ok and len(parts) == len(accs):
            for k, name in enumerate(accs):
                out.append(stmts[i + k])
                lp = ast.For(target=copy.deepcopy(loop.target), iter=copy.deepcopy(loop.iter), body=[parts[name]], orelse=[])
                ast.copy_location(lp, loop)
                ast.fix_missing_locations(lp)
                out.append(lp)
            i = j + 1
            continue
        out.append(stmts[i])
        i += 1
    return out


def _expand_local_partials(fn: ast.AST) -> None:
    """g = functools.partial(F, a, b, k=c) ... g(x, m=y)      ==>      F(a, b, x, k=c, m=y)
    for a local g that is bound once and only ever called, with partial arguments that are plain access paths or constants whose
    roots are not re-bound in the function (so evaluating them at the call instead of at the binding reads the same values)."""
    def own_nodes(n):
        for c in ast.iter_child_nodes(n):
            if isinstance(c, (ast.FunctionDef, ast.AsyncFunctionDef, ast.ClassDef, ast.Lambda)):
                continue
            yield c
            yield from own_nodes(c)
    nodes = list(own_nodes(fn))
    stores = {}
    for n in nodes:
        if isinstance(n, ast.Name) and isinstance(n.ctx, ast.Store):
            stores[n.id] = stores.get(n.id, 0) + 1

    def pure(e):
        while isinstance(e, ast.Attribute):
            e = e.value
        return isinstance(e, ast.Constant) or (isinstance(e, ast.Name) and stores.get(e.id, 0) <= 1)
    cands = {}
    for n in nodes:
        if isinstance(n, ast.Assign) and len(n.targets) == 1 and isinstance(n.targets[0], ast.Name) and isinstance(n.value, ast.Call) \
                and ast.unparse(n.value.func) in ("partial", "functools.partial") and n.value.args \
                and isinstance(n.value.args[0], (ast.Name, ast.Attribute)) and stores.get(n.targets[0].id) == 1 \
                and not any(isinstance(a, ast.Starred) for a in n.value.args) and not any(k.arg is None for k in n.value.keywords) \
                and all(pure(a) for a in n.value.args) and all(pure(k.value) for k in n.value.keywords):
            cands[n.targets[0].id] = n
    if not cands:
        return
    # nested functions / lambdas that mention the name keep the partial object alive in another way: leave those alone
    for n in ast.walk(fn):
        if isinstance(n, (ast.FunctionDef, ast.AsyncFunctionDef, ast.Lambda)) and n is not fn:
            for y in ast.walk(n):
                if isinstance(y, ast.Name) and y.id in cands:
                    cands.pop(y.id, None)
    called = {}
    for n in nodes:
        if isinstance(n, ast.Call) and isinstance(n.func, ast.Name) and n.func.id in cands:
            called.setdefault(n.func.id, []).append(n)
    for name, assign in list(cands.items()):
        loads = [n for n in nodes if isinstance(n, ast.Name) and n.id == name and isinstance(n.ctx, ast.Load)]
        calls = called.get(name, [])
        if len(loads) != len(calls) or not calls or any(isinstance(a, ast.Starred) for c in calls for a in c.args) or \
                any(k.arg is None for c in calls for k in c.keywords):
            continue
        part = assign.value
        for c in calls:
            given = {k.arg for k in c.keywords}
            c.func = copy.deepcopy(part.args[0])
            c.args = [copy.deepcopy(a) for a in part.args[1:]] + list(c.args)
            c.keywords = [copy.deepcopy(k) for k in part.keywords if k.arg not in given] + list(c.keywords)
        # the binding itself becomes a no-op
        assign.value = ast.Constant(value=None)
        assign.targets = [ast.Name(id="__sa_unused_partial__", ctx=ast.Store())]
    ast.fix_missing_locations(fn)


class _Desugar(ast.NodeTransformer):
    def visit_FunctionDef(self, node):
        saved = getattr(self, "_params", set())
        a = node.args
        self._params = {x.arg for x in a.posonlyargs + a.args + a.kwonlyargs} | ({a.vararg.arg} if a.vararg else set()) | \
            ({a.kwarg.arg} if a.kwarg else set())
        saved_l = getattr(self, "_list_params", set())
        # parameters declared as lists / sequences (may be iterated more than once)
        self._list_params = {x.arg for x in a.posonlyargs + a.args + a.kwonlyargs if x.annotation is not None and
                             ast.unparse(x.annotation).replace("typing.", "").split("[")[0] in ("List", "list", "Sequence", "Tuple", "tuple")}
        try:
            _expand_local_partials(node)
            return self.generic_visit(node)
        finally:
            self._params = saved
            self._list_params = saved_l

    visit_AsyncFunctionDef = visit_FunctionDef

    def visit_Try(self, node):
        self.generic_visit(node)
        r = _try_as_guard(node)
        return r if r is not None else node

    def visit_Match(self, node):
        self.generic_visit(node)
        r = _match_to_if(node)
        return r if r is not None else node

    def _block(self, stmts: List[ast.stmt]) -> List[ast.stmt]:
        out: List[ast.stmt] = []
        i = 0
        # index loops first: `i = a; while i < b: ...; i += 1` is the for loop over range(a, b) it spells out, and a for loop over
        # range(len(xs)) that only reads xs[i] is the loop over the elements
        pre: List[ast.stmt] = []
        lens: dict = {}                     # n -> dump(xs) for `n = len(xs)` bound once in this block
        k = 0
        while k < len(stmts):
            s = stmts[k]
            if k + 1 < len(stmts):
                fm = _first_match(s, stmts[k + 1]) or _first_match_list(s, stmts[k + 1])
                if fm is not None:
                    pre.append(fm)
                    k += 2
                    continue
            if k + 1 < len(stmts):
                r = while_index_to_for(s, stmts[k + 1], stmts[k + 2:])
                if r is not None:
                    pre.append(inplace_map(r, getattr(self, "_params", set())) or range_index_to_elements(r) or r)
                    k += 2
                    continue
            if lens and not isinstance(s, ast.For):
                # a statement that may change the length of a measured sequence (or rebinds it) ends what `n = len(xs)` says
                for nm0, d0 in list(lens.items()):
                    for y in ast.walk(s):
                        if (isinstance(y, ast.Call) and isinstance(y.func, ast.Attribute) and ast.dump(y.func.value) == d0 and
                                y.func.attr in ("append", "extend", "pop", "remove", "insert", "clear")) or \
                                (isinstance(y, (ast.Name, ast.Attribute, ast.Subscript)) and isinstance(getattr(y, "ctx", None), (ast.Store, ast.Del))
                                 and (ast.dump(y)[:40] == d0[:40] or (isinstance(y, ast.Subscript) and ast.dump(y.value) == d0 and isinstance(y.slice, ast.Slice)))):
                            lens.pop(nm0, None)
                            break
            if isinstance(s, ast.Assign) and len(s.targets) == 1 and isinstance(s.targets[0], ast.Name) and isinstance(s.value, ast.Call) \
                    and isinstance(s.value.func, ast.Name) and s.value.func.id == "len" and len(s.value.args) == 1 and not s.value.keywords:
                nm = s.targets[0].id
                stores = sum(1 for st0 in stmts for y in ast.walk(st0) if isinstance(y, ast.Name) and y.id == nm and isinstance(y.ctx, ast.Store))
                if stores == 1:
                    lens[nm] = ast.dump(s.value.args[0])
            if isinstance(s, ast.For):
                m = inplace_map(s, getattr(self, "_params", set()))
                if m is not None:
                    pre.append(m)
                    k += 1
                    continue
                r = range_index_to_elements(s, lens)
                if r is not None:
                    s = r
                a = _any_loop(s)
                if a is not None:
                    s = a
            pre.append(s)
            k += 1
        stmts = _split_fused_accumulators(pre, getattr(self, "_list_params", set()))
        while i < len(stmts):
            s = stmts[i]
            # prefix scan by index:  i = 0; while i < len(xs) and P(xs[i]): i += 1
            if i + 1 < len(stmts):
                sc = _index_scan(s, stmts[i + 1])
                if sc is not None:
                    name, xs, P, param = sc
                    lam = ast.Lambda(args=ast.arguments(posonlyargs=[], args=[ast.arg(arg=param)], kwonlyargs=[], kw_defaults=[],
                                                        defaults=[]), body=P)
                    new = ast.Assign(targets=[ast.Name(id=name, ctx=ast.Store())],
                                     value=ast.Call(func=ast.Name(id="__sa_prefixlen__", ctx=ast.Load()), args=[lam, xs], keywords=[]))
                    ast.copy_location(new, stmts[i + 1])
                    ast.fix_missing_locations(new)
                    out.append(new)
                    i += 2
                    continue
            # "take until B":  acc = []; for x in xs: if B: break; acc.append(x)
            acc1 = _empty_acc(s)
            if acc1 is not None and acc1[1] == "list" and i + 1 < len(stmts):
                bl = _break_loop(stmts[i + 1], acc1[0])
                if bl is not None:
                    xs, B, x = bl
                    lam = ast.Lambda(args=ast.arguments(posonlyargs=[], args=[ast.arg(arg=x)], kwonlyargs=[], kw_defaults=[],
                                                        defaults=[]), body=ast.UnaryOp(op=ast.Not(), operand=B))
                    value = ast.Call(func=ast.Name(id="list", ctx=ast.Load()),
                                     args=[ast.Call(func=ast.Name(id="__sa_takewhile__", ctx=ast.Load()), args=[lam, xs], keywords=[])],
                                     keywords=[])
                    new = ast.Assign(targets=[ast.Name(id=acc1[0], ctx=ast.Store())], value=value)
                    ast.copy_location(new, stmts[i + 1])
                    ast.fix_missing_locations(new)
                    out.append(new)
                    i += 2
                    continue
            # grouping of adjacent equal keys written by hand
            if i + 2 < len(stmts):
                mg = _manual_groupby(s, stmts[i + 1], stmts[i + 2])
                if mg is not None:
                    xs, K, E, G = mg
                    gb = ast.Call(func=ast.Name(id="__sa_groupby__", ctx=ast.Load()), args=[xs, K], keywords=[])
                    target = ast.Tuple(elts=[ast.Name(id="__sa_key__", ctx=ast.Store()), ast.Name(id=G, ctx=ast.Store())],
                                       ctx=ast.Store())
                    gen = ast.GeneratorExp(elt=E, generators=[ast.comprehension(target=target, iter=gb, ifs=[], is_async=0)])
                    new = ast.Expr(value=ast.YieldFrom(value=gen))
                    ast.copy_location(new, stmts[i + 1])
                    ast.fix_missing_locations(new)
                    out.append(new)
                    i += 3
                    continue
            # "skip while P, then take until B" written with a state flag
            acc0 = _empty_acc(s)
            if acc0 is not None and acc0[1] == "list" and i + 2 < len(stmts):
                w = _window_loop(stmts[i + 1], stmts[i + 2], acc0[0])
                if w is not None and w[4] == "append":
                    value = ast.Call(func=ast.Name(id="list", ctx=ast.Load()), args=[_window_expr(*w[:4])], keywords=[])
                    new = ast.Assign(targets=[ast.Name(id=acc0[0], ctx=ast.Store())], value=value)
                    ast.copy_location(new, stmts[i + 2])
                    ast.fix_missing_locations(new)
                    out.append(new)
                    i += 3
                    continue
            if i + 1 < len(stmts):
                w = _window_loop(s, stmts[i + 1], None)
                if w is not None and w[4] == "yield":
                    new = ast.Expr(value=ast.YieldFrom(value=_window_expr(*w[:4])))
                    ast.copy_location(new, stmts[i + 1])
                    ast.fix_missing_locations(new)
                    out.append(new)
                    i += 2
                    continue
            acc = _empty_acc(s)
            if acc is not None and i + 1 < len(stmts) and isinstance(stmts[i + 1], ast.For):
                comp = _as_comprehension(stmts[i + 1], acc[0], acc[1])
                if comp is not None:
                    value = comp
                    j = i + 2
                    # further loops filling the same list: xs = [..first..] + [..second..]
                    while acc[1] == "list" and j < len(stmts) and isinstance(stmts[j], ast.For):
                        more = _as_comprehension(stmts[j], acc[0], acc[1])
                        if more is None:
                            break
                        value = ast.BinOp(left=value, op=ast.Add(), right=more)
                        ast.copy_location(value, stmts[j])
                        j += 1
                    new = ast.Assign(targets=[ast.Name(id=acc[0], ctx=ast.Store())], value=value)
                    ast.copy_location(new, stmts[i + 1])
                    ast.fix_missing_locations(new)
                    out.append(new)
                    i = j
                    continue
            out.append(s)
            i += 1
        return out

    def generic_visit(self, node):
        super().generic_visit(node)
        if isinstance(node, (ast.For, ast.While)):
            node.body = _continue_guards(list(node.body))
        for fieldname in ("body", "orelse", "finalbody"):
            blk = getattr(node, fieldname, None)
            if isinstance(blk, list) and blk and isinstance(blk[0], ast.stmt):
                setattr(node, fieldname, self._block(blk))
        return node


def desugar(tree: ast.Module) -> ast.Module:
    return _Desugar().visit(tree)

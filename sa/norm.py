"""AST expression -> canonical term (see terms.py), with optional inlining of simple repository callees."""
from __future__ import annotations

import ast
from typing import Dict, List, Optional, Tuple

from .loader import Program, FunctionInfo, ClassInfo, Module, mangle, AnalysisError
from .types import Types, Inst, ClsT, FuncT, ModT, Ext, ListOf, TupleOf, UNKNOWN
from .callgraph import CallGraph, Callee, bind_args
from . import terms as T
from .terms import C, V, Term


_PINNED = None
_PINNED_MODULE_LEVEL = None


def is_new_helper(fn) -> bool:
    """True for a repository function that did not exist on the pinned tree (see sa/pinned_functions.json)"""
    global _PINNED
    if _PINNED is None:
        import json, os
        with open(os.path.join(os.path.dirname(__file__), "pinned_functions.json")) as f:
            _PINNED = set(json.load(f)["functions"])
        global _PINNED_MODULE_LEVEL
        import collections
        _PINNED_MODULE_LEVEL = collections.Counter(q.split(":")[1] for q in _PINNED if "." not in q.split(":")[1])
    if fn is None or fn.module.is_test or fn.qualname in _PINNED:
        return False
    # a module-level function that kept its name and only changed its module (moved, re-exported from the old place) is not new
    if fn.cls is None and fn.parent is None and not fn.is_lambda and _PINNED_MODULE_LEVEL.get(fn.name) == 1:
        return False
    return True


def _new_record_classes(p) -> Dict[str, Tuple[str, ...]]:
    """NamedTuple / dataclass classes without an __init__ of their own and without properties that did not exist on the pinned
    tree: qualified name -> field names in constructor order"""
    import json, os
    with open(os.path.join(os.path.dirname(__file__), "pinned_functions.json")) as f:
        pinned = set(json.load(f).get("classes", []))
    out = {}
    for c in p.classes.values():
        if c.qualname in pinned or c.module.is_test or not (c.is_namedtuple or c.is_dataclass):
            continue
        if "__init__" in c.methods or "__new__" in c.methods or "__post_init__" in c.methods or "__getitem__" in c.methods:
            continue
        params = p.constructor_params(c)
        if not params:
            continue
        names = tuple(q.name for q in params)
        if any(n in c.methods for n in names):
            continue
        out[c.qualname] = names
    return out


def _new_property_names(ctx) -> set:
    names = getattr(ctx, "_new_props", None)
    if names is None:
        names = {f.name for f in ctx.p.functions.values() if f.is_property and is_new_helper(f)}
        ctx._new_props = names
    return names


class Ctx:
    """Shared analysis context (one per run)."""

    def __init__(self, program: Optional[Program] = None, overlay=None):
        self.p = program or Program(overlay=overlay)
        # functions a rule has located by their role (a renamed / moved private helper): calls to them stay calls, they are not
        # read through like helpers that are new
        self.keep_calls = set()
        self.t = Types(self.p)
        self.cg = CallGraph(self.p, self.t)
        T.RECORD_CLASSES.clear()
        T.RECORD_CLASSES.update(_new_record_classes(self.p))


_SEQ_BUILTINS = {"list", "sorted", "str", "tuple", "reversed"}


class Normalizer:
    def __init__(self, ctx: Ctx, fn: FunctionInfo, env: Optional[Dict[str, Term]] = None,
                 heap: Optional[Dict[Term, Term]] = None, level: int = 0, inline: int = 0,
                 inline_ok=None, self_term: Optional[Term] = None):
        self.ctx = ctx
        self.fn = fn
        self.env = env if env is not None else {}
        self.heap = heap if heap is not None else {}
        self.level = level
        self.inline = inline
        self.inline_ok = inline_ok
        self.scopes: List[Dict[str, Term]] = []
        self.local_defs: Dict[str, Tuple[ast.Lambda, Term]] = {}      # nested `def f(x): return e` seen by the path explorer
        self.cls = fn.enclosing_class
        self.self_term = self_term
        self.inlined: List[str] = []

    # ------------------------------------------------------------------ names
    def lookup(self, name: str) -> Term:
        for sc in reversed(self.scopes):
            if name in sc:
                return sc[name]
        if name in self.env:
            return self.env[name]
        if self.self_term is not None and name == self.fn.self_name:
            return self.self_term
        # parameters and locals of this function (or of lexically enclosing ones) stay symbolic
        f = self.fn
        while f is not None:
            if any(p.name == name for p in f.params):
                return V(name)
            f = f.parent
        if self._is_local(name):
            return V(name)
        r = self.ctx.p.resolve_symbol(self.fn.module, name)
        if isinstance(r, ClassInfo):
            return ("cls", r.qualname)
        if isinstance(r, FunctionInfo):
            return ("fn", r.qualname)
        if isinstance(r, Module):
            return ("ext", r.name)
        if isinstance(r, tuple):
            return ("ext", r[1])
        if name in self.fn.module.assigns:
            c = self._module_constant(self.fn.module, name)
            if c is not None:
                return c
            return ("ext", f"{self.fn.module.name}.{name}")
        if isinstance(r, tuple) and len(r) >= 2 and isinstance(r[1], str) and "." in r[1]:
            # from <repo module> import NAME of such a constant
            mod_name, _, attr = r[1].rpartition(".")
            m2 = self.ctx.p.modules.get(mod_name)
            if m2 is not None and attr in m2.assigns:
                c = self._module_constant(m2, attr)
                if c is not None:
                    return c
        return V(name)

    def _module_constant(self, module, name: str) -> Optional[Term]:
        """A module-level `NAME = <literal / lambda / operator getter>` bound exactly once is the value it names (the pinned
        tree has no module-level assignment at all, so every such name is a constant somebody hoisted)."""
        stores = [n for n in ast.walk(module.tree) if isinstance(n, ast.Name) and n.id == name and isinstance(n.ctx, ast.Store)]
        if len(stores) != 1:
            return None
        v = module.assigns[name]

        def pure(x) -> bool:
            if isinstance(x, ast.Constant):
                return True
            if isinstance(x, ast.UnaryOp) and isinstance(x.op, (ast.USub, ast.UAdd)):
                return pure(x.operand)
            if isinstance(x, (ast.Tuple, ast.List)):
                return all(pure(y) for y in x.elts)
            if isinstance(x, ast.Lambda):
                free = {n.id for n in ast.walk(x.body) if isinstance(n, ast.Name)} - {a.arg for a in x.args.args}
                return not (free & set(module.assigns))
            if isinstance(x, ast.Call) and not x.keywords and all(pure(a) for a in x.args):
                return self._dotted_external(x.func) in ("operator.attrgetter", "attrgetter", "operator.itemgetter", "itemgetter",
                                                         "operator.methodcaller", "methodcaller", "float", "frozenset", "re.compile")
            if isinstance(x, ast.BinOp):
                return pure(x.left) and pure(x.right)
            if isinstance(x, (ast.Attribute, ast.Name)):
                return self._dotted_external(x) in ("math.inf", "math.pi", "math.e", "math.nan", "math.tau", "numpy.inf", "numpy.nan",
                                                    "numpy.pi", "sys.maxsize", "sys.float_info.max", "sys.float_info.epsilon")
            return False
        if not pure(v):
            return None
        fn0 = next(iter(module.functions.values()), None) or self.fn
        sub = Normalizer(self.ctx, fn0 if fn0.module is module else self.fn, {}, {}, self.level, 0, None, None)
        try:
            t = sub.norm(v)
        except AnalysisError:
            t = None
        return t

    def _is_local(self, name: str) -> bool:
        f = self.fn
        while f is not None:
            for n in ast.walk(f.node):
                if isinstance(n, ast.Name) and n.id == name and isinstance(n.ctx, ast.Store):
                    return True
            f = f.parent
        return False

    # ------------------------------------------------------------------ helpers
    def is_seq(self, e: ast.expr) -> bool:
        if isinstance(e, (ast.List, ast.ListComp, ast.Tuple, ast.JoinedStr)):
            return True
        if isinstance(e, ast.Constant):
            return isinstance(e.value, (str, bytes))
        if isinstance(e, ast.Call) and isinstance(e.func, ast.Name) and e.func.id in _SEQ_BUILTINS:
            return True
        if isinstance(e, ast.BinOp) and isinstance(e.op, ast.Add):
            return self.is_seq(e.left) or self.is_seq(e.right)
        if isinstance(e, ast.Subscript) and isinstance(e.slice, ast.Slice):
            return True
        if isinstance(e, ast.Name):
            t = self.lookup(e.id)
            if t[0] in ("list", "tuple", "concat", "comp", "fstr", "slice") or (t[0] == "c" and isinstance(t[1], str)):
                return True
            if t[0] == "call" and t[1] in _SEQ_BUILTINS:
                return True
        try:
            ty = self.ctx.t.type_of(self.fn, e)
        except RecursionError:  # pragma: no cover
            ty = UNKNOWN
        if isinstance(ty, (ListOf, TupleOf)):
            return True
        if isinstance(ty, Ext) and ty.name in ("str",):
            return True
        return False

    def norm_opt(self, e: Optional[ast.expr]) -> Term:
        return T.NONE if e is None else self.norm(e)

    # ------------------------------------------------------------------ main entry
    def norm(self, e: ast.expr, boolctx: bool = False) -> Term:
        m = getattr(self, "n_" + type(e).__name__, None)
        if m is None:
            return ("unk", type(e).__name__)
        return m(e, boolctx)

    def n_Constant(self, e, b):
        return C(e.value)

    def n_Name(self, e, b):
        return self.lookup(e.id)

    def n_Attribute(self, e, b):
        base = self.norm(e.value)
        name = mangle(e.attr, self.cls.name if self.cls else None)
        if base[0] == "ext" and base[1] in self.ctx.p.modules and e.attr in self.ctx.p.modules[base[1]].assigns:
            c = self._module_constant(self.ctx.p.modules[base[1]], e.attr)      # <repo module>.CONSTANT
            if c is not None:
                return c
        t = T.mk_attr(base, name)
        if t in self.heap:
            return self.heap[t]
        if base[0] in ("v", "cls") or base == self.self_term:
            # self.__helper / cls.__helper / Class.helper used as a value (key=..., map(...)): the static function it names
            try:
                ft = self.ctx.t.type_of(self.fn, e)
            except Exception:
                ft = None
            from .types import FuncT as _FuncT
            if isinstance(ft, _FuncT) and not ft.fn.is_property and (ft.fn.is_static or ft.fn.is_classmethod):
                return ("fn", ft.fn.qualname)
        if self.inline > 0 or e.attr in _new_property_names(self.ctx):
            r = self._inline_property(e, base)
            if r is not None:
                return r
        return t

    def n_Subscript(self, e, b):
        base = self.norm(e.value)
        if isinstance(e.slice, ast.Slice):
            return T.mk_slice(base, self.norm_opt(e.slice.lower), self.norm_opt(e.slice.upper),
                              self.norm_opt(e.slice.step))
        t = T.mk_idx(base, self.norm(e.slice))
        if t in self.heap:
            return self.heap[t]
        return t

    def n_Tuple(self, e, b):
        return ("tuple", tuple(self.norm(x) for x in e.elts))

    def n_List(self, e, b):
        if len(e.elts) >= 2 and all(isinstance(x, ast.Starred) for x in e.elts):
            return ("concat", tuple(self.norm(x.value) for x in e.elts))      # [*a, *b] == a + b
        return ("list", tuple(self.norm(x) for x in e.elts))

    def n_Set(self, e, b):
        return ("set", tuple(sorted({self.norm(x) for x in e.elts}, key=T.key)))

    def n_Dict(self, e, b):
        return ("dict", tuple((self.norm(k) if k is not None else None, self.norm(v))
                              for k, v in zip(e.keys, e.values)))

    def n_Starred(self, e, b):
        return ("star", self.norm(e.value))

    def n_JoinedStr(self, e, b):
        parts = []
        for v in e.values:
            if isinstance(v, ast.Constant):
                parts.append(C(v.value))
            elif isinstance(v, ast.FormattedValue):
                spec = ""
                if v.format_spec is not None:
                    spec = "".join(x.value if isinstance(x, ast.Constant) else "{?}" for x in v.format_spec.values) \
                        if isinstance(v.format_spec, ast.JoinedStr) else "?"
                parts.append(("fmt", self.norm(v.value), v.conversion, spec))
        return ("fstr", tuple(parts))

    def n_FormattedValue(self, e, b):  # pragma: no cover - handled in JoinedStr
        return ("fmt", self.norm(e.value), e.conversion, "")

    def n_UnaryOp(self, e, b):
        if isinstance(e.op, ast.Not):
            return T.mk_not(T.as_bool(self.norm(e.operand, True)))
        v = self.norm(e.operand)
        if isinstance(e.op, ast.USub):
            return T.p_neg(v)
        if isinstance(e.op, ast.UAdd):
            return v
        # ~ on an element-wise comparison (a boolean mask) is the complementary comparison; ~~m is m
        if v[0] == "eq":
            return T.mk_ne(v[1], v[2])
        if v[0] == "ne":
            return T.mk_eq(v[1], v[2])
        if v[0] == "call" and v[1] == "~" and len(v[2]) == 1:
            return v[2][0]
        return ("call", "~", (v,), ())

    def n_BinOp(self, e, b):
        op = e.op
        if isinstance(op, ast.Add) and (self.is_seq(e.left) or self.is_seq(e.right)):
            l, r = self.norm(e.left), self.norm(e.right)
            parts = []
            for x in (l, r):
                if x[0] == "concat":
                    parts.extend(x[1])
                else:
                    parts.append(x)
            return ("concat", tuple(parts))
        if isinstance(op, ast.Mult) and (self.is_seq(e.left) or self.is_seq(e.right)):
            l, r = self.norm(e.left), self.norm(e.right)
            return ("rep", l, r) if self.is_seq(e.left) else ("rep", r, l)
        # operator overloads of repository classes
        try:
            lt = self.ctx.t.type_of(self.fn, e.left)
        except RecursionError:  # pragma: no cover
            lt = UNKNOWN
        if isinstance(lt, Inst):
            dunder = {ast.Sub: "__sub__", ast.Add: "__add__", ast.Mult: "__mul__"}.get(type(op))
            if dunder:
                m = self.ctx.p.lookup_method(lt.cls, dunder, None)
                if m is not None:
                    ps = m.call_params()
                    return ("app", m.qualname, self.norm(e.left),
                            ((ps[0].name if ps else "other", self.norm(e.right)),))
        l, r = self.norm(e.left), self.norm(e.right)
        if isinstance(op, ast.Add):
            return T.p_add(l, r)
        if isinstance(op, ast.Sub):
            return T.p_sub(l, r)
        if isinstance(op, ast.Mult):
            return T.p_mul(l, r)
        if isinstance(op, ast.Div):
            if T.is_num_const(l) and T.is_num_const(r) and r[1] != 0:
                return C(l[1] / r[1])
            if T.is_num_const(r) and r[1] != 0:
                return T.p_mul(l, C(1 / r[1])) if (1 / r[1]) == int(1 / r[1]) or r[1] in (2, 4, 5, 10) else ("div", l, r)
            return ("div", l, r)
        if isinstance(op, ast.Pow):
            if r[0] == "c" and isinstance(r[1], int) and 0 <= r[1] <= 4:
                out = C(1)
                for _ in range(r[1]):
                    out = T.p_mul(out, l)
                return out
            return ("pow", l, r)
        sym = {ast.FloorDiv: "//", ast.Mod: "%", ast.BitOr: "|", ast.BitAnd: "&", ast.BitXor: "^",
               ast.LShift: "<<", ast.RShift: ">>", ast.MatMult: "@"}.get(type(op), "?")
        return ("binop", sym, l, r)

    def n_BoolOp(self, e, b):
        if b:
            vals = [T.as_bool(self.norm(v, True)) for v in e.values]
            return T.mk_and(vals) if isinstance(e.op, ast.And) else T.mk_or(vals)
        vals = tuple(self.norm(v) for v in e.values)
        return ("andthen" if isinstance(e.op, ast.And) else "orelse", vals)

    def n_Compare(self, e, b):
        parts = []
        left = self.norm(e.left)
        for op, right_e in zip(e.ops, e.comparators):
            right = self.norm(right_e)
            parts.append(self._cmp(op, left, right))
            left = right
        return T.mk_and(parts) if len(parts) > 1 else parts[0]

    @staticmethod
    def _cmp(op, a, b):
        if isinstance(op, ast.Lt):
            return T.mk_lt(a, b)
        if isinstance(op, ast.LtE):
            return T.mk_le(a, b)
        if isinstance(op, ast.Gt):
            return T.mk_gt(a, b)
        if isinstance(op, ast.GtE):
            return T.mk_ge(a, b)
        if isinstance(op, ast.Eq):
            return T.mk_eq(a, b)
        if isinstance(op, ast.NotEq):
            return T.mk_ne(a, b)
        if isinstance(op, (ast.In, ast.NotIn)) and a[0] == "c" and b[0] in ("list", "tuple", "set", "dict"):
            # membership of a constant in a display of constants (keys of a dict display) is decided here
            keys = [x[0] if b[0] == "dict" else x for x in b[1]]
            if all(k is not None and k[0] == "c" for k in keys):
                try:
                    inside = any(k[1] == a[1] and type(k[1]) is type(a[1]) for k in keys)
                    return C(inside if isinstance(op, ast.In) else not inside)
                except Exception:
                    pass
        if isinstance(op, ast.In):
            return ("in", a, b)
        if isinstance(op, ast.NotIn):
            return ("notin", a, b)
        if isinstance(op, ast.Is):
            if b == T.NONE:
                return ("isnone", a)
            if a == T.NONE:
                return ("isnone", b)
            return ("is", a, b)
        if isinstance(op, ast.IsNot):
            if b == T.NONE:
                return ("notnone", a)
            if a == T.NONE:
                return ("notnone", b)
            return ("isnot", a, b)
        return ("unk", "cmp")

    def n_IfExp(self, e, b):
        c = T.as_bool(self.norm(e.test, True))
        return T.mk_select(c, self.norm(e.body, b), self.norm(e.orelse, b))

    def n_NamedExpr(self, e, b):
        v = self.norm(e.value)
        if isinstance(e.target, ast.Name):
            self.env[e.target.id] = v
        return v

    def n_Await(self, e, b):
        return ("await", self.norm(e.value))

    def n_Yield(self, e, b):
        return ("yieldval", self.norm_opt(e.value))

    def n_YieldFrom(self, e, b):
        return ("yieldval", ("star", self.norm(e.value)))

    # ------------------------------------------------------------------ binders
    def _bind_target(self, target: ast.expr, value: Term, scope: Dict[str, Term]):
        if isinstance(target, ast.Name):
            scope[target.id] = value
        elif isinstance(target, (ast.Tuple, ast.List)):
            for i, el in enumerate(target.elts):
                if isinstance(el, ast.Starred):
                    self._bind_target(el.value, ("slice", value, C(i), T.NONE, T.NONE), scope)
                else:
                    self._bind_target(el, T.mk_idx(value, C(i)), scope)

    def n_Lambda(self, e, b):
        scope: Dict[str, Term] = {}
        params = [a.arg for a in e.args.posonlyargs + e.args.args]
        for i, name in enumerate(params):
            scope[name] = ("bv", self.level + i)
        lf = self.ctx.p.fn_of_node.get(id(e))
        saved_fn = self.fn
        if lf is not None:
            self.fn = lf
        self.scopes.append(scope)
        self.level += len(params)
        try:
            body = self.norm(e.body)
        finally:
            self.level -= len(params)
            self.scopes.pop()
            self.fn = saved_fn
        return ("lam", len(params), body)

    def _comp(self, kind: str, elt_fn, generators):
        gens = []
        pushed = 0
        try:
            for g in generators:
                it = self.norm(g.iter)
                scope: Dict[str, Term] = {}
                self._bind_target(g.target, ("bv", self.level), scope)
                self.scopes.append(scope)
                self.level += 1
                pushed += 1
                ifs = tuple(T.as_bool(self.norm(c, True)) for c in g.ifs)
                gens.append((it, ifs))
            elt = elt_fn()
        finally:
            for _ in range(pushed):
                self.scopes.pop()
                self.level -= 1
        return self._flatten_comp(("comp", kind, elt, tuple(gens)))

    def _flatten_comp(self, t: Term) -> Term:
        """[E(y) for y in [F(x) for x in xs] ...]  ==  [E(F(x)) for x in xs ...]: a comprehension iterating directly over
        another comprehension is read as one comprehension (bound variables are renumbered)."""
        kind, elt, gens = t[1], t[2], t[3]
        if kind == "dict" or not gens:
            return t
        it0, ifs0 = gens[0]
        while it0[0] == "call" and it0[1] in ("list", "iter", "tuple") and len(it0[2]) == 1 and not it0[3]:
            it0 = it0[2][0]
        if not (it0[0] == "comp" and it0[1] in ("list", "gen", "tuple")):
            return t
        L = self.level                      # level of the first bound variable of both comprehensions
        inner_elt, inner_gens = it0[2], it0[3]
        m = len(inner_gens)

        def remap(x: Term) -> Term:
            if x[0] == "bv":
                if x[1] == L:
                    return inner_elt
                if x[1] > L:
                    return ("bv", x[1] + m - 1)
                return x
            return T.rebuild(x, remap)
        new_gens = list(inner_gens)
        if ifs0:
            last_it, last_ifs = new_gens[-1]
            new_gens[-1] = (last_it, tuple(last_ifs) + tuple(remap(c) for c in ifs0))
        for it, ifs in gens[1:]:
            new_gens.append((remap(it), tuple(remap(c) for c in ifs)))
        new_elt = remap(elt) if not isinstance(elt, tuple) or not elt or isinstance(elt[0], str) else elt
        return ("comp", kind, new_elt, tuple(new_gens))

    def n_ListComp(self, e, b):
        return self._comp("list", lambda: self.norm(e.elt), e.generators)

    def n_SetComp(self, e, b):
        return self._comp("set", lambda: self.norm(e.elt), e.generators)

    def n_GeneratorExp(self, e, b):
        return self._comp("gen", lambda: self.norm(e.elt), e.generators)

    def n_DictComp(self, e, b):
        return self._comp("dict", lambda: (self.norm(e.key), self.norm(e.value)), e.generators)

    # ------------------------------------------------------------------ calls
    def _args(self, call: ast.Call) -> Tuple[Tuple[Term, ...], Tuple[Tuple[str, Term], ...]]:
        args = tuple(self.norm(a) for a in call.args)
        kwargs = tuple((k.arg if k.arg is not None else "**", self.norm(k.value)) for k in call.keywords)
        return args, kwargs

    def _dotted_external(self, f: ast.expr) -> Optional[str]:
        """dotted name if f is a pure Name/Attribute chain rooted at an import or a builtin."""
        parts = []
        n = f
        while isinstance(n, ast.Attribute):
            parts.append(n.attr)
            n = n.value
        if not isinstance(n, ast.Name):
            return None
        for sc in reversed(self.scopes):
            if n.id in sc:
                return None
        if n.id in self.env:
            return None
        root = self.lookup(n.id)
        if root[0] == "ext":
            name = root[1]
        elif root[0] == "v":
            from .types import _BUILTINS
            f0 = self.fn
            while f0 is not None:
                if any(p.name == n.id for p in f0.params):
                    return None
                f0 = f0.parent
            if n.id in _BUILTINS and not self._is_local(n.id):
                name = n.id
            else:
                return None
        else:
            return None
        return ".".join([name] + list(reversed(parts)))

    def _format_call_as_fstring(self, e: ast.Call) -> Optional[Term]:
        """"lit {} lit {:.1f}".format(a, b)  is read as the f-string it abbreviates"""
        f = e.func
        if not (isinstance(f, ast.Attribute) and f.attr == "format" and isinstance(f.value, ast.Constant)
                and isinstance(f.value.value, str)) or e.keywords or any(isinstance(a, ast.Starred) for a in e.args):
            return None
        import string
        parts = []
        auto = 0
        try:
            fields = list(string.Formatter().parse(f.value.value))
        except ValueError:
            return None
        for lit, field, spec, conv in fields:
            if lit:
                parts.append(C(lit))
            if field is None:
                continue
            if field == "":
                idx = auto
                auto += 1
            elif field.isdigit():
                idx = int(field)
            else:
                return None
            if idx >= len(e.args) or (spec and "{" in spec):
                return None
            parts.append(("fmt", self.norm(e.args[idx]), ord(conv) if conv else -1, spec or ""))
        return ("fstr", tuple(parts))

    def n_Call(self, e: ast.Call, b):
        f = e.func
        if isinstance(f, ast.Name) and f.id == "__sa_prefixlen__":                                                # produced by sa/desugar.py
            args, kwargs = self._args(e)
            return ("call", "sa.prefixlen", args, ())
        if isinstance(f, ast.Name) and f.id in ("__sa_takewhile__", "__sa_dropwhile__", "__sa_groupby__"):      # produced by sa/desugar.py
            args, kwargs = self._args(e)
            return T.mk_call("itertools." + f.id.strip("_")[3:], args, kwargs)
        if isinstance(f, ast.Name) and f.id == "__sa_islice__":                                                   # produced by sa/desugar.py
            e2 = ast.Call(func=ast.Attribute(value=ast.Name(id="itertools", ctx=ast.Load()), attr="islice", ctx=ast.Load()),
                          args=e.args, keywords=[])
            ast.copy_location(e2, e)
            ast.fix_missing_locations(e2)
            canon = self._canonical_iteration("itertools.islice", e2)
            if canon is not None:
                return canon
            args, kwargs = self._args(e)
            return T.mk_call("itertools.islice", args, kwargs)
        fs = self._format_call_as_fstring(e)
        if fs is not None:
            return fs
        if isinstance(f, ast.Name) and f.id in self.local_defs and not e.keywords \
                and not any(isinstance(a, ast.Starred) for a in e.args):
            # call of a nested one-expression function: its body with the arguments in place of the parameters
            lam_ast, lam_term = self.local_defs[f.id]
            names = [a.arg for a in lam_ast.args.args]
            free = {n.id for n in ast.walk(lam_ast.body) if isinstance(n, ast.Name)} - set(names)
            shadowed = any(f.id in sc or (free & set(sc)) for sc in self.scopes)
            if self.env.get(f.id, ("",))[0] == "lam" and len(names) == len(e.args) and not shadowed:
                def plain(a):
                    return isinstance(a, (ast.Name, ast.Constant)) or (isinstance(a, ast.Attribute) and plain(a.value))
                if all(plain(a) for a in e.args):
                    # arguments that are plain access paths are put into the body as they are written: the body is then read with
                    # their types (getLabels = methodcaller("m"); getLabels(self.x)  ==  self.x.m())
                    import copy
                    amap = dict(zip(names, e.args))

                    class _Subst(ast.NodeTransformer):
                        def visit_Name(self, node):
                            if isinstance(node.ctx, ast.Load) and node.id in amap:
                                return copy.deepcopy(amap[node.id])
                            return node
                    body2 = _Subst().visit(copy.deepcopy(lam_ast.body))
                    ast.copy_location(body2, e)
                    ast.fix_missing_locations(body2)
                    return self.norm(body2)
                scope = {n: self.norm(a) for n, a in zip(names, e.args)}
                self.scopes.append(scope)
                try:
                    return self.norm(lam_ast.body)
                finally:
                    self.scopes.pop()
        # super().m(...)
        callees = self.ctx.cg.resolve_call(self.fn, e) if not self.scopes_shadow(f) else [Callee("unknown")]
        repo = [c for c in callees if c.kind in ("fn", "ctor")]
        if repo and all(c.via != "name-fallback" for c in repo):
            c = repo[0]
            params = c.params(self.ctx.p)
            if c.kind == "ctor":
                if params is None:
                    args, kwargs = self._args(e)
                    return ("new", c.cls.qualname, tuple((f"#{i}", a) for i, a in enumerate(args)) + kwargs)
                return ("new", c.cls.qualname, self._bound(params, e))
            recv = None
            if c.fn.binds_self and c.via != "unbound":
                if isinstance(f, ast.Attribute):
                    if isinstance(f.value, ast.Call) and isinstance(f.value.func, ast.Name) and f.value.func.id == "super":
                        recv = self.lookup(self.fn.self_name or "self")
                    else:
                        recv = self.norm(f.value)
                elif isinstance(f, ast.Name):
                    # a bound method held in a local (`resolve = pair.resolveConflict; resolve()`): the receiver is the object the
                    # attribute was read from
                    held = self.norm(f)
                    if held[0] == "attr" and held[2] == c.fn.name.lstrip("_") or (held[0] == "attr" and held[2] == c.fn.name):
                        recv = held[1]
            if self.inline > 0 and (self.inline_ok is None or self.inline_ok(c.fn)) and len(repo) == 1:
                r = self._inline_call(c.fn, params, e, recv)
                if r is not None:
                    return r
            elif len(repo) == 1 and self.level < 12 and is_new_helper(c.fn) and c.fn is not self.fn \
                    and c.fn.qualname not in self.ctx.keep_calls:
                # a helper that did not exist on the pinned tree: read the call through its body
                saved = self.inline
                self.inline = saved + 1        # reading through a new helper does not use up the caller's inlining budget
                try:
                    r = self._inline_call(c.fn, params, e, recv)
                finally:
                    self.inline = saved
                if r is not None:
                    return r
            return ("app", c.fn.qualname, recv, self._bound(params, e))
        dotted = self._dotted_external(f)
        if dotted in ("functools.partial", "partial"):
            lam_ast = self._as_lambda_ast(e)
            if lam_ast is not None:
                ast.copy_location(lam_ast, e)
                ast.fix_missing_locations(lam_ast)
                return self.norm(lam_ast)
        if dotted in ("operator.attrgetter", "attrgetter", "operator.methodcaller", "methodcaller", "operator.itemgetter",
                      "itemgetter") and not e.keywords:
            lam_ast = self._as_lambda_ast(e)
            if lam_ast is not None:
                ast.copy_location(lam_ast, e)
                ast.fix_missing_locations(lam_ast)
                return self.norm(lam_ast)
        if dotted is not None:
            canon = self._canonical_iteration(dotted, e)
            if canon is not None:
                return canon
        args, kwargs = self._args(e)
        if dotted is not None:
            return T.mk_call(dotted, args, kwargs)
        if isinstance(f, ast.Attribute):
            recv0 = self.norm(f.value)
            if recv0[0] == "call" and recv0[1] == "re.compile" and len(recv0[2]) == 1 and not recv0[3] and \
                    f.attr in ("split", "sub", "subn", "match", "search", "fullmatch", "findall", "finditer") and not kwargs:
                return T.mk_call("re." + f.attr, [recv0[2][0]] + list(args))      # re.compile(P).split(s) == re.split(P, s)
            return ("mcall", recv0, f.attr, args, kwargs)
        fv = self.norm(f)
        if fv[0] == "lam" and fv[1] == 1 and len(args) == 1 and not kwargs and args[0][0] != "star":
            # a one-parameter lambda value applied on the spot (a selector handed in as an argument): its body at that argument
            inner = [x for x in T.subterms(fv[2]) if x[0] in ("lam", "comp")]
            bvs = {x for x in T.subterms(fv[2]) if x[0] == "bv"}
            b0 = fv[2]
            if b0[0] == "mcall" and b0[1][0] == "bv" and not b0[3] and not b0[4] and len(e.args) == 1 and \
                    isinstance(e.args[0], (ast.Name, ast.Attribute)):
                # methodcaller("m") applied to a plain access path: read as the method call it is, with the receiver's type
                import copy
                call2 = ast.Call(func=ast.Attribute(value=copy.deepcopy(e.args[0]), attr=b0[2], ctx=ast.Load()), args=[], keywords=[])
                ast.copy_location(call2, e)
                ast.fix_missing_locations(call2)
                return self.norm(call2)
            if not inner and len(bvs) <= 1:
                return T.substitute(fv[2], {b: args[0] for b in bvs})
        if fv[0] == "lam" and fv[1] == len(args) and fv[1] >= 2 and not kwargs and self.level == 0 and \
                not any(a[0] == "star" for a in args) and not any(x[0] == "bv" for a in args for x in T.subterms(a)):
            # a local function / lambda of several parameters bound at statement level (its parameters are bv 0..n-1) and applied at
            # statement level: its body with the arguments in place, inner binders renumbered
            n_par = fv[1]
            bvs = {x for x in T.subterms(fv[2]) if x[0] == "bv"}
            mapping = {}
            for b0 in bvs:
                mapping[b0] = args[b0[1]] if b0[1] < n_par else ("bv", b0[1] - n_par)
            return T.substitute(fv[2], mapping)
        if fv[0] == "fn" and fv[1] in self.ctx.p.functions:
            # a static method / module function taken as a value (a factory handed to a helper) and called there
            g = self.ctx.p.functions[fv[1]]
            if not g.binds_self and not g.is_lambda and not any(isinstance(a, ast.Starred) for a in e.args) and \
                    not any(k.arg is None for k in e.keywords):
                return ("app", g.qualname, None, self._bound(g.call_params(), e))
        if fv[0] == "attr" and fv[1][0] == "new" and fv[1][1] in self.ctx.p.classes:
            # a bound method taken as a value (reader.readQueries handed to a helper) and called there: the method call it is
            m = self.ctx.p.lookup_method(self.ctx.p.classes[fv[1][1]], fv[2], None)
            if m is not None and m.binds_self and not any(isinstance(a, ast.Starred) for a in e.args) and \
                    not any(k.arg is None for k in e.keywords):
                return ("app", m.qualname, fv[1], self._bound(m.call_params(), e))
        return ("mcall", fv, "__call__", args, kwargs)

    # ------------------------------------------------------------------ iteration idioms -> comprehensions
    def _canonical_iteration(self, dotted: str, e: ast.Call) -> Optional[Term]:
        """map(f, xs) / filter(f, xs) / chain.from_iterable(<comprehension>) / chain(a, b) are read as the comprehension (or
        concatenation) they abbreviate, so a rule sees one shape whichever way the code is written."""
        if e.keywords or any(isinstance(a, ast.Starred) for a in e.args):
            return None
        if dotted in ("itertools.filterfalse", "filterfalse") and len(e.args) == 2:
            f, xs = e.args
            lam = self._as_lambda_ast(f)
            if lam is not None:
                neg = ast.Lambda(args=lam.args, body=ast.UnaryOp(op=ast.Not(), operand=lam.body))
                call = ast.Call(func=ast.Name(id="filter", ctx=ast.Load()), args=[neg, xs], keywords=[])
                ast.copy_location(call, e)
                ast.fix_missing_locations(call)
                return self._canonical_iteration("filter", call)
            return None
        if dotted in ("functools.reduce", "reduce") and len(e.args) == 3 and isinstance(e.args[2], ast.List) and not e.args[2].elts \
                and self._dotted_external(e.args[0]) in ("operator.iconcat", "iconcat", "operator.concat", "concat", "operator.add", "add"):
            # reduce(iconcat, lists, []) == list(chain.from_iterable(lists))
            inner = self.norm(e.args[1])
            if inner[0] == "comp" and inner[1] in ("list", "gen", "tuple"):
                n = len(inner[3])
                return ("comp", "list", ("bv", self.level + n), inner[3] + ((inner[2], ()),))
            return ("comp", "list", ("bv", self.level + 1), ((inner, ()), (("bv", self.level), ())))
        if dotted == "zip" and len(e.args) == 2:
            # zip(repeat(c), xs) == ((c, x) for x in xs)
            def rep(a):
                return isinstance(a, ast.Call) and self._dotted_external(a.func) in ("itertools.repeat", "repeat") \
                    and len(a.args) == 1 and not a.keywords
            a0, a1 = e.args
            if rep(a0) != rep(a1):
                var = f"__it{self.level}"
                load = ast.Name(id=var, ctx=ast.Load())
                const, xs = (a0.args[0], a1) if rep(a0) else (a1.args[0], a0)
                elt = ast.Tuple(elts=[const, load] if rep(a0) else [load, const], ctx=ast.Load())
                gen = ast.GeneratorExp(elt=elt, generators=[ast.comprehension(target=ast.Name(id=var, ctx=ast.Store()), iter=xs,
                                                                              ifs=[], is_async=0)])
                ast.copy_location(gen, e)
                ast.fix_missing_locations(gen)
                return self.norm(gen)
            return None
        if dotted in ("map", "filter") and len(e.args) == 2:
            f, xs = e.args
            lam_f = self._as_lambda_ast(f) if isinstance(f, ast.Call) else None
            if lam_f is not None:
                f = lam_f
            var = f"__it{self.level}"
            if isinstance(f, ast.Lambda) and len(f.args.args) == 1 and not f.args.posonlyargs and not f.args.kwonlyargs \
                    and f.args.vararg is None and not f.args.defaults:
                target = ast.Name(id=f.args.args[0].arg, ctx=ast.Store())
                body = f.body
                load = ast.Name(id=f.args.args[0].arg, ctx=ast.Load())
            elif isinstance(f, ast.Constant) and f.value is None and dotted == "filter":
                target = ast.Name(id=var, ctx=ast.Store())
                load = ast.Name(id=var, ctx=ast.Load())
                body = load
            elif isinstance(f, (ast.Name, ast.Attribute)):
                target = ast.Name(id=var, ctx=ast.Store())
                load = ast.Name(id=var, ctx=ast.Load())
                body = ast.Call(func=f, args=[load], keywords=[])
            else:
                return None
            if dotted == "map":
                gen = ast.GeneratorExp(elt=body, generators=[ast.comprehension(target=target, iter=xs, ifs=[], is_async=0)])
            else:
                gen = ast.GeneratorExp(elt=load, generators=[ast.comprehension(target=target, iter=xs, ifs=[body], is_async=0)])
            ast.copy_location(gen, e)
            ast.fix_missing_locations(gen)
            return self.norm(gen)
        if dotted in ("itertools.chain.from_iterable", "chain.from_iterable") and len(e.args) == 1:
            inner = self.norm(e.args[0])
            if inner[0] == "comp" and inner[1] in ("list", "gen", "tuple"):
                n = len(inner[3])
                return ("comp", "gen", ("bv", self.level + n), inner[3] + ((inner[2], ()),))
            return None
        if dotted in ("itertools.chain", "chain") and len(e.args) >= 2:
            return ("concat", tuple(self.norm(a) for a in e.args))
        return None

    def _as_lambda_ast(self, f: ast.expr):
        """operator.attrgetter('a.b') / methodcaller('m', x) / itemgetter(k) / a Name or Attribute / a lambda  ->  ast.Lambda"""
        def lam(body, name="__op"):
            return ast.Lambda(args=ast.arguments(posonlyargs=[], args=[ast.arg(arg=name)], kwonlyargs=[], kw_defaults=[],
                                                 defaults=[]), body=body)
        if isinstance(f, ast.Lambda):
            return f if len(f.args.args) == 1 else None
        if isinstance(f, (ast.Name, ast.Attribute)):
            return lam(ast.Call(func=f, args=[ast.Name(id="__op", ctx=ast.Load())], keywords=[]))
        if isinstance(f, ast.Call) and self._dotted_external(f.func) in ("functools.partial", "partial") and f.args \
                and not any(isinstance(a, ast.Starred) for a in f.args) and not any(k.arg is None for k in f.keywords):
            # partial(g, a, b, k=c)  ==  lambda x: g(a, b, x, k=c)      (as far as one further positional argument goes)
            return lam(ast.Call(func=f.args[0], args=list(f.args[1:]) + [ast.Name(id="__op", ctx=ast.Load())],
                                keywords=list(f.keywords)))
        if isinstance(f, ast.Call) and not f.keywords:
            name = self._dotted_external(f.func)
            x = ast.Name(id="__op", ctx=ast.Load())
            if name in ("operator.attrgetter", "attrgetter") and len(f.args) == 1 and isinstance(f.args[0], ast.Constant) \
                    and isinstance(f.args[0].value, str):
                body = x
                for part in f.args[0].value.split("."):
                    body = ast.Attribute(value=body, attr=part, ctx=ast.Load())
                return lam(body)
            if name in ("operator.methodcaller", "methodcaller") and f.args and isinstance(f.args[0], ast.Constant) \
                    and isinstance(f.args[0].value, str):
                return lam(ast.Call(func=ast.Attribute(value=x, attr=f.args[0].value, ctx=ast.Load()), args=list(f.args[1:]),
                                    keywords=[]))
            if name in ("operator.itemgetter", "itemgetter") and len(f.args) == 1:
                return lam(ast.Subscript(value=x, slice=f.args[0], ctx=ast.Load()))
            if name in ("operator.itemgetter", "itemgetter") and len(f.args) > 1 and not any(isinstance(a, ast.Starred) for a in f.args):
                return lam(ast.Tuple(elts=[ast.Subscript(value=x, slice=a, ctx=ast.Load()) for a in f.args], ctx=ast.Load()))
            if name in ("operator.attrgetter", "attrgetter") and len(f.args) > 1 and all(
                    isinstance(a, ast.Constant) and isinstance(a.value, str) for a in f.args):
                elts = []
                for a in f.args:
                    body = x
                    for part in a.value.split("."):
                        body = ast.Attribute(value=body, attr=part, ctx=ast.Load())
                    elts.append(body)
                return lam(ast.Tuple(elts=elts, ctx=ast.Load()))
        return None

    def scopes_shadow(self, f: ast.expr) -> bool:
        """True when the callee expression is rooted at a bound variable (lambda parameter, comprehension
        target) whose type the flow-insensitive inference cannot be trusted for."""
        return False

    def _bound(self, params, call: ast.Call) -> Tuple[Tuple[str, Term], ...]:
        binding, exact = bind_args(params, call)
        out = []
        for p in params:
            if p.name in binding:
                arg = binding[p.name]
                # an argument that spells out the parameter's constant default is the same call as leaving it out
                if isinstance(arg, ast.Constant) and isinstance(p.default, ast.Constant) and arg.value == p.default.value \
                        and type(arg.value) is type(p.default.value):
                    continue
                out.append((p.name, self.norm(arg)))
        if not exact:
            # f(*args) where args is a local that holds a tuple / list display: the positional call it abbreviates
            flat = []
            expandable = not any(kw.arg is None for kw in call.keywords)
            for a in call.args:
                if isinstance(a, ast.Starred):
                    t = self.norm(a.value)
                    if t[0] == "call" and t[1] == "reversed" and len(t[2]) == 1 and t[2][0][0] in ("tuple", "list") \
                            and not any(x[0] == "star" for x in t[2][0][1]):
                        t = (t[2][0][0], tuple(reversed(t[2][0][1])))          # f(*reversed((a, b))) == f(b, a)
                    if t[0] in ("tuple", "list") and not any(x[0] == "star" for x in t[1]):
                        flat.extend(t[1])
                    else:
                        expandable = False
                        break
                else:
                    flat.append(self.norm(a))
            if expandable:
                pos = [p for p in params if p.kind == "pos"]
                kwnames = {kw.arg for kw in call.keywords}
                out = [(k, v) for k, v in out if k in kwnames]
                head = []
                for p, t in zip(pos, flat):
                    if isinstance(p.default, ast.Constant) and t == C(p.default.value):
                        continue
                    head.append((p.name, t))
                out = head + out
                for kw in call.keywords:
                    if kw.arg is not None and kw.arg not in {p.name for p in params}:
                        out.append((kw.arg, self.norm(kw.value)))
                return tuple(out)
            out.append(("*", ("tuple", tuple(self.norm(a) for a in call.args))))
        for kw in call.keywords:
            if kw.arg is not None and kw.arg not in {p.name for p in params}:
                out.append((kw.arg, self.norm(kw.value)))
        return tuple(out)

    # ------------------------------------------------------------------ inlining
    def _inline_call(self, callee: FunctionInfo, params, call: ast.Call, recv: Optional[Term]) -> Optional[Term]:
        binding, exact = bind_args(params, call)
        if not exact:
            return None
        env: Dict[str, Term] = {}
        for p in params:
            if p.name in binding:
                env[p.name] = self.norm(binding[p.name])
            elif p.default is not None:
                env[p.name] = Normalizer(self.ctx, callee, {}, {}, self.level).norm(p.default)
            else:
                return None
        return self._inline_body(callee, env, recv)

    def _inline_property(self, e: ast.Attribute, base: Term) -> Optional[Term]:
        try:
            bt = self.ctx.t.type_of(self.fn, e.value)
        except RecursionError:  # pragma: no cover
            return None
        if not isinstance(bt, Inst):
            return None
        ms = self.ctx.p.lookup_overrides(bt.cls, e.attr, self.cls)
        if len(ms) != 1 or not ms[0].is_property:
            return None
        if self.inline_ok is not None and not self.inline_ok(ms[0]) and not is_new_helper(ms[0]):
            return None
        return self._inline_body(ms[0], {}, base)

    def _inline_body(self, callee: FunctionInfo, env: Dict[str, Term], recv: Optional[Term]) -> Optional[Term]:
        if callee.is_lambda:
            body = callee.body
        else:
            body = list(callee.node.body)
        if callee.self_name and recv is not None:
            env[callee.self_name] = recv
        sub = Normalizer(self.ctx, callee, env, {}, self.level, self.inline - 1, self.inline_ok)
        r = sub._body_to_term(body)
        if r is not None:
            self.inlined.append(callee.qualname)
            self.inlined.extend(sub.inlined)
        return r

    def _body_to_term(self, stmts: List[ast.stmt]) -> Optional[Term]:
        """Term returned by a simple body: straight-line assignments, if/else trees of returns."""
        for i, s in enumerate(stmts):
            if isinstance(s, ast.Expr) and isinstance(s.value, ast.Constant) and isinstance(s.value.value, str):
                continue
            if isinstance(s, ast.Pass):
                continue
            if isinstance(s, ast.Assign) and len(s.targets) == 1:
                v = self.norm(s.value)
                tg = s.targets[0]
                if isinstance(tg, ast.Name):
                    self.env[tg.id] = v
                    continue
                if isinstance(tg, (ast.Tuple, ast.List)) and all(isinstance(x, ast.Name) for x in tg.elts):
                    for j, x in enumerate(tg.elts):
                        self.env[x.id] = T.mk_idx(v, C(j))
                    continue
                return None
            if isinstance(s, ast.AnnAssign) and isinstance(s.target, ast.Name) and s.value is not None:
                self.env[s.target.id] = self.norm(s.value)
                continue
            if isinstance(s, ast.Return):
                return self.norm(s.value) if s.value is not None else T.NONE
            if isinstance(s, ast.Expr) and isinstance(s.value, ast.Call) and isinstance(s.value.func, ast.Attribute) \
                    and isinstance(s.value.func.value, ast.Name) and s.value.func.value.id in self.env \
                    and s.value.func.attr in ("sort", "reverse", "append", "extend"):
                call = s.value
                name = call.func.value.id
                cur = self.env[name]
                if call.func.attr == "sort" and not call.args:
                    kwargs = tuple((k.arg, self.norm(k.value)) for k in call.keywords if k.arg is not None)
                    self.env[name] = T.mk_call("sorted", [cur], kwargs)
                    continue
                if call.func.attr == "reverse" and not call.args and not call.keywords:
                    self.env[name] = ("slice", cur, T.NONE, T.NONE, C(-1))
                    continue
                if call.func.attr == "append" and len(call.args) == 1 and cur[0] == "list":
                    self.env[name] = ("list", cur[1] + (self.norm(call.args[0]),))
                    continue
                return None
            if isinstance(s, ast.With) and all(it.optional_vars is None for it in s.items):
                # `with file:` around the statements: closing the file is not part of the value
                return self._body_to_term(list(s.body) + list(stmts[i + 1:]))
            if isinstance(s, ast.Expr) and isinstance(s.value, ast.YieldFrom) and i == len(stmts) - 1:
                return self.norm(s.value.value)          # a generator that only delegates: its value is what it delegates to
            if isinstance(s, ast.If):
                c = T.as_bool(self.norm(s.test, True))
                saved = dict(self.env)
                a = self._body_to_term(s.body)
                self.env.clear()
                self.env.update(saved)
                if a is None:
                    return None
                rest = list(s.orelse) + list(stmts[i + 1:])
                bterm = self._body_to_term(rest)
                self.env.clear()
                self.env.update(saved)
                if bterm is None:
                    return None
                return T.mk_select(c, a, bterm)
            if isinstance(s, ast.For) and i == len(stmts) - 1:
                # a generator function that is nothing but a loop nest around one `yield E`  ==  (E for ... in ... if ...)
                gens = []
                node = s
                while True:
                    if isinstance(node, ast.For) and not node.orelse and len(node.body) == 1:
                        gens.append(ast.comprehension(target=node.target, iter=node.iter, ifs=[], is_async=0))
                        node = node.body[0]
                    elif isinstance(node, ast.If) and not node.orelse and len(node.body) == 1 and gens:
                        gens[-1].ifs.append(node.test)
                        node = node.body[0]
                    else:
                        break
                if isinstance(node, ast.Expr) and isinstance(node.value, ast.Yield) and node.value.value is not None and gens:
                    gen = ast.GeneratorExp(elt=node.value.value, generators=gens)
                    ast.copy_location(gen, s)
                    ast.fix_missing_locations(gen)
                    return self.norm(gen)
                if isinstance(node, ast.Expr) and isinstance(node.value, ast.YieldFrom) and gens:
                    var = ast.Name(id=f"__y{self.level}", ctx=ast.Load())
                    gens.append(ast.comprehension(target=ast.Name(id=var.id, ctx=ast.Store()), iter=node.value.value, ifs=[],
                                                  is_async=0))
                    gen = ast.GeneratorExp(elt=var, generators=gens)
                    ast.copy_location(gen, s)
                    ast.fix_missing_locations(gen)
                    return self.norm(gen)
                return None
            return None
        return None


def _terminates(stmts: List[ast.stmt]) -> bool:
    if not stmts:
        return False
    last = stmts[-1]
    if isinstance(last, (ast.Return, ast.Raise)):
        return True
    if isinstance(last, ast.If):
        return bool(last.orelse) and _terminates(last.body) and _terminates(last.orelse)
    return False


def norm_in(ctx: Ctx, fn: FunctionInfo, e: ast.expr, boolctx=False, env=None, inline=0) -> Term:
    return Normalizer(ctx, fn, env=env, inline=inline).norm(e, boolctx)

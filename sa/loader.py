"""Loader: parses the repository and builds module / class / function tables.

Nothing is imported from the repository; everything comes from ``ast.parse`` of the files
found under <repo>/src, <repo>/sv and <repo>/tests (tests are parsed only so that rules can
exclude them).
"""
from __future__ import annotations

import ast
import hashlib
import os
from dataclasses import dataclass, field
from typing import Dict, List, Optional, Tuple, Iterator


class AnalysisError(Exception):
    """The analysis cannot give a verdict (anchor vanished, idiom not recognised).
    Never reported as a violation; the CLI turns it into exit status 2."""


def repo_root() -> str:
    return os.environ.get("SA_REPO", "/repo")


SOURCE_DIRS = ("src", "sv", "tests")


def mangle(name: str, class_name: Optional[str]) -> str:
    """Python private-name mangling."""
    if class_name and name.startswith("__") and not name.endswith("__"):
        stripped = class_name.lstrip("_")
        if stripped:
            return "_" + stripped + name
    return name


@dataclass
class Param:
    name: str
    annotation: Optional[ast.expr]
    default: Optional[ast.expr]
    kind: str  # 'pos', 'kwonly', 'vararg', 'kwarg'


@dataclass
class FunctionInfo:
    qualname: str            # "src.alignment.aligner:AlignerEngine.align"
    name: str                # name as written ("__align"), "<lambda>" for lambdas
    module: "Module"
    node: ast.AST            # FunctionDef | Lambda
    cls: Optional["ClassInfo"]          # class whose body directly contains the def
    enclosing_class: Optional["ClassInfo"]  # class lexically around it (for mangling / self)
    parent: Optional["FunctionInfo"]    # lexically enclosing function
    decorators: List[str] = field(default_factory=list)
    params: List[Param] = field(default_factory=list)
    children: List["FunctionInfo"] = field(default_factory=list)

    @property
    def is_static(self) -> bool:
        return "staticmethod" in self.decorators

    @property
    def is_classmethod(self) -> bool:
        return "classmethod" in self.decorators

    @property
    def is_property(self) -> bool:
        return "property" in self.decorators

    @property
    def is_method(self) -> bool:
        return self.cls is not None and isinstance(self.node, (ast.FunctionDef, ast.AsyncFunctionDef))

    @property
    def is_lambda(self) -> bool:
        return isinstance(self.node, ast.Lambda)

    @property
    def binds_self(self) -> bool:
        return self.is_method and not self.is_static

    def call_params(self) -> List[Param]:
        """Parameters as seen by a caller of the bound method / function."""
        ps = [p for p in self.params if p.kind in ("pos", "kwonly")]
        if self.binds_self and ps:
            return ps[1:]
        return ps

    @property
    def self_name(self) -> Optional[str]:
        if self.binds_self and self.params:
            return self.params[0].name
        return None

    @property
    def lineno(self) -> int:
        return getattr(self.node, "lineno", 0)

    @property
    def body(self) -> List[ast.stmt]:
        if isinstance(self.node, ast.Lambda):
            r = ast.Return(value=self.node.body)
            ast.copy_location(r, self.node.body)
            return [r]
        return self.node.body

    @property
    def where(self) -> str:
        return f"{self.module.relpath}:{self.lineno}"

    def __repr__(self):
        return f"<fn {self.qualname}>"

    def __hash__(self):
        return hash(self.qualname)

    def __eq__(self, other):
        return isinstance(other, FunctionInfo) and other.qualname == self.qualname


@dataclass
class Field:
    name: str
    annotation: Optional[ast.expr]
    default: Optional[ast.expr]


@dataclass
class ClassInfo:
    qualname: str            # "src.alignment.segments:AlignmentSegment"
    name: str
    module: "Module"
    node: ast.ClassDef
    base_exprs: List[ast.expr]
    bases: List["ClassInfo"] = field(default_factory=list)        # resolved repo bases
    external_bases: List[str] = field(default_factory=list)
    methods: Dict[str, FunctionInfo] = field(default_factory=dict)  # key = mangled name
    fields: List[Field] = field(default_factory=list)               # annotated class-level names, in order
    class_assigns: Dict[str, ast.expr] = field(default_factory=dict)
    decorators: List[str] = field(default_factory=list)
    subclasses: List["ClassInfo"] = field(default_factory=list)

    @property
    def is_dataclass(self) -> bool:
        return any(d.split("(")[0] in ("dataclass", "dataclasses.dataclass") for d in self.decorators)

    @property
    def is_namedtuple(self) -> bool:
        return "NamedTuple" in self.external_bases or "typing.NamedTuple" in self.external_bases

    @property
    def is_enum(self) -> bool:
        return any(b.split(".")[-1] in ("Enum", "IntEnum") for b in self.external_bases)

    @property
    def where(self) -> str:
        return f"{self.module.relpath}:{self.node.lineno}"

    def __repr__(self):
        return f"<class {self.qualname}>"

    def __hash__(self):
        return hash(self.qualname)

    def __eq__(self, other):
        return isinstance(other, ClassInfo) and other.qualname == self.qualname


@dataclass
class Module:
    name: str                # dotted ("src.alignment.aligner", "sv.read_files")
    path: str
    relpath: str
    source: str
    tree: ast.Module
    is_test: bool
    imports: Dict[str, Tuple] = field(default_factory=dict)
    classes: Dict[str, ClassInfo] = field(default_factory=dict)
    functions: Dict[str, FunctionInfo] = field(default_factory=dict)   # module-level functions
    assigns: Dict[str, ast.expr] = field(default_factory=dict)         # module-level NAME = expr
    attr_assigns: List[ast.Assign] = field(default_factory=list)       # module-level a.b = expr

    def __repr__(self):
        return f"<module {self.name}>"


def _synthesised_dataclass_init(ci) -> Optional[ast.FunctionDef]:
    """The `__init__` that `@dataclass` generates, written out (so that a plain class turned into a dataclass - same constructor
    signature - reads the same): parameters from the annotated fields in order, `self.f = f`, defaults / default factories of
    `field(init=False, ...)` fields assigned, `__post_init__()` called. None when the class is no dataclass, defines `__init__`
    itself, switches generation off, or inherits dataclass fields (bases are not merged here)."""
    if not ci.is_dataclass or "__init__" in ci.methods:
        return None
    if any("init=False" in d.replace(" ", "") for d in ci.decorators if d.split("(")[0].endswith("dataclass")):
        return None
    params, body = [], []
    for f in ci.fields:
        if _is_classvar(f.annotation):
            continue
        d = f.default
        init, default = True, d
        if isinstance(d, ast.Call) and ast.unparse(d.func).split(".")[-1] == "field":
            kw = {k.arg: k.value for k in d.keywords if k.arg}
            init = not (isinstance(kw.get("init"), ast.Constant) and kw["init"].value is False)
            default = kw.get("default")
            if default is None and kw.get("default_factory") is not None:
                default = ast.Call(func=kw["default_factory"], args=[], keywords=[])
        ann = ast.unparse(f.annotation) if f.annotation is not None else None
        if init:
            params.append(f.name + (f": {ann}" if ann else "") + (f" = {ast.unparse(default)}" if default is not None else ""))
            body.append(f"self.{f.name} = {f.name}")
        elif default is not None:
            body.append(f"self.{f.name} = {ast.unparse(default)}")
    if "__post_init__" in ci.methods:
        body.append("self.__post_init__()")
    src = "def __init__(self" + "".join(", " + x for x in params) + "):\n" + "".join("    " + b + "\n" for b in body or ["pass"])
    try:
        node = ast.parse(src).body[0]
    except SyntaxError:
        return None
    for n in ast.walk(node):
        if hasattr(n, "lineno"):
            n.lineno = ci.node.lineno
            n.end_lineno = ci.node.lineno
    return node


def _decorator_name(d: ast.expr) -> str:
    try:
        return ast.unparse(d)
    except Exception:  # pragma: no cover
        return "?"


def _params_of(args: ast.arguments) -> List[Param]:
    out: List[Param] = []
    posonly = list(args.posonlyargs) + list(args.args)
    defaults = [None] * (len(posonly) - len(args.defaults)) + list(args.defaults)
    for a, d in zip(posonly, defaults):
        out.append(Param(a.arg, a.annotation, d, "pos"))
    if args.vararg:
        out.append(Param(args.vararg.arg, args.vararg.annotation, None, "vararg"))
    for a, d in zip(args.kwonlyargs, args.kw_defaults):
        out.append(Param(a.arg, a.annotation, d, "kwonly"))
    if args.kwarg:
        out.append(Param(args.kwarg.arg, args.kwarg.annotation, None, "kwarg"))
    return out


class Program:
    """The parsed repository."""

    def __init__(self, root: Optional[str] = None, overlay: Optional[Dict[str, str]] = None):
        """overlay: relative path -> source text that replaces the file on disk (used by the self-test to analyse
        an edited variant of the current tree without writing it anywhere)."""
        self.overlay = dict(overlay or {})
        self.root = os.path.abspath(root or repo_root())
        self.modules: Dict[str, Module] = {}
        self.classes: Dict[str, ClassInfo] = {}
        self.functions: Dict[str, FunctionInfo] = {}
        self.fn_of_node: Dict[int, FunctionInfo] = {}
        self.parse_errors: List[str] = []
        self._load()
        self._link()

    # ------------------------------------------------------------------ loading
    def _load(self):
        if not os.path.isdir(os.path.join(self.root, "src")):
            raise AnalysisError(f"repository sources not found under {self.root}/src")
        for top in SOURCE_DIRS:
            base = os.path.join(self.root, top)
            if not os.path.isdir(base):
                continue
            for dirpath, dirnames, filenames in os.walk(base):
                dirnames[:] = sorted(d for d in dirnames if d != "__pycache__" and not d.startswith("."))
                for fn in sorted(filenames):
                    if not fn.endswith(".py"):
                        continue
                    path = os.path.join(dirpath, fn)
                    rel = os.path.relpath(path, self.root)
                    modname = rel[:-3].replace(os.sep, ".")
                    if modname.endswith(".__init__"):
                        modname = modname[: -len(".__init__")]
                    try:
                        if rel in self.overlay:
                            src = self.overlay[rel]
                        else:
                            with open(path, encoding="utf-8") as f:
                                src = f.read()
                        tree = ast.parse(src, filename=path)
                        from .desugar import desugar
                        tree = desugar(tree)
                    except (SyntaxError, UnicodeDecodeError, OSError) as e:
                        self.parse_errors.append(f"{rel}: {e}")
                        continue
                    m = Module(modname, path, rel, src, tree, is_test=(top == "tests"))
                    self.modules[modname] = m
        # files that exist only in the overlay (a variant that adds a module)
        for rel, src in sorted(self.overlay.items()):
            modname = rel[:-3].replace("/", ".")
            if not rel.endswith(".py") or modname in self.modules or rel.split("/")[0] not in SOURCE_DIRS:
                continue
            if os.path.exists(os.path.join(self.root, rel)):
                continue
            try:
                tree = ast.parse(src, filename=rel)
                from .desugar import desugar
                tree = desugar(tree)
            except SyntaxError as e:
                self.parse_errors.append(f"{rel}: {e}")
                continue
            if modname.endswith(".__init__"):
                modname = modname[: -len(".__init__")]
            self.modules[modname] = Module(modname, os.path.join(self.root, rel), rel, src, tree, is_test=rel.startswith("tests"))
        for m in self.modules.values():
            self._index_module(m)

    def _index_module(self, m: Module):
        for stmt in m.tree.body:
            self._index_stmt_imports(m, stmt)
        # imports inside functions / classes: visible module-wide for resolution purposes (approximation)
        for node in ast.walk(m.tree):
            if isinstance(node, (ast.Import, ast.ImportFrom)):
                saved = dict(m.imports)
                self._index_stmt_imports(m, node)
                for k, v in saved.items():     # top-level imports win
                    m.imports[k] = v
        counter = {"n": 0}

        def visit_body(body, cls: Optional[ClassInfo], encl_cls: Optional[ClassInfo],
                       parent: Optional[FunctionInfo], prefix: str):
            for stmt in body:
                visit_stmt(stmt, cls, encl_cls, parent, prefix)

        def register_function(node, name, cls, encl_cls, parent, prefix) -> FunctionInfo:
            q = f"{m.name}:{prefix}{name}"
            if q in self.functions:   # redefinition: keep distinct
                counter["n"] += 1
                q = f"{q}#{counter['n']}"
            decos = [_decorator_name(d) for d in getattr(node, "decorator_list", [])]
            fi = FunctionInfo(q, name, m, node, cls, encl_cls, parent, decos, _params_of(node.args))
            self.functions[q] = fi
            self.fn_of_node[id(node)] = fi
            if parent is not None:
                parent.children.append(fi)
            return fi

        def visit_expr_lambdas(expr_root, encl_cls, parent, prefix):
            """register lambdas found in an expression/statement (not descending into nested defs)"""
            lam_index = [0]

            def walk(n):
                for child in ast.iter_child_nodes(n):
                    if isinstance(child, (ast.FunctionDef, ast.AsyncFunctionDef, ast.ClassDef)):
                        continue
                    if isinstance(child, ast.Lambda):
                        lam_index[0] += 1
                        name = f"<lambda@{child.lineno}:{child.col_offset}>"
                        fi = register_function(child, name, None, encl_cls, parent, prefix)
                        fi.name = "<lambda>"
                        walk_lambda_body(child, fi, encl_cls, prefix + name + ".")
                    else:
                        walk(child)

            def walk_lambda_body(lam, fi, encl_cls, pfx):
                visit_expr_lambdas(lam.body, encl_cls, fi, pfx) if not isinstance(lam.body, ast.Lambda) else \
                    visit_expr_lambdas(ast.Expr(value=lam.body), encl_cls, fi, pfx)

            walk(expr_root)

        def visit_stmt(stmt, cls, encl_cls, parent, prefix):
            if isinstance(stmt, (ast.FunctionDef, ast.AsyncFunctionDef)):
                fi = register_function(stmt, stmt.name, cls, encl_cls, parent, prefix)
                if cls is not None:
                    cls.methods[mangle(stmt.name, cls.name)] = fi
                elif parent is None:
                    m.functions[stmt.name] = fi
                # defaults / decorators may hold lambdas
                for d in stmt.args.defaults + [k for k in stmt.args.kw_defaults if k is not None]:
                    visit_expr_lambdas(ast.Expr(value=d), encl_cls, parent, prefix)
                inner_prefix = prefix + stmt.name + "."
                visit_body(stmt.body, None, encl_cls, fi, inner_prefix)
            elif isinstance(stmt, ast.ClassDef):
                q = f"{m.name}:{prefix}{stmt.name}"
                ci = ClassInfo(q, stmt.name, m, stmt, list(stmt.bases),
                               decorators=[_decorator_name(d) for d in stmt.decorator_list])
                self.classes[q] = ci
                if parent is None and cls is None:
                    m.classes[stmt.name] = ci
                for s in stmt.body:
                    if isinstance(s, ast.AnnAssign) and isinstance(s.target, ast.Name):
                        ci.fields.append(Field(s.target.id, s.annotation, s.value))
                        if s.value is not None:
                            ci.class_assigns[s.target.id] = s.value
                    elif isinstance(s, ast.Assign):
                        for t in s.targets:
                            if isinstance(t, ast.Name):
                                ci.class_assigns[t.id] = s.value
                visit_body(stmt.body, ci, ci, parent, prefix + stmt.name + ".")
                synth = _synthesised_dataclass_init(ci)
                if synth is not None:
                    fi = register_function(synth, "__init__", ci, ci, parent, prefix + stmt.name + ".")
                    ci.methods["__init__"] = fi
            else:
                # compound statements: descend into nested bodies, register lambdas of the header parts
                for fname, value in ast.iter_fields(stmt):
                    if isinstance(value, list) and value and isinstance(value[0], ast.stmt):
                        visit_body(value, cls, encl_cls, parent, prefix)
                    elif isinstance(value, list):
                        for v in value:
                            if isinstance(v, ast.AST):
                                if isinstance(v, ast.ExceptHandler):
                                    visit_body(v.body, cls, encl_cls, parent, prefix)
                                elif isinstance(v, ast.match_case):
                                    visit_body(v.body, cls, encl_cls, parent, prefix)
                                else:
                                    visit_expr_lambdas(_wrap(v), encl_cls, parent, prefix)
                    elif isinstance(value, ast.AST):
                        visit_expr_lambdas(_wrap(value), encl_cls, parent, prefix)
                if parent is None and cls is None:
                    if isinstance(stmt, ast.Assign):
                        for t in stmt.targets:
                            if isinstance(t, ast.Name):
                                m.assigns[t.id] = stmt.value
                            elif isinstance(t, ast.Attribute):
                                m.attr_assigns.append(stmt)
                    elif isinstance(stmt, ast.AnnAssign) and isinstance(stmt.target, ast.Name) and stmt.value:
                        m.assigns[stmt.target.id] = stmt.value

        def _wrap(v):
            w = ast.Expr(value=v) if isinstance(v, ast.expr) else v
            return ast.Module(body=[w], type_ignores=[]) if not isinstance(w, ast.Module) else w

        visit_body(m.tree.body, None, None, None, "")

    def _index_stmt_imports(self, m: Module, stmt: ast.stmt):
        if isinstance(stmt, ast.Import):
            for a in stmt.names:
                local = a.asname or a.name.split(".")[0]
                target = a.name if a.asname else a.name.split(".")[0]
                m.imports[local] = ("module", target)
        elif isinstance(stmt, ast.ImportFrom):
            mod = stmt.module or ""
            if stmt.level:
                parts = m.name.split(".")
                basepkg = parts[: len(parts) - stmt.level]
                mod = ".".join(basepkg + ([mod] if mod else []))
            for a in stmt.names:
                m.imports[a.asname or a.name] = ("symbol", mod, a.name)
        elif isinstance(stmt, (ast.If, ast.Try)):
            for s in ast.walk(stmt):
                if s is not stmt and isinstance(s, (ast.Import, ast.ImportFrom)):
                    self._index_stmt_imports(m, s)

    # ------------------------------------------------------------------ linking
    def _link(self):
        for ci in self.classes.values():
            for b in ci.base_exprs:
                target = self.resolve_name_expr(ci.module, b)
                if isinstance(target, ClassInfo):
                    ci.bases.append(target)
                    target.subclasses.append(ci)
                else:
                    try:
                        ci.external_bases.append(ast.unparse(b))
                    except Exception:  # pragma: no cover
                        ci.external_bases.append("?")

    def _module_for_import(self, importing: Module, dotted: str) -> Optional[Module]:
        if dotted in self.modules:
            return self.modules[dotted]
        # sv/ scripts import siblings by bare name (sys.path hack)
        pkg = importing.name.rsplit(".", 1)[0] if "." in importing.name else ""
        cand = f"{pkg}.{dotted}" if pkg else dotted
        if cand in self.modules:
            return self.modules[cand]
        return None

    def resolve_symbol(self, module: Module, name: str, _depth=0):
        """Resolve a bare name used in `module` to ClassInfo | FunctionInfo | Module | ('external', dotted) | None."""
        if _depth > 8:
            return None
        if name in module.classes:
            return module.classes[name]
        if name in module.functions:
            return module.functions[name]
        imp = module.imports.get(name)
        if imp:
            if imp[0] == "module":
                target = self._module_for_import(module, imp[1])
                return target if target else ("external", imp[1])
            _, mod, sym = imp
            target = self._module_for_import(module, mod)
            if target is None:
                # "from pkg import submodule"
                sub = self._module_for_import(module, f"{mod}.{sym}" if mod else sym)
                if sub:
                    return sub
                return ("external", f"{mod}.{sym}" if mod else sym)
            r = self.resolve_symbol(target, sym, _depth + 1)
            if r is None:
                sub = self._module_for_import(module, f"{mod}.{sym}")
                if sub:
                    return sub
            return r
        return None

    def resolve_name_expr(self, module: Module, expr: ast.expr):
        """Resolve Name / dotted Attribute to a repo entity if possible."""
        if isinstance(expr, ast.Name):
            return self.resolve_symbol(module, expr.id)
        if isinstance(expr, ast.Attribute):
            base = self.resolve_name_expr(module, expr.value)
            if isinstance(base, Module):
                return self.resolve_symbol(base, expr.attr)
            if isinstance(base, ClassInfo):
                return self.lookup_method(base, expr.attr, None)
            if isinstance(base, tuple) and base and base[0] == "external":
                return ("external", base[1] + "." + expr.attr)
        if isinstance(expr, ast.Subscript):   # Generic[T] bases
            return self.resolve_name_expr(module, expr.value)
        return None

    # ------------------------------------------------------------------ class helpers
    def mro(self, ci: ClassInfo) -> List[ClassInfo]:
        seen: List[ClassInfo] = []

        def rec(c):
            if c in seen:
                return
            seen.append(c)
            for b in c.bases:
                rec(b)
        rec(ci)   # depth-first left-to-right; adequate for this repository (no diamonds except ABC mixins)
        # move a class after all of its subclasses in the list (approximate C3 for the diamond
        # ScoredAlignedPair(AlignedPair, ScoredAlignmentPosition) -> AlignmentPosition)
        result: List[ClassInfo] = []
        for c in seen:
            result.append(c)
        changed = True
        while changed:
            changed = False
            for i, c in enumerate(result):
                for j in range(i + 1, len(result)):
                    if c in self._all_bases(result[j]):
                        result.insert(j + 1, result.pop(i))
                        changed = True
                        break
                if changed:
                    break
        return result

    def _all_bases(self, ci: ClassInfo) -> List[ClassInfo]:
        out = []
        for b in ci.bases:
            out.append(b)
            out.extend(self._all_bases(b))
        return out

    def all_subclasses(self, ci: ClassInfo) -> List[ClassInfo]:
        out = []
        for s in ci.subclasses:
            out.append(s)
            out.extend(self.all_subclasses(s))
        return out

    def is_subclass(self, ci: ClassInfo, base: ClassInfo) -> bool:
        return base in self.mro(ci)

    def lookup_method(self, ci: ClassInfo, name: str, accessing_class: Optional[ClassInfo]) -> Optional[FunctionInfo]:
        """Find attribute `name` (as written at the access site inside `accessing_class`) in ci's MRO."""
        key = mangle(name, accessing_class.name if accessing_class else None)
        for c in self.mro(ci):
            if key in c.methods:
                return c.methods[key]
        return None

    def lookup_overrides(self, ci: ClassInfo, name: str, accessing_class: Optional[ClassInfo]) -> List[FunctionInfo]:
        """The method found on ci plus every override in subclasses (dynamic dispatch)."""
        out: List[FunctionInfo] = []
        first = self.lookup_method(ci, name, accessing_class)
        if first:
            out.append(first)
        key = mangle(name, accessing_class.name if accessing_class else None)
        for s in self.all_subclasses(ci):
            if s.module.is_test:
                continue
            if key in s.methods and s.methods[key] not in out:
                out.append(s.methods[key])
        return out

    def constructor_params(self, ci: ClassInfo) -> Optional[List[Param]]:
        """Parameters accepted by `ci(...)` (without self)."""
        init = self.lookup_method(ci, "__init__", None)
        if init is not None:
            return init.call_params()
        # dataclass / NamedTuple: synthesised from fields, bases first
        if ci.is_dataclass or ci.is_namedtuple or any(b.is_dataclass for b in self.mro(ci)):
            fields: List[Field] = []
            for c in reversed(self.mro(ci)):
                if c.is_dataclass or c.is_namedtuple:
                    for f in c.fields:
                        if _is_classvar(f.annotation):
                            continue
                        fields = [x for x in fields if x.name != f.name] + [f]
            return [Param(f.name, f.annotation, f.default, "pos") for f in fields]
        return None

    # ------------------------------------------------------------------ lookups by name
    def get_class(self, qualname: str) -> ClassInfo:
        ci = self.classes.get(qualname)
        if ci is None:
            raise AnalysisError(f"anchor class {qualname} not found")
        return ci

    def find_class(self, simple_name: str, include_tests=False) -> ClassInfo:
        if ":" in simple_name:
            return self.get_class(simple_name)
        cands = [c for c in self.classes.values() if c.name == simple_name and (include_tests or not c.module.is_test)]
        if len(cands) != 1:
            raise AnalysisError(f"anchor class {simple_name}: expected exactly one definition, found {len(cands)}")
        return cands[0]

    def get_function(self, qualname: str) -> FunctionInfo:
        fi = self.functions.get(qualname)
        if fi is None:
            raise AnalysisError(f"anchor function {qualname} not found")
        return fi

    def find_method(self, class_name: str, method_name: str) -> FunctionInfo:
        ci = self.find_class(class_name)
        fi = ci.methods.get(mangle(method_name, ci.name))
        if fi is None:
            raise AnalysisError(f"anchor method {class_name}.{method_name} not found ({ci.where})")
        return fi

    def find_function(self, module_name: str, func_name: str) -> FunctionInfo:
        m = self.modules.get(module_name)
        if m is None:
            raise AnalysisError(f"anchor module {module_name} not found")
        fi = m.functions.get(func_name)
        if fi is None:
            r = self.resolve_symbol(m, func_name)          # moved to another module and imported back (re-exported)
            if isinstance(r, FunctionInfo):
                return r
            raise AnalysisError(f"anchor function {module_name}:{func_name} not found")
        return fi

    def nontest_functions(self) -> Iterator[FunctionInfo]:
        for f in self.functions.values():
            if not f.module.is_test:
                yield f

    def nontest_modules(self) -> Iterator[Module]:
        for m in self.modules.values():
            if not m.is_test:
                yield m

    def enclosing_function(self, module: Module, node: ast.AST) -> Optional[FunctionInfo]:
        """Innermost function whose node contains `node` (by identity walk)."""
        best = None
        for f in self.functions.values():
            if f.module is not module:
                continue
            for n in ast.walk(f.node):
                if n is node:
                    if best is None or _contains(best.node, f.node):
                        best = f
                    break
        return best

    def digest(self, modules: Optional[List[str]] = None) -> str:
        h = hashlib.sha256()
        for name in sorted(self.modules):
            m = self.modules[name]
            if m.is_test:
                continue
            if modules is not None and name not in modules:
                continue
            h.update(name.encode())
            h.update(m.source.encode())
        return h.hexdigest()

    def stats(self) -> dict:
        nt = [m for m in self.modules.values() if not m.is_test]
        return {
            "files_parsed": len(nt),
            "test_files_parsed_for_exclusion": len(self.modules) - len(nt),
            "classes": sum(1 for c in self.classes.values() if not c.module.is_test),
            "functions": sum(1 for f in self.functions.values() if not f.module.is_test),
        }


def _contains(outer: ast.AST, inner: ast.AST) -> bool:
    for n in ast.walk(outer):
        if n is inner:
            return True
    return False


def _is_classvar(ann: Optional[ast.expr]) -> bool:
    if ann is None:
        return False
    try:
        s = ast.unparse(ann)
    except Exception:  # pragma: no cover
        return False
    return s.startswith("ClassVar") or s.startswith("typing.ClassVar")

"""C16 - vectorisation, blur, bin mapping exact; seeds are the top peaks (the structural part: seeds and units).

  C16.1  top-N, descending, at both selection sites: PeaksSelector.selectPeaks == TOPK(peak.score, count, desc);
         CorrelationResult.createPeaks keeps the indices of the peaksCount largest peak heights (guarded by
         peaksCount < size) and the *same* index vector selects positions, heights and both interpolated bases
  C16.2  units agree: in getInitialAlignment and in refine, the resolution handed to peak creation is the resolution of
         the one generator that produced both vectors of that correlation; refine passes its own window start as
         correlationStart (the primary passes 0) and cuts the reference window symmetric about the peak
  C16.3  bin index -> base pairs: coordinate * resolution + (ceil(resolution / 2) - 1 + start)  (bin centre)
  C16.4  bins are half-open and every label is examined (shape of the scanning loop of vectorisePositions): the loop runs over
         the whole label list (or from bisect_left(labels, start)); a label is skipped iff position < window start (strict);
         the window advances while position >= window start + resolution (inclusive)
Declined: exactness of vectorisePositions and blur as a whole for all (start, end, resolution, radius) - arithmetic on run-time values.
"""
from __future__ import annotations

from ..loader import AnalysisError
from .. import terms as T
from ..terms import C, V
from ..rules.common import explore, where, short, self_attr
from .c05 import seeds


def _largest_k_indices(t, heights, k):
    """recognise 'indices of the k largest heights': argpartition(-h, k)[:k] | argsort(h)[::-1][:k] | argsort(-h)[:k]
       returns True / False (recognised but wrong) / None"""
    neg_h = T.p_neg(heights)
    if t[0] == "slice" and t[3] == T.NONE and t[4] == T.NONE and t[2] == T.p_neg(k):
        # xs[-k:]  : the last k of an ascending arrangement
        base = t[1]
        if base[0] == "call" and base[1].endswith("argsort") and len(base[2]) == 1:
            return base[2][0] == heights
        if base[0] == "call" and base[1].endswith("argpartition") and len(base[2]) == 2:
            arr, kth = base[2]
            size = None
            if arr == heights:
                # correct only when the pivot is size - k (or -k): everything right of it is >= everything left of it
                return kth == T.p_neg(k) or (kth[0] == "poly" and T.p_add(kth, k)[0] in ("attr", "call"))
            if arr == neg_h:
                return False
        return None
    if t[0] != "slice" or t[2] != T.NONE or t[4] != T.NONE:
        return None
    upto, base = t[3], t[1]
    if base[0] == "call" and base[1].endswith("argpartition") and len(base[2]) == 2:
        arr, kth = base[2]
        if arr == neg_h:
            return kth == k and upto == k
        if arr == heights:
            return False
        return None
    if base[0] == "call" and base[1].endswith("argsort") and len(base[2]) == 1:
        if base[2][0] == neg_h:
            return upto == k
        if base[2][0] == heights:
            return False
        return None
    if base[0] == "slice" and base[4] == C(-1) and base[2] == T.NONE and base[3] == T.NONE:
        inner = base[1]
        if inner[0] == "call" and inner[1].endswith("argsort") and len(inner[2]) == 1:
            if inner[2][0] == heights:
                return upto == k
            if inner[2][0] == neg_h:
                return False
    return None


def scanning_loop(ck):
    import ast
    from ..norm import norm_in
    ctx = ck.ctx
    cands = [f for f in ctx.p.nontest_functions() if f.name == "vectorisePositions" and f.cls is None]
    if len(cands) != 1:
        raise AnalysisError(f"anchor function vectorisePositions: {len(cands)} definitions found")
    fn = cands[0]
    ck.clause("C16.4", "half-open bins; every label examined by the scanning loop of vectorisePositions")
    params = [pp.name for pp in fn.call_params()]
    if len(params) < 3:
        raise AnalysisError(f"{fn.where}: vectorisePositions(positions, resolution, start, ...) expected")
    labels, resolution, start = params[0], params[1], params[2]
    loops = [n for n in ast.walk(fn.node) if isinstance(n, ast.For) and any(isinstance(x, ast.Yield) for x in ast.walk(n))]
    if len(loops) != 1 or not isinstance(loops[0].target, ast.Name):
        raise AnalysisError(f"{fn.where}: the scanning loop of vectorisePositions was not found")
    loop = loops[0]
    pos = loop.target.id
    w = where(fn, loop)
    # --- iterable
    it = loop.iter
    text = ast.unparse(it)
    verdict = None
    if isinstance(it, ast.Name) and it.id == labels:
        verdict = True
    elif isinstance(it, ast.Call) and isinstance(it.func, ast.Name) and it.func.id in ("sorted", "iter", "list", "tuple") \
            and len(it.args) == 1 and isinstance(it.args[0], ast.Name) and it.args[0].id == labels:
        verdict = True
    elif isinstance(it, ast.Subscript) and isinstance(it.value, ast.Name) and it.value.id == labels and isinstance(it.slice, ast.Slice):
        sl = it.slice
        lo = sl.lower
        if sl.upper is None and sl.step is None and isinstance(lo, ast.Call):
            f = lo.func.attr if isinstance(lo.func, ast.Attribute) else lo.func.id if isinstance(lo.func, ast.Name) else None
            arg_ok = len(lo.args) >= 2 and isinstance(lo.args[0], ast.Name) and lo.args[0].id == labels \
                and isinstance(lo.args[1], ast.Name) and lo.args[1].id == start
            if f == "bisect_left" and arg_ok:
                verdict = True
            elif f in ("bisect_right", "bisect") and arg_ok:
                verdict = ("a label lying exactly on the window start is skipped (bisect_right / bisect is the first index "
                           "*after* equal elements): bit 0 stays 0 although a label lies in [start, start + resolution)")
        if verdict is None and (sl.lower is not None or sl.upper is not None or sl.step is not None) \
                and all(x is None or isinstance(x, ast.Constant) or (isinstance(x, ast.UnaryOp) and isinstance(x.operand, ast.Constant))
                        for x in (sl.lower, sl.upper, sl.step)):
            verdict = "a constant slice of the label list is scanned: labels outside it never set a bit"
    if verdict is True:
        ck.ok("C16.4", "vectorisePositions:labels-scanned", w, "the scanning loop runs over every label", text)
    elif verdict is None:
        raise AnalysisError(f"{w}: iterable of the scanning loop not recognised: {text}")
    else:
        ck.violation("C16.4", "vectorisePositions:labels-scanned", w, verdict, found=text, required=f"for ... in {labels}")
    # --- names of the window bounds: ws is initialised from `start`; we = ws + resolution (may be inlined)
    ws = we = None
    for n in fn.node.body:
        if isinstance(n, ast.Assign) and len(n.targets) == 1 and isinstance(n.targets[0], ast.Name):
            if isinstance(n.value, ast.Name) and n.value.id == start:
                ws = n.targets[0].id
    if ws is None:
        ws = start if any(isinstance(n, ast.AugAssign) and isinstance(n.target, ast.Name) and n.target.id == start
                          for n in ast.walk(fn.node)) else None
    if ws is None:
        raise AnalysisError(f"{fn.where}: the variable holding the current window start was not found")
    for n in fn.node.body:
        if isinstance(n, ast.Assign) and len(n.targets) == 1 and isinstance(n.targets[0], ast.Name) and n.targets[0].id != ws:
            t = norm_in(ctx, fn, n.value)
            if t == T.p_add(V(ws), V(resolution)):
                we = n.targets[0].id
    env = {we: T.p_add(V(ws), V(resolution))} if we else {}
    skip = adv = None
    skip_negated = False
    for n in ast.walk(loop):
        if isinstance(n, ast.If) and len(n.body) == 1 and isinstance(n.body[0], ast.Continue):
            skip = n
        if isinstance(n, ast.While):
            adv = n
    if skip is None and adv is not None:
        # the guard form (`if position < start: continue` is read as `if not position < start: <rest>` by sa/desugar.py, and
        # may be written that way): the `if` without else that encloses the window-advance loop
        for n in loop.body:
            if isinstance(n, ast.If) and not n.orelse and any(x is adv for x in ast.walk(n)):
                skip, skip_negated = n, True
    if skip is None or adv is None:
        raise AnalysisError(f"{w}: skip test / window-advance loop not found in the scanning loop")
    st = norm_in(ctx, fn, skip.test, True, env=env)
    if skip_negated:
        st = T.mk_not(st)
    want_skip = T.mk_lt(V(pos), V(ws))
    ck.judge(st == want_skip, "C16.4", "vectorisePositions:skip-test", where(fn, skip),
             "a label is skipped iff it lies strictly before the window start (a label exactly on it belongs to the bin)",
             found=T.show(st)[:120], required=T.show(want_skip))
    at = norm_in(ctx, fn, adv.test, True, env=env)
    want_adv = T.mk_ge(V(pos), T.p_add(V(ws), V(resolution)))
    ck.judge(at == want_adv, "C16.4", "vectorisePositions:advance-test", where(fn, adv),
             "the window advances while the label is at or beyond window start + resolution (bins are half-open)",
             found=T.show(at)[:120], required=T.show(want_adv))


def blur_keeps_length(ck):
    """C16.7: blur() hands back exactly len(vector) samples (the correlation and the bin -> coordinate mapping count bins of the
    un-blurred vector), and every shift 1..radius contributes both directions"""
    p = ck.ctx.p
    ck.clause("C16.7", "blur keeps the length: the dilated vector is cut to len(vector); every shift 1..radius is OR-ed in both directions")
    fn = p.get_function("src.correlation.vectorise:blur")
    vec = V(fn.params[0].name)
    n_len = T.mk_call("len", [vec])
    n = 0

    def core(t):
        # wrappers that keep the number of samples
        while True:
            if t[0] == "call" and t[1] in ("numpy.array", "numpy.asarray", "list", "tuple") and len(t[2]) >= 1:
                t = t[2][0]
            elif t[0] == "mcall" and t[2] in ("astype", "copy", "tolist"):
                t = t[1]
            elif t[0] in ("lt", "le") and len(t) == 2:
                t = t[1]
            elif t[0] == "poly" and len(t[1]) == 1 and len(t[1][0][0]) == 1:
                t = t[1][0][0][0]           # +-x compared with 0
            else:
                return t

    seen_counted_loop = []
    import ast
    for unroll in ((0, 1), (2,)):
        for pa in explore(ck, fn, unroll=unroll):
            if pa.outcome != "return" or pa.value is None:
                continue
            n += 1
            w = where(fn, pa.node)
            t = core(pa.value)
            cut = t[0] == "slice" and t[2] in (C(None), C(0)) and t[3] == n_len and t[4] in (C(None), C(1))
            counted = t[0] == "comp" and len(t[3]) == 1 and not t[3][0][1] and t[3][0][0] == T.mk_call("range", [n_len])
            conv = [x for x in T.subterms(pa.value) if x[0] == "call" and x[1] in ("numpy.convolve", "numpy.correlate",
                                                                                  "scipy.signal.convolve", "scipy.signal.fftconvolve")]
            if not counted and t[0] == "comp" and len(t[3]) == 1 and not t[3][0][1] and t[3][0][0][0] == "slice" and \
                    t[3][0][0][2] in (C(None), C(0)) and t[3][0][0][3] == n_len and t[3][0][0][4] in (C(None), C(1)):
                counted = True      # one output sample per element of <copies>[:len(vector)] (islice(..., len(vector)))
            rng_len = T.mk_call("range", [n_len])
            if not counted and t[0] == "list" and t[1] and all(
                    any(y[0] == "elem" and y[1] == rng_len and y[2] == k for y in T.subterms(x)) for k, x in enumerate(t[1])):
                counted = True      # an unrolled loop over range(len(vector)) that appends once per iteration
                seen_counted_loop.append(True)
            if not counted and t == ("list", ()) and (seen_counted_loop or any(
                    isinstance(x, ast.For) and ast.unparse(x.iter).replace(" ", "") == f"range(len({fn.params[0].name}))"
                    for x in ast.walk(fn.node))):
                counted = True      # its zero-iteration path: nothing to emit for an empty vector
            if not cut and t[0] == "slice" and t[4] in (C(None), C(1)) and T.p_sub(t[3], t[2]) == n_len and conv and \
                    conv[0][1] == "numpy.convolve" and "mode" not in dict(conv[0][3]) and len(conv[0][2]) == 2:
                cut = True          # full convolution (len + kernel - 1 samples) cut to [a : a + len(vector)]
            if cut or counted:
                ck.judge(True, "C16.7", short(fn) + ":length", w, "the blurred vector has len(vector) samples", found=T.show(t)[-60:])
            elif conv:
                mode = dict(conv[0][3]).get("mode") or (conv[0][2][2] if len(conv[0][2]) > 2 else C("full" if "convolve" in conv[0][1] else "valid"))
                ck.violation("C16.7", short(fn) + ":length", w,
                             f"the blurred vector is the un-cut result of {conv[0][1]}(mode={T.show(mode)}): its length is "
                             "max(len(vector), 2*radius+1) (or more), not len(vector) - a vector shorter than the kernel grows and is re-centred",
                             found=T.show(pa.value)[:200], required="exactly len(vector) samples")
                continue
            elif t[0] == "comp" and len(t[3]) == 1 and t[3][0][0][0] == "call" and t[3][0][0][1] in ("itertools.zip_longest", "zip"):
                ck.violation("C16.7", short(fn) + ":length", w,
                             "the OR of the shifted copies is not cut to len(vector): " +
                             ("zip_longest runs to len(vector) + radius" if "longest" in t[3][0][0][1] else "zip stops at the shortest copy, len(vector) - radius"),
                             found=T.show(t)[-120:], required="[...][0:len(vector)]")
                continue
            else:
                raise AnalysisError(f"{w}: the length of blur()'s result is not recognised: {T.show(pa.value)[:200]}")
            # the shifts: vector[s:] and s*[0] + vector for s in range(1, radius + 1)
            zl = [x for x in T.subterms(t) if x[0] == "call" and x[1] == "itertools.zip_longest"]
            if not zl or not zl[0][2] or zl[0][2][0][0] != "star" or zl[0][2][0][1][0] != "list":
                continue
            copies = zl[0][2][0][1][1]
            rng = {x[1] for c0 in copies for x in T.subterms(c0) if x[0] == "elem" and x[1][0] == "call" and x[1][1] == "range"}
            for r in rng:
                a = r[2]
                stop = a[1] if len(a) >= 2 else a[0]
                start = a[0] if len(a) >= 2 else C(0)
                radius = V(fn.params[1].name)
                if stop == radius or (start not in (C(0), C(1)) and start[0] == "c"):
                    ck.violation("C16.7", short(fn) + ":shifts", w, "the shifts do not run over 1..radius: a bit at distance exactly "
                                 "radius (or 1) from a label is not set", found=T.show(r), required="range(1, radius + 1)")
                elif stop != T.p_add(radius, C(1)):
                    raise AnalysisError(f"{w}: shift range of blur not recognised: {T.show(r)}")
                else:
                    ck.judge(True, "C16.7", short(fn) + ":shifts", w, "shifts run over 1..radius", found=T.show(r))
            ck.judge(vec in copies, "C16.7", short(fn) + ":self", w, "the vector itself is among the OR-ed copies", found=str(len(copies)))
            shifts = {x[2] for x in copies if x[0] == "slice" and x[1] == vec}
            pads = {y[2] for x in copies if x[0] == "concat" for y in x[1] if y[0] == "rep"}
            if shifts or pads:
                ck.judge(shifts == pads, "C16.7", short(fn) + ":both-directions", w,
                         "every shift is applied to the left (vector[s:]) and to the right (s*[0] + vector)",
                         found=f"left {sorted(map(T.show, shifts))} right {sorted(map(T.show, pads))}")
            fv = dict(zl[0][3]).get("fillvalue", C(None))
            ck.judge(fv == C(0), "C16.7", short(fn) + ":fill", w, "missing samples of a shorter copy count as 0", found=T.show(fv))
    ck.floor("C16 blur returns", n, 2)


def sequence_is_blurred_vectorisation(ck):
    """C16.6: what the generator hands to the correlation is blur(vectorisePositions(positions, resolution, start, end), blurRadius)
    - nothing cut off, padded or re-sized in between (a label in a trailing partial bin would lose its bit; the bin <-> base-pair
    mapping assumes bit k covers [start + k*resolution, start + (k+1)*resolution))"""
    ck.clause("C16.6", "the bit vector is exactly blur(vectorisePositions(positions, self.resolution, start, end), self.blurRadius)")
    from ..rules.common import merged_return
    ctx = ck.ctx
    fn = ctx.p.find_method("SequenceGenerator", "positionsToSequence")
    prm = [pp.name for pp in fn.call_params()]
    n = 0
    for pa in explore(ck, fn, unroll=(0, 1)):
        if pa.outcome != "return":
            continue
        n += 1
        v = pa.value
        w = where(fn, pa.node)
        if not (v[0] == "app" and v[1].endswith(":blur")):
            raise AnalysisError(f"{w}: positionsToSequence does not return blur(...): {T.show(v)[:160]}")
        a = dict(v[3])
        inner = a.get("vector")
        while inner is not None:
            if inner[0] == "call" and inner[1] in ("list", "tuple") and len(inner[2]) == 1:
                inner = inner[2][0]
            elif inner[0] in ("list", "tuple") and len(inner[1]) == 1 and inner[1][0][0] == "star":
                inner = inner[1][0][1]                      # [*xs]
            elif inner[0] == "comp" and len(inner[3]) == 1 and inner[2][0] == "bv" and not inner[3][0][1]:
                inner = inner[3][0][0]                      # [x for x in xs]
            else:
                break
        if inner is not None and inner[0] == "app" and inner[1].endswith(":vectorisePositions"):
            b = dict(inner[3])
            ok = a.get("radius") == self_attr("blurRadius") and b.get("positions") == V(prm[0]) and \
                b.get("resolution") == self_attr("resolution") and b.get("start", C(0)) == V("start") and b.get("end", T.NONE) == V("end")
            ck.judge(ok, "C16.6", short(fn), w, "the bit vector is the blurred vectorisation of the positions over [start, end) at "
                     "the generator's resolution and blur radius", found=T.show(v)[:200],
                     required="blur(list(vectorisePositions(positions, self.resolution, start, end)), self.blurRadius)")
        elif inner is not None and inner[0] in ("slice", "concat", "idx", "poly", "rep", "select") and any(
                x[0] == "app" and x[1].endswith(":vectorisePositions") for x in T.subterms(inner)):
            ck.violation("C16.6", short(fn), w, "the vector is cut, padded or re-sized between vectorisation and blur: a label in a "
                         "trailing partial bin loses its bit, and bit k no longer covers [start + k*resolution, ...)",
                         found=T.show(inner)[:200],
                         required="blur(list(vectorisePositions(positions, self.resolution, start, end)), self.blurRadius)")
        else:
            raise AnalysisError(f"{w}: the vector handed to blur is not recognised: {T.show(inner)[:160] if inner else None}")
    ck.floor("C16.6 return paths of positionsToSequence", n, 1)


def run(ck):
    ctx = ck.ctx
    p = ctx.p
    ck.clause("C16.1", "seeds/peaks are the top-N by score/height, descending, with one index vector for all peak arrays")
    ck.clause("C16.2", "resolution / window start handed to peak creation belong to the correlation they describe")
    ck.clause("C16.3", "bin centre conversion formula")
    seeds(ck, "C16.1")
    ck.clause("C16.5", "the seeds are the top peaks of *all* correlations of the query: both strands are correlated against every "
                       "reference, neither is skipped because of what the other gave (as C11.7 / C05.8)")
    from ..report import RuleView as _RV16
    from . import c11 as _c11
    _c11.run(_RV16(ck, {"C11.7": "C16.5"}))
    scanning_loop(ck)
    from .c11 import window_arguments
    window_arguments(ck, "C16.2")
    # argument / attribute roles in the correlation module (query vs reference, start vs end, resolution vs blur are plain
    # positional ints and maps there: an exchange type-checks and runs)
    from ..rules import role as R
    n_roles = R.run_role_rule(ck, "C16.2", modules={"src.correlation.optical_map", "src.correlation.peaks_selector",
                                                    "src.correlation.sequence_generator", "src.correlation.vectorise"})
    ck.floor("C16.2 role bindings judged in the correlation modules", n_roles, 80)
    # ---- createPeaks
    cp = p.find_method("CorrelationResult", "createPeaks")
    heights = T.mk_idx(V("peakProperties"), C("peak_heights"))
    k = V("peaksCount")
    size = T.mk_attr(V("peakPositions"), "size")
    paths = [pa for pa in explore(ck, cp) if pa.outcome == "return"]
    ck.floor("C16.1 return paths of createPeaks", len(paths), 1)
    guard = T.mk_lt(k, size)
    n_sel = 0
    for pa in paths:
        v = pa.value
        w = where(cp, pa.node)
        if not (v[0] == "comp" and len(v[3]) == 1 and v[3][0][0][0] == "call" and v[3][0][0][1] == "zip"):
            raise AnalysisError(f"{w}: peaks are not built from zip(...) of the peak arrays: {T.show(v)[:200]}")
        arrays = v[3][0][0][2]
        if len(arrays) != 4:
            raise AnalysisError(f"{w}: expected four zipped arrays (position, height, left base, right base)")
        idxs = []
        for a in arrays:
            inner = a
            if inner[0] == "app" and inner[1].endswith("toRelativeGenomicPositions"):
                inner = dict(inner[3]).get("correlationCoordinates")
            if inner is not None and inner[0] == "slice":
                idxs.append((inner[1], ("slice", T.NONE) + tuple(inner[2:])))
                continue
            if inner is None or inner[0] != "idx":
                raise AnalysisError(f"{w}: zipped array is not `array[indices]`: {T.show(a)[:120]}")
            idxs.append((inner[1], inner[2]))
        same = len({i for _, i in idxs}) == 1
        ck.judge(same, "C16.1", short(cp) + ":one-index-vector", w, "positions, heights and both bases are selected by the same index vector",
                 found="; ".join(T.show(i)[:60] for _, i in idxs) if not same else T.show(idxs[0][1])[:120])
        srcs = [T.show(b) for b, _ in idxs]
        want_src = ["peakPositions", "peakProperties['peak_heights']", "peakProperties['left_ips']", "peakProperties['right_ips']"]
        ck.judge(srcs == want_src, "C16.1", short(cp) + ":array-order", w, "arrays are zipped as (position, height, left base, right base)",
                 found=str(srcs), required=str(want_src))
        # Peak(position, height, leftBase, rightBase, height - noise)
        elt = v[2]
        a = dict(elt[2]) if elt[0] == "new" else {}
        bv = [x for x in T.subterms(elt) if x[0] == "bv"]
        if not bv:
            raise AnalysisError(f"{w}: Peak construction not recognised")
        b0 = bv[0]
        okp = a.get("position") == T.mk_idx(b0, C(0)) and a.get("height") == T.mk_idx(b0, C(1)) and \
            a.get("leftBase") == T.mk_idx(b0, C(2)) and a.get("rightBase") == T.mk_idx(b0, C(3)) and \
            a.get("score") == T.p_sub(T.mk_idx(b0, C(1)), V("noiseLevel"))
        ck.judge(okp, "C16.1", short(cp) + ":peak-fields", w, "Peak(position, height, leftBase, rightBase, score = height - noise level)",
                 found=T.show(elt)[:200])
        # positions/bases are converted with the given resolution and start; heights are not
        for a_t, name in zip(arrays, ("position", "height", "left", "right")):
            conv = a_t[0] == "app" and a_t[1].endswith("toRelativeGenomicPositions")
            if name == "height":
                ck.judge(not conv, "C16.2", short(cp) + ":height-not-converted", w, "heights are not converted to base pairs", found=T.show(a_t)[:80])
            else:
                okc = conv and dict(a_t[3]).get("resolution") == V("resolution") and dict(a_t[3]).get("start") == V("correlationStart")
                ck.judge(bool(okc), "C16.2", short(cp) + f":{name}-conversion", w,
                         f"{name} coordinates are converted with the correlation's resolution and window start", found=T.show(a_t)[:160])
        sel0 = idxs[0][1]
        tv0 = pa.facts.get(guard)
        if tv0 is None:
            pg, pol = T.positive(guard)
            tv0 = pa.facts.get(pg)
            tv0 = (tv0 == pol) if tv0 is not None else None
        cases = [(sel0, tv0)]
        if tv0 is None and sel0[0] == "select":
            # the guard is written as a conditional expression: one case per arm
            c = sel0[1]
            pc, polc = T.positive(c)
            pg, polg = T.positive(guard)
            if pc == pg:
                same = polc == polg
                cases = [(sel0[2], True if same else False), (sel0[3], False if same else True)]
        for sel, tv in cases:
            if tv is True:
                n_sel += 1
                r = _largest_k_indices(sel, heights, k)
                if r is None:
                    raise AnalysisError(f"{w}: top-N index selection idiom not recognised: {T.show(sel)[:200]}")
                ck.judge(r, "C16.1", short(cp) + ":top-n", w, "under peaksCount < size the indices of the peaksCount largest heights are kept",
                         found=T.show(sel)[:200], required="argpartition(-heights, peaksCount)[:peaksCount] (or argsort equivalent)")
            elif tv is False:
                full = sel == T.mk_call("numpy.arange", [size]) or sel == ("slice", T.NONE, T.NONE, T.NONE, T.NONE)
                ck.judge(full, "C16.1", short(cp) + ":all-peaks", w, "with at most peaksCount peaks every peak is kept",
                         found=T.show(sel)[:120], required="arange(size)")
            else:
                conds = [T.show(c) for c, _, _ in pa.state.assumptions]
                if conds:
                    ck.violation("C16.1", short(cp) + ":guard", w, "the top-N selection is not guarded by `peaksCount < number of peaks`",
                                 found="; ".join(conds), required=T.show(guard))
                else:
                    r = _largest_k_indices(sel, heights, k)
                    if r is None:
                        raise AnalysisError(f"{w}: unguarded peak selection not recognised: {T.show(sel)[:160]}")
                    ck.violation("C16.1", short(cp) + ":guard", w, "argpartition is used without the `peaksCount < size` guard (raises when "
                                 "there are fewer peaks than requested)", found=T.show(sel)[:160], required=T.show(guard))
    if n_sel == 0 and not any(o.rule == "C16.1" and o.status == "VIOLATION" for o in ck.obligations):
        raise AnalysisError(f"{cp.where}: no path of createPeaks selects the top peaks under a `peaksCount < size` guard")

    # ---- C16.2 units in getInitialAlignment / refine
    gi = p.find_method("OpticalMap", "getInitialAlignment")
    gen = V("sequenceGenerator")
    for pa in explore(ck, gi, unroll=(0, 1)):
        if pa.outcome != "return" or pa.value[0] != "app" or not pa.value[1].endswith("InitialAlignment.create"):
            continue
        a = dict(pa.value[3])
        w = where(gi, pa.node)
        seqs = [x for x in T.subterms(a.get("correlation")) if x[0] == "app" and x[1].endswith("OpticalMap.getSequence")]
        gens = {dict(x[3]).get("sequenceGenerator") for x in seqs}
        ck.judge(gens == {gen}, "C16.2", short(gi) + ":one-generator", w, "query and reference vectors come from one generator",
                 found=str([T.show(g) for g in gens]))
        ck.judge(a.get("resolution") == T.mk_attr(gen, "resolution"), "C16.2", short(gi) + ":resolution", w,
                 "peak creation gets that generator's resolution", found=T.show(a.get("resolution", C(None))), required="sequenceGenerator.resolution")
        ck.judge(a.get("blur") == T.mk_attr(gen, "blurRadius"), "C16.2", short(gi) + ":blur", w, "and its blur radius",
                 found=T.show(a.get("blur", C(None))))
        from ..rules.common import arg_or_default
        cs = arg_or_default(ck, pa.value, "correlationStart")
        ck.judge(cs == C(0), "C16.2", short(gi) + ":start", w, "the primary correlation starts at reference coordinate 0",
                 found=T.show(cs if cs is not None else C(None)), required="0")
        ck.judge(a.get("peaksCount") == V("peaksCount"), "C16.2", short(gi) + ":peaksCount", w, "the requested number of peaks is passed on",
                 found=T.show(a.get("peaksCount", C(None))))
        ck.judge(a.get("query") == V(gi.self_name) and a.get("reference") == V("reference"), "C16.2", short(gi) + ":maps", w,
                 "query = self, reference = the reference", found=f"{T.show(a.get('query', C(None)))}, {T.show(a.get('reference', C(None)))}")
        # whole reference vectorised (no window)
        for x in seqs:
            if x[2] == V("reference"):
                ck.judge("start" not in dict(x[3]) and "end" not in dict(x[3]), "C16.2", short(gi) + ":whole-reference", w,
                         "the primary correlation runs over the whole reference", found=T.show(x)[:120])
    rf = p.find_method("InitialAlignment", "refine")
    for pa in explore(ck, rf, unroll=(0, 1)):
        if pa.outcome != "return" or pa.value[0] != "app" or not pa.value[1].endswith("CorrelationResult.create"):
            continue
        a = dict(pa.value[3])
        w = where(rf, pa.node)
        seqs = [x for x in T.subterms(a.get("correlation")) if x[0] == "app" and x[1].endswith("OpticalMap.getSequence")]
        gens = {dict(x[3]).get("sequenceGenerator") for x in seqs}
        corr = a.get("correlation")
        nothing_to_refine = not seqs and corr is not None and corr[0] == "call" and corr[1] in ("numpy.array", "numpy.zeros", "numpy.empty") \
            and (not corr[2] or corr[2][0] in (("list", ()), C(0)))
        if not nothing_to_refine:      # (a path that hands back an empty correlation - no label in the window - has no vectors)
            ck.judge(gens == {gen}, "C16.2", short(rf) + ":one-generator", w, "query and reference vectors come from one generator",
                     found=str([T.show(g) for g in gens]))
        ck.judge(a.get("resolution") == T.mk_attr(gen, "resolution"), "C16.2", short(rf) + ":resolution", w,
                 "peak creation gets the secondary generator's resolution", found=T.show(a.get("resolution", C(None))),
                 required="sequenceGenerator.resolution")
        start = T.p_sub(V("peakPosition"), V("secondaryMargin"))
        end = T.p_add(T.p_add(V("peakPosition"), T.mk_attr(self_attr("query"), "length")), V("secondaryMargin"))
        ck.judge(a.get("correlationStart") == start, "C16.2", short(rf) + ":start", w,
                 "peak coordinates are offset by the window start (peak - margin)", found=T.show(a.get("correlationStart", C(None))),
                 required=T.show(start))
        for x in seqs:
            if x[2] == self_attr("reference"):
                xa = dict(x[3])
                ck.judge(xa.get("start") == start and xa.get("end") == end, "C16.2", short(rf) + ":window", w,
                         "the reference window is [peak - margin, peak + query length + margin]",
                         found=f"start={T.show(xa.get('start', C(None)))}, end={T.show(xa.get('end', C(None)))}",
                         required=f"start={T.show(start)}, end={T.show(end)}")
            if x[2] == self_attr("query"):
                ck.judge("start" not in dict(x[3]) and "end" not in dict(x[3]), "C16.2", short(rf) + ":whole-query", w,
                         "the whole query is vectorised", found=T.show(x)[:120])
    # ---- C16.3
    tr = p.find_function("src.correlation.optical_map", "toRelativeGenomicPositions")
    for pa in explore(ck, tr):
        if pa.outcome != "return":
            continue
        res, co, st = V("resolution"), V("correlationCoordinates"), V("start")
        half = T.mk_call("math.ceil", [T.p_mul(C(0.5), res)])
        want = T.p_add(T.p_add(T.p_mul(co, res), T.p_sub(half, C(1))), st)
        alt = T.p_add(T.p_add(T.p_mul(co, res), T.p_sub(T.mk_call("math.ceil", [("div", res, C(2))]), C(1))), st)
        ck.judge(pa.value in (want, alt), "C16.3", short(tr), where(tr, pa.node),
                 "bin index -> coordinate of the bin centre: i * resolution + ceil(resolution / 2) - 1 + start",
                 found=T.show(pa.value), required=T.show(want))
    # SequenceGenerator: vectorise with its own resolution, blur with its own radius
    sg = p.find_method("SequenceGenerator", "positionsToSequence")
    for pa in explore(ck, sg):
        if pa.outcome != "return":
            continue
        v = pa.value
        w = where(sg, pa.node)
        ok = v[0] == "app" and v[1].endswith(":blur") and dict(v[3]).get("radius") == self_attr("blurRadius")
        vec = [x for x in T.subterms(v) if x[0] == "app" and x[1].endswith(":vectorisePositions")]
        ok = ok and vec and dict(vec[0][3]).get("resolution") == self_attr("resolution") and \
            dict(vec[0][3]).get("positions") == V("positions") and dict(vec[0][3]).get("start") == V("start") and \
            dict(vec[0][3]).get("end") == V("end")
        ck.judge(bool(ok), "C16.2", short(sg), w, "a generator vectorises with its own resolution and blurs with its own radius",
                 found=T.show(v)[:200])
    ck.clause("C16.8", "a peak keeps the score, height and position it is given: seeds are ranked by the score as computed (a rounded or "
                       "clamped score makes near-equal peaks tie, and ties fall back to enumeration order; as C12.7)")
    from .c12 import stored_unconverted as _su
    if ck.wants("C16.8"):
        _su(_RV16(ck, {"C12.7": "C16.8"}, only_files=("src/correlation/peak.py",)), "C12.7")
    ck.ok("C16.8", "Peak:stores", "src/correlation/peak.py", "constructor stores inspected", "")
    blur_keeps_length(ck)
    sequence_is_blurred_vectorisation(ck)
    if ck.wants("C16.12"):
        from .c05 import worker_gives_up_only_without_seeds as _wg16
        _wg16(ck, "C16.12")
    ck.clause("C16.14", "a fragment is seeded over the correlations of ALL references of the run (as C08.13): the second pass receives the "
                        "reference list as the first pass did - a list narrowed to the references that already carry a record leaves "
                        "the fragment the top seeds of a subset")
    if ck.wants("C16.14"):
        from ..report import RuleView as _RV1614
        from . import c08 as _c08_1614
        _c08_1614._aligned_rest(_RV1614(ck, {"C08.13": "C16.14"}), {}, None)
    ck.clause("C16.13", "a query is correlated with a reference only when its whole length fits (as C07.G5): the query vector spans "
                        "coordinates 0 .. last label of the molecule - for a second-pass fragment that is the whole molecule, not the "
                        "labelled stretch - and a 'valid' correlation with a query vector longer than the reference vector silently "
                        "exchanges its arguments: peaks on bins that are no reference lags compete for the peaksCount seeds")
    if ck.wants("C16.13"):
        from ..report import RuleView as _RV1613
        from .c07 import _g5 as _g5_16
        _g5_16(_RV1613(ck, {"C07.G5": "C16.13"}))
    ck.clause("C16.11", "both strands are correlated with the same settings (as C11.4 :same-arguments): a reverse-strand call that leaves "
                        "peaksCount to a default keeps another number of peaks per correlation than the forward call")
    if ck.wants("C16.11"):
        _c11.run(_RV16(ck, {"C11.4": "C16.11"}, only_constructs=(":same-arguments",)))
    ck.clause("C16.10", "the top-count seeds are chosen once over the correlations of all references (as C05.9): per-reference selections "
                        "merged afterwards are not the top peaks")
    from .c05 import seeds_over_all_references as _soar16
    if ck.wants("C16.10"):
        _soar16(ck, "C16.10")
    ck.clause("C16.9", "the vectoriser's input is ascending: label positions pass a sort before they enter an OpticalMap (as C17.1) - the "
                       "scanning loop skips every label behind its cursor and takes positions[-1] for the end of the vector")
    from .c10 import id_filters as _idf16
    if ck.wants("C16.9"):
        _idf16(_RV16(ck, {"C17.1": "C16.9"}), "C17.3", "C17.1")


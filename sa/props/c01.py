"""C01 - one-to-one, collinear matching of real labels; at least one pair per record (structural clauses).

  C01.1  no record without pairs reaches a file: the result of the parallel map is filtered on the truthiness of the
         row's alignedPairs, and every row list that is written derives from that filtered result only
  C01.2  every candidate goes through conflict resolution with the real resolver: Aligner.align resolves the segments
         of *all* peaks with the injected resolver; the factory injects AlignmentSegmentConflictResolver(SegmentChainer(
         SequentialityScorer(...)))
  C01.3  the resolver visits every consecutive pair of the chain and writes the results back to the same two slots
  C01.4  per-peak de-duplication = one-per-key selection by query label and by reference label, each keeping the
         minimum distance
  C01.6  when two overlapping segments are merged inside the overlap, each is cut at the index from its own index table
         (as C15.5): a shared table leaves one label in both segments
  C01.7  the conflict test sees every overlap between neighbouring chain members (as C15.6)
  C01.8  two records are joined only when they have the same orientation and reference (as C08.4): a '+' part joined
         with a '-' part cannot have monotone query label numbers
Declined: that the final matching *is* one-to-one and collinear for every geometry (value-level; see DESIGN.md).
"""
from __future__ import annotations

import ast

from ..loader import AnalysisError
from .. import terms as T
from ..terms import C, V
from ..paths import Explorer
from ..rules.common import explore, where, short, self_attr, path_terms, parallel_map_site
from ..rules.order import key_path, sort_spec
from ..rules.modes import declared_modes, mode_behaviour, multipass_execute


def run(ck):
    ck.clause("C01.1", "rows without pairs are filtered before any output; written rows derive from the filtered map result")
    ck.clause("C01.2", "all peaks' segments go through the injected AlignmentSegmentConflictResolver")
    ck.clause("C01.3", "resolver visits every consecutive chain pair and writes back to the same slots")
    ck.clause("C01.4", "per-peak de-duplication by query label and by reference label, keeping the nearest")
    ck.clause("C01.5", "second-pass label numbers refer to labels of the whole query (fragment offset = labels cut from the front; as C02.4/C02.5)")
    from .c02 import fragments, numbering
    from ..report import RuleView as _RV015
    fragments(_RV015(ck, {"C01.5": "C01.5"}, not_constructs=(":length",)), "C01.5")      # a fragment's length names no label
    numbering(ck, "C01.5")
    from . import c15, c08
    ck.clause("C01.6", "overlapping segments are cut at indices from their own index tables (as C15.5)")
    ck.clause("C01.7", "the conflict test detects every overlap between neighbouring chain members (as C15.6)")
    ck.clause("C01.8", "records are joined only with equal orientation and reference (as C08.4)")
    cuts, impls, LS, RS = c15.collect_cuts(ck)
    c15.per_side_cuts(ck, "C01.6", cuts, impls, LS, RS)
    c15.overlap_test(ck, "C01.7")
    c08._eligibility(ck, {}, None, rule="C01.8", wiring=False)
    ck.clause("C01.9", "the chainer never places two segments consecutively that overlap by more than half of the shorter one "
                       "(as C14.2): conflict resolution only trims consecutive chain members")
    from ..report import RuleView
    from . import c14
    c14.join_score(RuleView(ck, {"C14.2": "C01.9"}))
    from .c04 import scorer_total as _st01
    _st01(ck, "C01.18")
    emptied_member(ck, "C01.19")
    if ck.wants("C01.20"):
        joined_is_collinear(ck, "C01.20")
    ck.clause("C01.17", "a record is not altered after it was built (as C02.11): the plotters run inside the worker on the row that is "
                        "written later - a segment list re-ordered in place lists the pairs out of reference order")
    from .c02 import records_frozen as _rf01
    _rf01(ck, "C01.17")
    ck.clause("C01.16", "a record names the maps its labels belong to: query / reference ids and lengths reach AlignmentResultRow.create "
                        "in the parameters of their own role at every call site (as C02.3's role lint) - a reordered signature with one "
                        "caller left behind exchanges them silently (all four are ints)")
    from ..rules import role as _R01
    _n01 = _R01.run_role_rule(ck, "C01.16", modules={"src.alignment.alignment_results", "src.alignment.aligner"})
    ck.floor("C01.16 argument bindings judged", _n01, 60)
    ck.clause("C01.15", "the chainer hands segments back without its admissibility search only when at most one is non-empty (as C14.4 "
                        ":early-return): a short cut that returns all segments as the chain lets crossing / duplicate segments of "
                        "secondary peaks into one record")
    c14.dp(RuleView(ck, {"C14.4": "C01.15"}, only_constructs=(":early-return",)))
    ck.clause("C01.11", "what conflict resolution removes from a segment comes from that segment's own conflicting sub-run (as C15.3): "
                        "subtracting the other side's sub-run removes almost nothing and both segments keep the overlap")
    ck.clause("C01.12", "the conflicting sub-run handed to the trim reaches to the end of the overlap whatever unpaired labels lie in it "
                        "(slice window, as C15.4): a sub-run cut short leaves a label paired in both segments")
    ck.clause("C01.13", "the label tables the cut is counted in hold every label of their map inside the segment (as C15.8): a label "
                        "left out shifts the cut of one segment against the other and a label stays paired in both")
    c15.run(RuleView(ck, {"C15.3": "C01.11", "C15.4": "C01.12", "C15.8": "C01.13"}))
    ck.clause("C01.10", "a joined record is made only of segments that were checked against each other (the join bypasses the "
                        "chainer: a segment carried over from one part can cross the other part) (as C08.6)")
    c08._joined_row(RuleView(ck, {"C08.6": "C01.10"}, only_constructs=(":segments", ":only-resolved", ":order")))
    ck.clause("C01.14", "the segments of a candidate are computed from that candidate's own inputs: a memo in the alignment chain is keyed "
                        "by every input of what it remembers (strand included) - otherwise a candidate is handed the pairs of another one "
                        "(as C09.3)")
    from .c09 import persistent_state as _ps
    _ps(RuleView(ck, {"C01.14": "C01.14"}, only_constructs=(":memo-key",), only_files=("src/alignment/",)), "C01.14")
    ck.ok("C01.14", "alignment chain:memo keys", "src/alignment/", "no memo with an incomplete key in the alignment chain", "")
    no_empty_rows(ck)
    resolver_used(ck)
    pairwise_pass(ck, "C01.3")
    dedupe(ck, "C01.4")
    ck.observe("O1 conflicts are resolved between consecutive chain members only "
               "(segment_with_resolved_conflicts.py); whether non-adjacent segments can still share a label is "
               "geometry-dependent and not decided statically")
    ck.observe("O2 `s != AlignmentSegment.empty` in AlignmentResultRow.resolve compares a segment with a property object (always "
               "true), so emptied segments stay in the joined row (they hold no pair); that the join takes only segments[0] of "
               "each record is known finding K1 of C08")


# ---------------------------------------------------------------------------------------------------------- C01.1
def non_empty_filter(ck, rule):
    """the result of the parallel map is filtered on the truthiness of the row's alignedPairs"""
    ctx = ck.ctx
    fn, call, mapname, worker_lambda, worker = parallel_map_site(ctx)
    rets = [pa for pa in explore(ck, fn, unroll=(0, 1)) if pa.outcome == "return"]
    if not rets:
        raise AnalysisError(f"{fn.where}: execute has no return path")
    ok = True
    for k, pa in enumerate(rets):
        ok = _judge_filter(ck, rule, fn, pa.value, where(fn, pa.node), worker, suffix="" if len(rets) == 1 else f"#{k}",
                           assumed=[(c, tv) for c, tv, _ in pa.state.assumptions]) and ok
    return ok


def no_empty_rows(ck):
    ctx = ck.ctx
    p = ctx.p
    fn, call, mapname, worker_lambda, worker = parallel_map_site(ctx)
    rets = [pa for pa in explore(ck, fn, unroll=(0, 1)) if pa.outcome == "return"]
    if not rets:
        raise AnalysisError(f"{fn.where}: execute has no return path")
    for k, pa in enumerate(rets):
        _judge_filter(ck, "C01.1", fn, pa.value, where(fn, pa.node), worker, suffix="" if len(rets) == 1 else f"#{k}",
                      assumed=[(c, tv) for c, tv, _ in pa.state.assumptions])
    _written_rows_sources(ck, fn)


def _judge_filter(ck, rule, fn, v, w, worker=None, suffix="", assumed=()):
    ok = None
    if v[0] == "select":
        # `return [row] if row is not None else []`: one case per outcome of the test
        from ..rules.common import select_cases
        res = True
        for k, (case, extra) in enumerate(select_cases(v)):
            res = _judge_filter(ck, rule, fn, case, w, worker, suffix=f"{suffix}/case{k}", assumed=tuple(assumed) + tuple(extra)) and res
        return res
    if v[0] in ("list", "tuple") and worker is not None and all(
            (x[0] == "app" and x[1] == worker.qualname) for x in v[1]):
        if not v[1]:
            ck.ok(rule, short(fn) + ":non-empty-filter" + suffix, w, "no row is returned on this path")
            return True
        # rows of an in-process call handed back directly: each needs the same test the mapped rows get
        truths = set()
        for c, tv in assumed:
            c0, pos = T.positive(T.as_bool(c))
            if (tv if pos else not tv):
                truths.update(c0[1] if c0[0] == "and" else [c0])
        ok = all(T.mk_attr(x, "alignedPairs") in truths for x in v[1])
        ck.judge(ok, rule, short(fn) + ":non-empty-filter" + suffix, w,
                 "rows returned by the parallel map are kept only if they have aligned pairs (a row produced in-process and handed "
                 "back directly needs the same test: a molecule with seeds but no pair would be written as an empty record)",
                 found="conditions on this path: " + (", ".join(T.show(c)[:60] for c in truths) or "none"),
                 required="a condition on the truthiness of <row>.alignedPairs")
        return ok
    if v[0] == "comp" and v[1] == "list" and len(v[3]) == 1 and v[2][0] == "bv":
        it, ifs = v[3][0]
        is_map = it[0] == "call" and it[1].split(".")[0] == "p_tqdm"
        in_process = worker is not None and any(x[0] == "app" and x[1] == worker.qualname for x in T.subterms(it))
        if not is_map and not in_process:
            raise AnalysisError(f"{w}: execute does not return a comprehension over the parallel map: {T.show(it)[:120]}")
        want = T.mk_attr(v[2], "alignedPairs")
        conds = []
        for c in ifs:
            conds.extend(c[1] if c[0] == "and" else [c])
        ok = want in conds
        found = [T.show(c) for c in conds]
    elif v[0] == "comp" and v[1] == "list" and len(v[3]) == 1 and worker is not None and v[2][0] == "app" \
            and v[2][1] == worker.qualname:
        # in-process form after flattening: [align(q) for q in queries if <conditions on align(q)>]
        conds = []
        for c in v[3][0][1]:
            conds.extend(c[1] if c[0] == "and" else [c])
        ok = T.mk_attr(v[2], "alignedPairs") in conds
        found = [T.show(c)[:80] for c in conds] or ["no filter"]
    elif v[0] == "call" and v[1].split(".")[0] == "p_tqdm":
        ok = False
        found = ["no filter"]
    elif v[0] == "call" and v[1] in ("list", "filter"):
        inner = v
        while inner[0] == "call" and inner[1] == "list" and inner[2]:
            inner = inner[2][0]
        if inner[0] == "call" and inner[1] == "filter" and len(inner[2]) == 2 and inner[2][0][0] == "lam":
            body = T.as_bool(inner[2][0][2])
            conds = list(body[1]) if body[0] == "and" else [body]
            lv = min(x[1] for x in T.subterms(inner[2][0][2]) if x[0] == "bv")
            ok = T.mk_attr(("bv", lv), "alignedPairs") in conds
            found = [T.show(c) for c in conds]
        else:
            raise AnalysisError(f"{w}: filtering idiom of execute not recognised: {T.show(v)[:160]}")
    else:
        raise AnalysisError(f"{w}: value returned by execute not recognised: {T.show(v)[:160]}")
    ck.judge(ok, rule, short(fn) + ":non-empty-filter" + suffix, w,
             "rows returned by the parallel map are kept only if they have aligned pairs",
             found="conditions: " + ", ".join(found), required="a condition on the truthiness of <row>.alignedPairs")
    return ok


def _written_rows_sources(ck, fn):
    ctx = ck.ctx
    p = ctx.p
    # every written list derives from the filtered execute() result
    base_exec = fn.qualname
    allowed_tail = ("_WorkflowCoordinator.execute", "getSecondPassAlignmentRows",
                    "filterOutSubsequentAlignmentsForSingleQuery", "AlignmentResults.resolve", "AlignmentResults.create")
    modes, default, _ = declared_modes(ck)
    execute = multipass_execute(ck)
    second = p.find_method("_MultiPassWorkflowCoordinator", "getSecondPassAlignmentRows")
    n_sinks = 0
    for m in modes:
        mb = mode_behaviour(ck, m, execute)
        items = [(t, f"main[{m}]", pa.node) for t, pa in mb.returned] + \
                [(rows, f"file_{T.show(num)}[{m}]", e.node) for rows, num, e, pa in mb.saves]
        for t, label, node in items:
            n_sinks += 1
            apps = [x for x in T.subterms(t) if x[0] == "app"]
            foreign = [x for x in apps if not x[1].endswith(allowed_tail)]
            roots = [x for x in apps if x[1] == base_exec or x[1] == second.qualname]
            from ..norm import is_new_helper as _new
            if foreign and roots and all(x[1] in p.functions and _new(p.functions[x[1]]) for x in foreign):
                # rows pass through a helper that did not exist on the pinned tree and is not read through: what it hands back is unknown
                raise AnalysisError(f"{where(execute, node)}: rows of {label} pass through a helper that is not read through: "
                                    + ", ".join(short(x[1]) for x in foreign))
            ck.judge(bool(roots) and not foreign, "C01.1", f"execute:{label}:source", where(execute, node),
                     "rows written in this mode derive only from the filtered result of the parallel map",
                     found="foreign producers: " + ", ".join(short(x[1]) for x in foreign) if foreign else
                     f"{len(roots)} uses of the filtered map result")
    ck.floor("C01.1 written row lists over all modes", n_sinks, 8)
    # second pass is produced by the same filtered execute
    for pa in explore(ck, second, unroll=(0, 1)):
        if pa.outcome == "return":
            srcs = [x for x in T.subterms(pa.value) if x[0] == "app" and x[1] == base_exec]
            ck.judge(bool(srcs), "C01.1", short(second) + ":source", where(second, pa.node),
                     "second-pass rows come out of the same filtered execute()", found=T.show(pa.value)[:160])


# ---------------------------------------------------------------------------------------------------------- C01.2
def resolver_used(ck):
    ctx = ck.ctx
    p = ctx.p
    align = p.find_method("Aligner", "align")
    rets = [pa for pa in explore(ck, align, unroll=(0, 1)) if pa.outcome == "return"]
    ck.floor("C01.2 return paths of Aligner.align", len(rets), 1)
    resolver_cls = p.find_class("AlignmentSegmentConflictResolver")
    for pa in rets:
        v = pa.value
        w = where(align, pa.node)
        if v[0] != "app" or not v[1].endswith("AlignmentResultRow.create"):
            raise AnalysisError(f"{w}: Aligner.align does not return AlignmentResultRow.create(...): {T.show(v)[:160]}")
        a = dict(v[3])
        seg = a.get("segmentsWithoutConflicts")
        if seg is None:
            raise AnalysisError(f"{w}: segments argument not bound")
        if not (seg[0] == "app" and seg[1].endswith("AlignmentSegmentConflictResolver.resolveConflicts")
                and seg[2] == self_attr("segmentConflictResolver")):
            ck.violation("C01.2", "Aligner.align:resolver", w,
                         "segments reach the result row without the injected conflict resolver (overlapping segments from "
                         "several peaks are reported together: a label can be used twice)",
                         found=T.show(seg)[:200], required="self.segmentConflictResolver.resolveConflicts(<all segments>)")
            continue
        ck.ok("C01.2", "Aligner.align:resolver", w, "result row is built from resolveConflicts(...) of the injected resolver")
        segs = dict(seg[3]).get("segments")
        # all peaks: a comprehension over the whole `peaks` value, no condition, no slice
        comps = [x for x in T.subterms(segs) if x[0] == "comp"]
        if not comps:
            raise AnalysisError(f"{w}: segment list is not built by a comprehension over the peaks: {T.show(segs)[:160]}")
        c0 = comps[0]
        it, ifs = c0[3][0]
        peaks_param = V("peaks")
        full = it in (peaks_param, ("list", (peaks_param,))) or (
            it[0] == "select" and {it[2], it[3]} == {peaks_param, ("list", (peaks_param,))})
        # either [getSegments(p) for p in peaks] (flattened afterwards) or the flattened form
        # (s for p in peaks for s in getSegments(p)) - chain.from_iterable is read as the latter
        any_ifs = any(g[1] for g in c0[3])
        ck.judge(full and not any_ifs and len(c0[3]) in (1, 2), "C01.2", "Aligner.align:all-peaks", w,
                 "segments of every peak take part in conflict resolution",
                 found=f"iterates {T.show(it)[:80]}" + (f" if {[T.show(i) for g in c0[3] for i in g[1]]}" if any_ifs else ""),
                 required="for p in peaks (all of them)")
        elt = c0[2] if len(c0[3]) == 1 else c0[3][1][0]
        ck.judge(elt[0] == "app" and elt[1].endswith("Aligner.getSegments"), "C01.2", "Aligner.align:per-peak", w,
                 "per-peak segments come from Aligner.getSegments", found=T.show(elt)[:120])
    # factory injects the real resolver chain
    factory = p.find_method("WorkflowCoordinatorFactory", "create")
    aligner_cls = p.find_class("Aligner")
    seen = 0
    for pa in explore(ck, factory):
        for t, facts, node, kind in path_terms(pa):
            for x in T.subterms(t):
                if x[0] == "new" and x[1] == aligner_cls.qualname:
                    seen += 1
                    a = dict(x[2])
                    r = a.get("segmentConflictResolver")
                    chain_ok = r is not None and r[0] == "new" and r[1].endswith(":AlignmentSegmentConflictResolver")
                    ch = dict(r[2]).get("segmentChainer") if chain_ok else None
                    chain_ok = chain_ok and ch is not None and ch[0] == "new" and ch[1].endswith(":SegmentChainer")
                    sc = dict(ch[2]).get("sequentialityScorer") if chain_ok else None
                    chain_ok = chain_ok and sc is not None and sc[0] == "new" and sc[1].endswith(":SequentialityScorer")
                    ck.judge(bool(chain_ok), "C01.2", "factory:Aligner.segmentConflictResolver", where(factory, node),
                             "the aligner is wired with AlignmentSegmentConflictResolver(SegmentChainer(SequentialityScorer(...)))",
                             found=T.show(r)[:200] if r else "None")
                    for k, cls in (("scorer", "AlignmentPositionScorer"), ("segmentsFactory", "AlignmentSegmentsFactory"),
                                   ("alignmentEngine", "AlignerEngine")):
                        t2 = a.get(k)
                        ck.judge(t2 is not None and t2[0] == "new" and t2[1].endswith(":" + cls), "C01.2",
                                 f"factory:Aligner.{k}", where(factory, node), f"Aligner.{k} is a {cls}",
                                 found=T.show(t2)[:100] if t2 else "None")
                    break
    ck.floor("C01.2 Aligner constructions in the factory", seen, 1)
    # resolveConflicts itself: fewer than two segments pass through unchanged, otherwise the pairwise pass runs
    rc = p.find_method("AlignmentSegmentConflictResolver", "resolveConflicts")
    from ..rules.common import select_cases
    rcls = rc.enclosing_class
    loop_mates = [m for m in rcls.methods.values() if m is not rc and any(isinstance(n, (ast.For, ast.While)) for n in ast.walk(m.node))
                  and not any(isinstance(x, (ast.Yield, ast.YieldFrom)) for x in ast.walk(m.node))]
    for pa in explore(ck, rc, unroll=(0, 1), follow=lambda callee: callee in loop_mates):
      if pa.outcome != "return":
          continue
      for v, extra in select_cases(pa.value):
        segs = dict(v[2]).get("segments") if v[0] == "new" else None
        if segs is None:
            raise AnalysisError(f"{where(rc, pa.node)}: resolveConflicts does not return AlignmentSegmentsWithResolvedConflicts")
        want = T.mk_lt(T.mk_call("len", [V("segments")]), C(2))
        assumptions = [(c, tv) for c, tv, _ in pa.state.assumptions] + list(extra)
        if segs == V("segments"):
            asserted = [c for c, tv in assumptions if tv and c[0] in ("lt", "le") and
                        T.contains(c, T.mk_call("len", [V("segments")]))]
            negated = [T.mk_not(c) for c, tv in assumptions if not tv and
                       T.contains(c, T.mk_call("len", [V("segments")]))]
            conds = asserted + negated
            if not conds:
                ck.violation("C01.2", "resolveConflicts:passthrough", where(rc, pa.node),
                             "segments are returned without conflict resolution unconditionally", found=pa.describe()[:200],
                             required="only when len(segments) < 2")
            else:
                ck.judge(conds == [want], "C01.2", "resolveConflicts:passthrough", where(rc, pa.node),
                         "segments are returned unresolved only when there are fewer than two",
                         found="; ".join(T.show(c) for c in conds), required=T.show(want))
        else:
            # (the pairwise walk over that chain is C01.3's subject, judged from this same entry point)
            def is_chain(t, param):
                return t[0] == "app" and t[1].endswith("SegmentChainer.chain") and t[2] == self_attr("segmentChainer") \
                    and dict(t[3]).get("segments") == param
            ok = is_chain(segs, V("segments"))
            if not ok and segs[0] == "app" and any(m.qualname == segs[1] for m in loop_mates) and \
                    [v for _, v in segs[3]] == [V("segments")]:
                # the call sits inside an expression (not followed): read the class-mate on its own
                mate = next(m for m in loop_mates if m.qualname == segs[1])
                mp = V(mate.call_params()[0].name)
                mrets = [q.value for q in explore(ck, mate, unroll=(0, 1)) if q.outcome == "return"]
                ok = bool(mrets) and all(is_chain(r, mp) for r in mrets)
            ck.judge(ok, "C01.2", "resolveConflicts:resolved", where(rc, pa.node),
                     "two or more segments are returned as the injected chainer's chain (after the pairwise resolution walked over it)",
                     found=T.show(segs)[:160], required="self.segmentChainer.chain(segments), resolved in place")


# ---------------------------------------------------------------------------------------------------------- C01.3
def joined_is_collinear(ck, rule):
    """What decides whether two records of a query are joined looks at orientation, reference id and the distance on the REFERENCE
    only; the pair resolution trims overlaps but never asks in which order the two parts lie in the QUERY. Parts that are close on
    the reference but swapped (translocated block) or repeated (tandem duplication) in the query join to a record whose query label
    numbers are not monotone. The join has to test the joined record (or the parts' query order) before it hands it back."""
    p = ck.ctx.p
    ck.clause(rule, "two records are joined only to a record that is itself collinear: the join tests neighbouring pairs of the joined "
                    "record on both sequences (the eligibility test and the pair resolution look at the reference only; parts swapped or "
                    "repeated in the query would join to non-monotone query label numbers)")
    row = p.find_class("AlignmentResultRow")
    fn = row.methods.get("resolve") if row else None
    if fn is None or fn.self_name is None:
        cands = [m for m in (row.methods.values() if row else []) if m.self_name and any(
            isinstance(x, ast.Attribute) and x.attr == "resolveConflict" for x in ast.walk(m.node))]
        fn = cands[0] if cands else None
    if fn is None:
        raise AnalysisError("the method of AlignmentResultRow that joins two records was not found")

    def is_create(e):
        return isinstance(e, ast.Call) and isinstance(e.func, ast.Attribute) and e.func.attr == "create" \
            and "AlignmentResultRow" in ast.unparse(e.func.value)

    def monotone_test(f) -> bool:
        """the body compares neighbouring pairs strictly on a reference and on a query label number / coordinate"""
        src_ok = any(isinstance(x, ast.Call) and ast.unparse(x.func) in ("zip", "itertools.pairwise", "pairwise") for x in ast.walk(f.node)) or \
            any(isinstance(x, ast.Subscript) and isinstance(x.slice, ast.BinOp) for x in ast.walk(f.node))
        axes = set()
        for c in ast.walk(f.node):
            if isinstance(c, ast.Compare) and all(isinstance(o, (ast.Lt, ast.Gt)) for o in c.ops):
                txt = ast.unparse(c)
                for ax in ("reference", "query"):
                    if f".{ax}.siteId" in txt or f".{ax}.position" in txt:
                        axes.add(ax)
        return src_ok and axes == {"reference", "query"}

    parents = {c: par for par in ast.walk(fn.node) for c in ast.iter_child_nodes(par)}
    creates = [n for n in ast.walk(fn.node) if is_create(n)]
    if not creates:
        raise AnalysisError(f"{fn.where}: the joined record is not built by AlignmentResultRow.create here")
    for cr in creates:
        par = parents.get(cr)
        w = where(fn, cr)
        construct = "AlignmentResultRow.resolve:joined-record:collinear"
        if isinstance(par, ast.Return):
            # the test may sit in the caller (AlignmentResults.resolve judging what it got back): then this rule does not decide
            res_cls = p.find_class("AlignmentResults")
            caller = res_cls.methods.get("resolve") if res_cls else None
            helpers = {m0.name for m0 in row.methods.values() if m0 is not fn and monotone_test(m0)}
            from ..loader import mangle as _mg0
            if caller is not None and any(isinstance(y, ast.Attribute) and (_mg0(y.attr, row.name) in helpers or y.attr in helpers)
                                          for y in ast.walk(caller.node)):
                raise AnalysisError(f"{w}: the joined record is handed back untested here, but {short(caller)} applies a pair-by-pair test "
                                    "of the row class - whether every joined record passes through it is not decided by this rule")
            ck.violation(rule, construct, w,
                         "the joined record is handed back as it is built: nothing on the way from 'same orientation, same reference, close "
                         "on the reference' to the record compares the parts' order in the query - a part that lies BEFORE the other on the "
                         "reference and AFTER it in the query (swapped block, tandem duplication; default parameters, -oM joined / all / best) "
                         "joins to a record such as (81,18)(82,19)(83,20)(103,4)(104,5)...: query label numbers not increasing on '+'",
                         found=ast.unparse(par)[:120], required="return the joined record only if its neighbouring pairs ascend on the "
                         "reference and run strictly one way in the query; otherwise report the parts separately")
            continue
        if isinstance(par, ast.Assign) and len(par.targets) == 1 and isinstance(par.targets[0], ast.Name):
            name = par.targets[0].id
            rets = [r for r in ast.walk(fn.node) if isinstance(r, ast.Return) and isinstance(r.value, ast.Name) and r.value.id == name]
            if not rets:
                # `return joined if joined.<test>() else None`
                cond_rets = [r for r in ast.walk(fn.node) if isinstance(r, ast.Return) and isinstance(r.value, ast.IfExp)
                             and isinstance(r.value.body, ast.Name) and r.value.body.id == name
                             and (r.value.orelse is None or (isinstance(r.value.orelse, ast.Constant) and r.value.orelse.value is None))
                             and isinstance(r.value.test, ast.Call) and isinstance(r.value.test.func, ast.Attribute)
                             and isinstance(r.value.test.func.value, ast.Name) and r.value.test.func.value.id == name]
                if cond_rets:
                    from ..loader import mangle as _mg
                    g0 = cond_rets[0].value.test
                    helper0 = p.lookup_method(row, _mg(g0.func.attr, row.name), None) or p.lookup_method(row, g0.func.attr, None)
                    if helper0 is not None and monotone_test(helper0):
                        ck.ok(rule, construct, where(fn, cond_rets[0]), f"handed back only when {helper0.name} holds (conditional expression)")
                        continue
                    raise AnalysisError(f"{where(fn, cond_rets[0])}: the test of the joined record is not recognised")
                # positively recognised: what is handed back under the test is not the record that was tested
                derived = [r for r in ast.walk(fn.node) if isinstance(r, ast.Return) and r.value is not None and not isinstance(r.value, ast.Name)
                           and any(isinstance(y, ast.Name) and y.id == name for y in ast.walk(r.value))]
                if derived:
                    ck.violation(rule, construct, where(fn, derived[0]),
                                 f"the record that is tested (`{name}`) is not the record that is handed back: another record is derived "
                                 "from it AFTER the test - what is added or re-ordered then (further segments of the parts that were "
                                 "never resolved against the other part) has not been tested, and the joined record can repeat labels "
                                 "and run backwards again", found=ast.unparse(derived[0])[:160],
                                 required=f"return {name} (the tested record itself)")
                    continue
                raise AnalysisError(f"{w}: where the joined record `{name}` is handed back was not found")
            for r in rets:
                guard = None
                cur = r
                while cur in parents and parents[cur] is not fn.node:
                    if isinstance(parents[cur], ast.If) and any(cur is b for b in parents[cur].body):
                        t = parents[cur].test
                        # the test has to IMPLY the call: the call itself or a conjunct of it - an alternative joined with `or`
                        # lets the record through without it
                        conj = list(t.values) if isinstance(t, ast.BoolOp) and isinstance(t.op, ast.And) else [t]
                        def tests_the_record(x):
                            # joined.<test>()  or  <Class / self>.<test>(joined.alignedPairs, ...)
                            if not (isinstance(x, ast.Call) and isinstance(x.func, ast.Attribute)):
                                return False
                            if isinstance(x.func.value, ast.Name) and x.func.value.id == name:
                                return True
                            return any(isinstance(y, ast.Name) and y.id == name for a0 in list(x.args) + [k0.value for k0 in x.keywords]
                                       for y in ast.walk(a0))
                        for x in conj:
                            if tests_the_record(x):
                                guard = x
                        if guard is None and isinstance(t, ast.BoolOp) and isinstance(t.op, ast.Or) and any(
                                tests_the_record(x) for x in t.values):
                            ck.violation(rule, construct, where(fn, r),
                                         "the test of the joined record is one alternative of an `or`: whenever the other alternative holds "
                                         "the record is handed back untested - a coarse comparison of the parts' header coordinates is no "
                                         "substitute (on '-' the header holds mirrored coordinates that ascend along the reference: the "
                                         "comparison is inverted there and lets exactly the swapped parts through)",
                                         found=ast.unparse(t)[:160], required="the pair-by-pair test alone (or in conjunction with further tests)")
                            guard = False
                            break
                    cur = parents[cur]
                if guard is False:
                    continue
                if guard is None:
                    # `if not joined.<test>(): return None` in front of the return, in the same block
                    blk = parents.get(r)
                    body = next((b for b in (getattr(blk, "body", None), getattr(blk, "orelse", None)) if b and r in b), None)
                    for st in (body[:body.index(r)] if body else []):
                        if isinstance(st, ast.If) and isinstance(st.test, ast.UnaryOp) and isinstance(st.test.op, ast.Not) \
                                and isinstance(st.test.operand, ast.Call) and isinstance(st.test.operand.func, ast.Attribute) \
                                and isinstance(st.test.operand.func.value, ast.Name) and st.test.operand.func.value.id == name \
                                and st.body and isinstance(st.body[-1], ast.Return) and (
                                    st.body[-1].value is None or (isinstance(st.body[-1].value, ast.Constant) and st.body[-1].value.value is None)):
                            guard = st.test.operand
                if guard is None:
                    ck.violation(rule, construct, where(fn, r), "the joined record is handed back untested (see the clause)",
                                 found=ast.unparse(r), required="a test of the joined record's pairs on both sequences")
                    continue
                from ..loader import mangle
                helper = p.lookup_method(row, mangle(guard.func.attr, row.name), None) or p.lookup_method(row, guard.func.attr, None)
                if helper is None:
                    raise AnalysisError(f"{where(fn, guard)}: the test {ast.unparse(guard)[:60]} of the joined record could not be resolved")
                if monotone_test(helper):
                    ck.ok(rule, construct, where(fn, r), f"handed back only when {helper.name} holds: neighbouring pairs compared strictly "
                          "on reference and query")
                else:
                    raise AnalysisError(f"{helper.where}: the test the joined record has to pass is not recognised as a comparison of "
                                        "neighbouring pairs on both sequences")
            continue
        raise AnalysisError(f"{w}: what happens to the joined record is not recognised")
    ck.floor(rule + " joined-record constructions", len(creates), 1)


def emptied_member(ck, rule):
    """A chain member that a resolution empties must not shield its two neighbours from each other. The pass compares index
    neighbours (i, i+1) once; the empty segment answers every conflict test with 'no conflict'; a resolution can hand back an empty
    segment (segment - <all of it> goes through AlignmentSegment.create, which returns the empty segment for no positions). The three
    together: after (i, i+1) empties i+1, the step (i+1, i+2) compares nothing, and i and i+2 - now neighbours - are never compared;
    a pair they share stays in both, and the record lists a label twice."""
    p = ck.ctx.p
    ck.clause(rule, "a chain member emptied by a resolution does not shield its neighbours from each other: the pass resolves every "
                    "segment against its nearest predecessor that still has positions")
    cls = p.find_class("AlignmentSegmentConflictResolver")
    with_loop = [m for m in cls.methods.values() if any(isinstance(n, (ast.For, ast.While)) for n in ast.walk(m.node))]
    if not with_loop:
        raise AnalysisError(f"{cls.where}: the pairwise pass of the resolver was not found")
    fn = with_loop[0]
    looks_at_emptiness = any(isinstance(x, ast.Attribute) and x.attr == "empty" for x in ast.walk(fn.node))
    empty_cls = p.find_class("EmptyAlignmentSegment")
    chk = empty_cls.methods.get("checkForConflicts")
    always_none = chk is not None and all(
        pa.value is not None and ((pa.value[0] == "new" and pa.value[1].endswith("NoConflict")) or (pa.value[0] == "app" and "NoConflict" in pa.value[1]))
        and not pa.state.assumptions for pa in explore(ck, chk) if pa.outcome == "return")
    seg = p.find_class("AlignmentSegment")
    create = p.lookup_method(seg, "create", None)
    can_empty = create is not None and any(
        any(x[0] == "new" and x[1].endswith(":EmptyAlignmentSegment") for x in T.subterms(pa.value))
        for pa in explore(ck, create) if pa.outcome == "return" and pa.value is not None)
    sub = seg.methods.get("__sub__")
    through_create = sub is not None and any(isinstance(x, ast.Attribute) and x.attr == "create" for x in ast.walk(sub.node))
    if always_none and can_empty and through_create and not looks_at_emptiness:
        ck.violation(rule, "AlignmentSegmentConflictResolver:pairwise-pass:emptied-member", fn.where,
                     "the pass resolves index neighbours (i, i+1) only, an emptied member answers 'no conflict' to everything, and a "
                     "resolution can empty a member: its two neighbours are then never compared - a pair they share stays in both "
                     "segments and the record lists a reference and a query label twice (three single-pair segments of neighbouring "
                     "seeds that share one pair, -ms 500 -bs 300)",
                     found=f"{short(chk)} -> no conflict unconditionally; {short(create)} -> EmptyAlignmentSegment; {short(fn)} never looks at .empty",
                     required="each segment resolved against its nearest non-empty predecessor")
    elif looks_at_emptiness:
        ck.ok(rule, "AlignmentSegmentConflictResolver:pairwise-pass:emptied-member", fn.where, "the pass looks at the emptiness of chain members", "")
    else:
        ck.ok(rule, "AlignmentSegmentConflictResolver:pairwise-pass:emptied-member", fn.where, "an emptied member cannot shield its neighbours",
              f"always-no-conflict={always_none}, create-can-empty={can_empty}, sub-through-create={through_create}")


def pairwise_pass(ck, rule):
    """The resolver walks {(i, i+1)} over the whole chain; in each step the conflict pair is built from the chain's
    *current* contents and both results are written back to the pair's own slots."""
    ctx = ck.ctx
    p = ctx.p
    cls = p.find_class("AlignmentSegmentConflictResolver")
    entry = p.find_method("AlignmentSegmentConflictResolver", "resolveConflicts")
    # the walk is explored from the resolver's entry point, reading through the class's own loop-carrying methods (so it does
    # not matter in which of them the chain is computed and in which the loop runs); the index generator stays a call
    with_loop = [m for m in cls.methods.values() if any(isinstance(n, (ast.For, ast.While)) for n in ast.walk(m.node))]
    fn = next((m for m in with_loop if m is not entry), entry)

    def mates(callee):
        return callee in with_loop and callee is not entry and \
            not any(isinstance(x, (ast.Yield, ast.YieldFrom)) for x in ast.walk(callee.node))
    # the pass visits every consecutive pair: no way out of the loop that depends on what a segment looks like
    all_loops = [x for x in ast.walk(fn.node) if isinstance(x, (ast.For, ast.While))]
    outer_loops = [lp for lp in all_loops if not any(lp is not o and any(y is lp for y in ast.walk(o)) for o in all_loops)]
    for lp in outer_loops:
        for br in [x for x in ast.walk(lp) if isinstance(x, (ast.Break, ast.Return))]:
            if isinstance(br, ast.Break) and any(o is not lp and any(y is br for y in ast.walk(o)) for o in all_loops
                                                 if any(y is o for y in ast.walk(lp))):
                continue                  # leaves an inner loop (the search for a predecessor), not the pass over the chain
            guard = None
            for i0 in [x for x in ast.walk(lp) if isinstance(x, ast.If)]:
                if any(y is br for y in ast.walk(i0)):
                    guard = i0
            about_segments = guard is not None and any(isinstance(y, (ast.Subscript, ast.Attribute)) for y in ast.walk(guard.test))
            if about_segments:
                ck.violation(rule, short(fn) + ":early-exit", where(fn, br),
                             "the pairwise pass is left as soon as a segment looks a certain way: the pairs behind it are never "
                             "resolved (a chain member emptied by the conflict with its predecessor is not the end of the chain)",
                             found=ast.unparse(guard.test)[:120] + " -> " + ast.unparse(br), required="every (i, i+1) of the chain is resolved")
            elif guard is not None or isinstance(br, ast.Break):
                raise AnalysisError(f"{where(fn, br)}: the pairwise pass has an early exit that is not understood: {ast.unparse(br)}")
    paths = explore(ck, entry, unroll=(1,), follow=mates)
    entry_param = V(entry.call_params()[0].name)
    if fn is not entry and not any(e.kind == "setitem" for pa in paths for e in pa.events):
        # the loop-carrying method is called from inside an expression (such a call is not followed): read it on its own and
        # check separately that the entry point hands it the segments it received
        calls = [x for pa in paths if pa.value is not None for x in T.subterms(pa.value) if x[0] == "app" and x[1] == fn.qualname]
        if calls:
            ck.judge(all([v for _, v in x[3]] == [entry_param] for x in calls), rule, short(entry) + ":hand-over", entry.where,
                     "the pairwise pass receives the segments the resolver was given", found=T.show(calls[0])[:160])
            paths = explore(ck, fn, unroll=(1,))
            entry_param = V(fn.call_params()[0].name)
    n = 0
    judged_gen = False
    judged_chain = set()
    for pa in paths:
        all_stores = [e for e in pa.events if e.kind == "setitem"]
        if not all_stores:
            continue
        chain = all_stores[0].extra["base"]
        if chain not in judged_chain:
            judged_chain.add(chain)
            ok = chain[0] == "app" and chain[1].endswith("SegmentChainer.chain") and chain[2] == self_attr("segmentChainer") \
                and dict(chain[3]).get("segments") == entry_param
            ck.judge(ok, rule, short(fn) + ":chain", where(fn, all_stores[0].node),
                     "the list walked is the injected chainer's chain of all segments",
                     found=T.show(chain)[:120], required="self.segmentChainer.chain(segments)")
        stores = [e for e in pa.events if e.kind == "setitem" and e.extra["base"] == chain]
        if not stores:
            continue
        w = where(fn, stores[0].node)
        if len(stores) != 2:
            ck.violation(rule, short(fn) + ":write-back", w, "results of a conflict pair are not written back to two slots",
                         found=f"{len(stores)} stores", required="chain[i0], chain[i1] = pair.resolveConflict()")
            continue
        n += 1
        (e0, e1) = stores
        v0, v1 = e0.term, e1.term
        ok_vals = v0[0] == "idx" and v1[0] == "idx" and v0[1] == v1[1] and {v0[2], v1[2]} == {C(0), C(1)}
        if not ok_vals:
            raise AnalysisError(f"{w}: values written back are not the two components of one result: {T.show(v0)[:80]} / {T.show(v1)[:80]}")
        left_store, right_store = (e0, e1) if v0[2] == C(0) else (e1, e0)
        i0, i1 = left_store.extra["index"], right_store.extra["index"]
        res = v0[1]
        is_res = (res[0] == "mcall" and res[2] == "resolveConflict") or (res[0] == "app" and res[1].endswith(".resolveConflict"))
        if not is_res:
            raise AnalysisError(f"{w}: written values do not come from resolveConflict(): {T.show(res)[:120]}")
        pair = res[1] if res[0] == "mcall" else res[2]
        if pair is None:
            raise AnalysisError(f"{w}: the receiver of resolveConflict() is not visible in {T.show(res)[:160]}")
        want_pair_shape = pair[0] == "app" and pair[1].endswith(".checkForConflicts")
        if not want_pair_shape:
            ck.violation(rule, short(fn) + ":pair", w,
                         "the conflict pair resolved in a step is not built from the chain's current contents in that step (a pair "
                         "computed earlier still holds the un-trimmed neighbour, so a trim made by the previous step is lost)",
                         found=T.show(pair)[:240], required="chain[i0].checkForConflicts(chain[i1]) evaluated inside the step")
            continue
        left, right = pair[2], list(dict(pair[3]).values())[0]
        ck.judge(left == T.mk_idx(chain, i0) and right == T.mk_idx(chain, i1), rule, short(fn) + ":pair", w,
                 "the conflict pair is (chain[i0] as left, chain[i1] as right) and the left/right results go back to slots i0/i1",
                 found=f"pair({T.show(left)[-60:]}, {T.show(right)[-60:]}) -> left result to [{T.show(i0)[-40:]}], right result to "
                       f"[{T.show(i1)[-40:]}]", required="chain[i0], chain[i1] = chain[i0].checkForConflicts(chain[i1]).resolveConflict()")
        # the repaired form of the pass: every segment against its nearest predecessor that still has positions -
        #   for i1 in range(1, len(chain)): for i0 in range(i1 - 1, -1, -1): <skip empty chain[i0]> ... resolve(i0, i1)
        if not judged_gen and i1[0] == "elem" and i1[1] == T.mk_call("range", [C(1), T.mk_call("len", [chain])]) and \
                i0[0] == "elem" and i0[1] == T.mk_call("range", [T.p_sub(i1, C(1)), C(-1), C(-1)]):
            skips_empty = False
            for c0, tv0, _ in pa.state.assumptions:
                cp, pos0 = T.positive(T.as_bool(c0))
                if any(x0[0] == "attr" and x0[2] == "empty" for x0 in T.subterms(cp)) and (tv0 if pos0 else (not tv0)) is False:
                    skips_empty = True
            ck.judge(True, rule, short(fn) + ":length", w, "every chain member from the second on is resolved", found=T.show(i1[1])[:80])
            ck.judge(skips_empty, rule, short(fn) + ":neighbours", w,
                     "each member is resolved against its nearest predecessor that still has positions (emptied members are skipped)",
                     found=T.show(i0[1])[:80], required="predecessors walked downwards from i1 - 1, empty ones skipped")
            judged_gen = True
        # index generator
        if not judged_gen and i0[0] == "elem" and i0[1][0] == "call" and i0[1][1] == "range" and not i0[1][3]:
            # the indexes are written in place: for i in range(len(chain) - 1): ... chain[i], chain[i + 1]
            rargs = i0[1][2]
            lo, hi = (C(0), rargs[0]) if len(rargs) == 1 else (rargs[0], rargs[1]) if len(rargs) == 2 else (None, None)
            ck.judge(lo == C(0) and hi == T.p_sub(T.mk_call("len", [chain]), C(1)), rule, short(fn) + ":length", w,
                     "index pairs are generated for the whole chain", found=T.show(i0[1])[:120], required="range(len(chain) - 1)")
            neighbours = i1 == T.p_add(i0, C(1))
            if not neighbours and i1[0] == "elem" and i1[1][0] == "call" and i1[1][1] == "range" and not i1[1][3] and i1[2] == i0[2] \
                    and len(i1[1][2]) == 2:
                # zip(range(n - 1), range(1, n)): the k-th elements are k and 1 + k, and both ranges have n - 1 elements
                lo1, hi1 = i1[1][2]
                neighbours = lo == C(0) and lo1 == C(1) and T.p_sub(hi1, lo1) == T.p_sub(hi, lo)
            ck.judge(neighbours, rule, short(fn) + ":neighbours", w, "a step resolves slot i against slot i + 1",
                     found=f"[{T.show(i0)[-40:]}] with [{T.show(i1)[-60:]}]", required="i and i + 1")
            judged_gen = True
        if not judged_gen:
            gens = [x for x in T.subterms(i0) if x[0] == "app" and x != chain and not T.contains(chain, x)]
            if not gens:
                raise AnalysisError(f"{w}: index pairs are not produced by a repository function: {T.show(i0)[:120]}")
            g = gens[0]
            gen_fn = p.get_function(g[1])
            length = list(dict(g[3]).values())[0] if g[3] else None
            ck.judge(length == T.mk_call("len", [chain]), rule, short(fn) + ":length", w, "index pairs are generated for the whole chain",
                     found=T.show(length)[:80] if length else "None", required="len(chain)")
            it_elem = [x for x in T.subterms(i0) if x[0] == "elem"]
            direct = i0 == T.mk_idx(it_elem[0], C(0)) and i1 == T.mk_idx(it_elem[0], C(1)) if it_elem else False
            if not direct:
                ck.observe(f"{w}: index pair reaches the step through {T.show(i0)[:80]}")
            n_param = V(gen_fn.call_params()[0].name)
            verdict, found = _pair_generator(ck, gen_fn, n_param)
            if verdict is None:
                raise AnalysisError(f"{gen_fn.where}: consecutive-pair generator idiom not recognised: {found}")
            ck.judge(verdict, rule, short(gen_fn), gen_fn.where, "index generator yields (i, i+1) for every 0 <= i < n-1",
                     found=found, required="{(i, i+1) | 0 <= i < n-1}")
            judged_gen = True
    ck.floor(f"{rule} write-back paths", n, 1)


def _judge_index_expr(ck, rule, fn, lp, ctx, chain):
    raise AnalysisError(f"{where(fn, lp)}: index pairs are not produced by a repository function; idiom not recognised")


def _pair_generator(ck, gen_fn, n):
    """True/False/None and a description, for the recognised consecutive-pair idioms."""
    paths = [pa for pa in explore(ck, gen_fn, unroll=(0, 1)) if pa.outcome == "return"]
    if not paths and any(isinstance(x, (ast.Yield, ast.YieldFrom)) for x in ast.walk(gen_fn.node)):
        # a generator function: read as the generator expression it spells out (sa/norm.py), if it is that simple
        from ..norm import Normalizer
        try:
            v = Normalizer(ck.ctx, gen_fn)._body_to_term(list(gen_fn.body))
        except AnalysisError:
            v = None
        if v is None:
            return None, "generator function that is not a single loop around one yield"

        class _NoEvents:
            events = ()
        pa = _NoEvents()
    elif len(paths) != 1:
        return None, f"{len(paths)} return paths"
    else:
        pa = paths[0]
        v = pa.value
    rng = T.mk_call("range", [n])
    # idiom A: a, b = tee(range(n)); next(b, None); return zip(a, b)
    if v[0] == "call" and v[1] == "zip" and len(v[2]) == 2:
        a, b = v[2]
        if a == b and a[0] == "call" and a[1] == "iter":
            # zip(it, it) over ONE iterator takes two elements per step: the disjoint pairs (0,1), (2,3), ...
            return False, f"zip of one iterator with itself: {T.show(v)[:120]} yields (0,1), (2,3), ... - every second neighbour pair is skipped"
        if a[0] == "idx" and b[0] == "idx" and a[1] == b[1] and a[1][0] == "call" and a[1][1].endswith("tee") \
                and a[2] == C(0) and b[2] == C(1):
            base = a[1][2][0]
            advanced = [e for e in pa.events if e.kind == "call" and e.term[0] == "call" and e.term[1] == "next"
                        and e.term[2] and e.term[2][0] == b]
            advanced_a = [e for e in pa.events if e.kind == "call" and e.term[0] == "call" and e.term[1] == "next"
                          and e.term[2] and e.term[2][0] == a]
            desc = f"zip(tee(...)[0], tee(...)[1]) over {T.show(base)}, second iterator advanced {len(advanced)}x, first {len(advanced_a)}x"
            return (base == rng and len(advanced) == 1 and not advanced_a), desc
        # idiom B: zip(range(0, s0), range(1, s1)) yields (k, k+1) for k < min(s0, s1 - 1); that is n-1 pairs iff
        # min(s0, s1 - 1) == n - 1
        def rng_of(r):
            if r[0] == "call" and r[1] == "range" and not r[3]:
                if len(r[2]) == 1:
                    return C(0), r[2][0]
                if len(r[2]) == 2:
                    return r[2][0], r[2][1]
            return None
        ra, rb = rng_of(a), rng_of(b)
        if ra is not None and rb is not None:
            if ra[0] != C(0) or rb[0] != C(1):
                return False, T.show(v)
            la, lb = ra[1], T.p_sub(rb[1], C(1))          # numbers of elements
            want = T.p_sub(n, C(1))
            da, db = T.p_sub(la, want), T.p_sub(lb, want)  # both must be >= 0 and one of them == 0
            if T.is_num_const(da) and T.is_num_const(db):
                return (min(da[1], db[1]) == 0), T.show(v)
            return None, T.show(v)
        # zip(r[::2], r[1::2]) (any stride above 1): the disjoint pairs (0,1), (2,3), ... - never (1,2)
        def stride(x):
            return x[4][1] if x[0] == "slice" and x[4][0] == "c" and isinstance(x[4][1], int) else None
        if a[0] == "slice" and b[0] == "slice" and a[1] == b[1] and (stride(a) or 1) > 1 and stride(a) == stride(b):
            return False, f"{T.show(v)[:120]} yields the disjoint pairs (0,1), (2,3), ...: every second neighbour pair of the chain is never resolved"
        # zip(r[:-1], r[1:]): the same pairs as idiom C (zip stops with the shorter operand anyway)
        if a[0] == "slice" and b[0] == "slice" and a[1] == b[1] and a[2:] == (T.NONE, C(-1), T.NONE) and b[2:] == (C(1), T.NONE, T.NONE):
            return (a[1] in (rng, T.mk_call("list", [rng]))), T.show(v)
        # idiom C: zip(r, r[1:])
        if b == ("slice", a, C(1), T.NONE, T.NONE):
            return (a in (rng, T.mk_call("list", [rng]))), T.show(v)
    if v[0] == "call" and v[1].endswith("pairwise") and len(v[2]) == 1:
        return (v[2][0] == rng), T.show(v)
    if v[0] == "comp" and v[2][0] == "tuple" and len(v[3]) == 1:
        it = v[3][0][0]
        bv = None
        for x in T.subterms(v[2]):
            if x[0] == "bv":
                bv = x
        if v[3][0][1] or bv is None or len(v[2][1]) != 2:
            return False, T.show(v)
        # (bv + c0, bv + c1) for bv in range(a, b)  yields  (k, k + 1) for 0 <= k < n - 1   iff  c1 - c0 == 1, a + c0 == 0, b + c0 == n - 1
        c0, c1 = T.p_sub(v[2][1][0], bv), T.p_sub(v[2][1][1], bv)
        if not (T.is_num_const(c0) and T.is_num_const(c1)) and not (c0 == C(0)):
            return None, T.show(v)
        if it[0] == "call" and it[1] == "range" and not it[3] and len(it[2]) in (1, 2):
            a, b = (C(0), it[2][0]) if len(it[2]) == 1 else (it[2][0], it[2][1])
        else:
            return None, T.show(v)
        ok = T.p_sub(c1, c0) == C(1) and T.p_add(a, c0) == C(0) and T.p_add(b, c0) == T.p_sub(n, C(1))
        return ok, T.show(v)
    return None, T.show(v)[:200]


# ---------------------------------------------------------------------------------------------------------- C01.4
def _one_per_key_min(ctx, t):
    """(min(group, key=K2) for _, group in groupby(sorted(X, key=K), K))  ->  dict(key, sort_key, input, nearest, node term)"""
    while t[0] == "call" and t[1] in ("list", "iter", "tuple") and len(t[2]) == 1 and not t[3]:
        t = t[2][0]
    if t[0] != "comp" or len(t[3]) != 1:
        return None
    it, ifs = t[3][0]
    if ifs or not (it[0] == "call" and it[1].endswith("groupby") and len(it[2]) >= 1):
        return None
    k = it[2][1] if len(it[2]) > 1 else dict(it[3]).get("key")
    inp = it[2][0]
    while inp[0] == "call" and inp[1] in ("list", "iter", "tuple") and len(inp[2]) == 1 and not inp[3]:
        inp = inp[2][0]
    sspec = sort_spec(inp)
    elt = t[2]
    nearest = elt[0] == "call" and elt[1] == "min" and len(elt[2]) == 1 and key_path(ctx, dict(elt[3]).get("key")) == ("distance",)
    return {"key": key_path(ctx, k), "sort_key": key_path(ctx, sspec[1]) if sspec else None, "sorted": sspec is not None,
            "descending": sspec[2] if sspec else None, "input": sspec[0] if sspec else inp, "nearest": nearest, "elt": elt, "gb": it}


def dedupe(ck, rule):
    ctx = ck.ctx
    p = ctx.p
    fn = p.find_method("AlignedPair", "deduplicate")
    # the one-per-key helper is read through its body (whatever it is called): a generator that is nothing but a loop over
    # groupby(...) around one `yield` is the comprehension it spells out
    rets = [pa for pa in explore(ck, fn, inline=3) if pa.outcome == "return"]
    if len(rets) != 1:
        raise AnalysisError(f"{fn.where}: deduplicate expected to have a single return")
    v = rets[0].value
    w = where(fn, rets[0].node)
    param = V(fn.call_params()[0].name)
    levels = []
    cur = v
    while True:
        spec = _one_per_key_min(ctx, cur)
        if spec is None:
            break
        levels.append(spec)
        cur = spec["input"]
    if not levels:
        # positively recognised: "keep every pair whose distance equals the smallest distance of its key" - a filter, not a selection
        for g in [x for x in T.subterms(v) if x[0] == "app" and x[1] in p.functions]:
            gfn = p.functions[g[1]]
            for gpa in explore(ck, gfn, unroll=(0, 1)):
                gv = gpa.value if gpa.outcome == "return" else None
                while gv is not None and gv[0] == "call" and gv[1] in ("list", "iter", "tuple") and len(gv[2]) == 1:
                    gv = gv[2][0]
                if gv is None or gv[0] != "comp" or len(gv[3]) != 1:
                    continue
                for cond in gv[3][0][1]:
                    if cond[0] == "eq" and any(x[0] == "attr" and x[2] == "distance" and x[1][0] == "bv" for x in T.subterms(cond)) \
                            and gv[2][0] == "bv":
                        ck.violation(rule, short(gfn) + ":ties", where(gfn, gpa.node),
                                     "one-per-key selection is written as a filter `distance == smallest distance of the key`: every "
                                     "pair that ties for the smallest distance is kept, so a label that lies exactly half way between "
                                     "two partners stays in two pairs", found=T.show(gv)[:200], required="min(group, key=distance): exactly one pair per key")
                        return
        raise AnalysisError(f"{w}: one-per-key selection (min over groupby over sorted) not recognised: {T.show(v)[:200]}")
    keys = [lv["key"] for lv in levels]
    ck.judge(cur == param and len(keys) == 2 and set(keys) == {("query", "siteId"), ("reference", "siteId")},
             rule, short(fn), w, "de-duplication = one-per-key by query label composed with one-per-key by reference label",
             found=f"keys {keys} over {T.show(cur)[:60]}", required="both ('query','siteId') and ('reference','siteId')")
    n = 0
    for i, lv in enumerate(levels):
        n += 1
        ck.judge(lv["nearest"], rule, f"{short(fn)}:level{i}:nearest", w, "each group keeps the pair with the minimum distance",
                 found=T.show(lv["elt"])[:200], required="min(group, key=distance)")
        ck.judge(lv["sorted"] and lv["sort_key"] == lv["key"] and lv["key"] is not None, rule, f"{short(fn)}:level{i}:grouping", w,
                 "all pairs are sorted and grouped by the same key", found=T.show(lv["gb"])[:160])
    ck.floor(f"{rule} emissions of the one-per-key helper", n, 1)
    # AlignedPair.distance = |queryShift| is judged under C04.4; the engine applies deduplicate to every candidate (C12.3)

"""C08 - output modes agree; joined records are justified by their parts (structural clauses).

  C08.1  mode exhaustiveness: every declared --outputMode choice is handled and ends in an explicit `return <rows>`;
         the factory sends exactly the non-choice value to the single-pass coordinator
  C08.2  mode table: main(all) == main(joined), _1(all) == main(separate), _2(all) == _1(separate) as terms after
         constant-propagating the mode; file numbers are literals; the number goes between stem and extension
  C08.3  AlignedRest: second-pass rows (and only they) pass setAlignedRest(True); first-pass/joined rows keep the default
  C08.4  join eligibility: same orientation and reference and reference gap <= maxDifference (inclusive); the CLI value
         reaches the test
  C08.5  AlignmentResults.resolve consumes every group member exactly once (separate xor joined)
  C08.6  a joined record is built from the first segments of the two parts through conflict resolution only, earlier
         part on the left, identity fields from the first part
  C08.7  the joined records are made from exactly the reported single-pass records: the rows handed to resolve are
         filtered(first pass) ++ filtered(second pass), the very terms written to _1 / _2 in mode 'all' (same term in
         'joined'; in 'best' the second operand is the reported second-pass list)
  C08.8  saveAdditionalOutput writes exactly the rows it is given (plain AlignmentResults constructor, no further
         per-query filtering: the _1 file of mode 'joined' legitimately holds two records of one query)
Declined: byte equality of files across runs; "union valid => joined == union".
"""
from __future__ import annotations

import ast

from ..loader import AnalysisError
from .. import terms as T
from ..terms import C, V
from ..paths import Explorer
from ..rules.common import explore, where, short, self_attr, path_terms
from ..rules.modes import declared_modes, mode_behaviour, multipass_execute, mode_constants_compared, MODE_ATTR


def run(ck):
    ctx = ck.ctx
    if ck.wants("C08.18"):
        no_value_carried_between_groups(ck, "C08.18")
    p = ctx.p
    ck.clause("C08.1", "every declared mode is handled and returns rows explicitly; factory dispatch")
    ck.clause("C08.2", "mode table agreement between 'all', 'joined' and 'separate'; file naming")
    ck.clause("C08.3", "AlignedRest True exactly for second-pass rows")
    ck.clause("C08.4", "join eligibility predicate and its wiring to --maxDifference")
    ck.clause("C08.5", "resolve: every row of a group is consumed exactly once")
    ck.clause("C08.6", "joined row = conflict resolution of the two parts' facing segments, earlier part left; nothing out of order")
    ck.clause("C08.7", "resolve receives exactly the reported first-pass ++ second-pass records")
    ck.clause("C08.8", "saveAdditionalOutput writes exactly the rows it is given (no per-query filter)")
    ctx = ck.ctx
    p = ctx.p
    ck.clause("C08.13", "the second pass re-aligns the fragments against the same references as the first pass received")
    ck.clause("C08.11", "what a mode writes does not hinge on a whole-run condition (is any second-pass row there at all?): the files "
                        "of the modes agree on every input (as C10.10)")
    from ..report import RuleView
    from . import c10
    c10.run_global_conditions(RuleView(ck, {"C10.10": "C08.11"}))

    modes, default, mnode = declared_modes(ck)
    execute = multipass_execute(ck)
    ck.floor("C08.1 declared modes", len(modes), 4)

    # ------------------------------------------------------------------ C08.1
    compared = mode_constants_compared(execute)
    unknown = [c for c in compared if c not in modes]
    for c in unknown:
        ck.violation("C08.1", f"execute:mode-constant:{c}", execute.where,
                     f"execute tests outputMode against {c!r}, which is not a declared choice (a mistyped mode name: the "
                     f"intended mode silently takes another branch)", found=repr(c), required=f"one of {modes}")
    behaviours = {}
    for m in modes:
        mb = mode_behaviour(ck, m, execute)
        behaviours[m] = mb
        probs = []
        if mb.falls:
            probs.append("a path falls off the end (implicit None: Program.run crashes or writes nothing)")
        for v, pa in mb.returned:
            if v == T.NONE:
                probs.append("returns None")
        if not mb.returned and not mb.falls:
            probs.append("no path")
        ck.judge(not probs, "C08.1", f"execute[{m}]:returns-rows", execute.where,
                 f"mode '{m}' ends in an explicit return of rows on all {mb.paths} path(s)",
                 found="; ".join(probs) if probs else None, required="explicit `return <rows>`")
        if default is not None and default not in modes:
            ck.violation("C08.1", "Args.parse:default-mode", execute.where, "default mode is not a declared choice",
                         found=repr(default))
    factory = p.find_method("WorkflowCoordinatorFactory", "create")
    multi = p.find_class("_MultiPassWorkflowCoordinator")
    for m in modes:
        for pa in explore(ck, factory, heap={MODE_ATTR: C(m)}):
            if pa.outcome != "return":
                ck.violation("C08.1", f"factory[{m}]", factory.where, "factory returns no coordinator for a declared mode")
                continue
            v = pa.value
            ok = v[0] == "new" and v[1] == multi.qualname
            ck.judge(ok, "C08.1", f"factory[{m}]", where(factory, pa.node),
                     f"mode '{m}' is served by the multi-pass coordinator", found=T.show(v)[:80],
                     required="_MultiPassWorkflowCoordinator(...)")

    # ------------------------------------------------------------------ C08.2
    def main_of(m):
        vals = {v for v, _ in behaviours[m].returned}
        if len(vals) != 1:
            raise AnalysisError(f"{execute.where}: mode '{m}' returns {len(vals)} different terms")
        return next(iter(vals))

    def file_of(m, n):
        out = [rows for rows, num, e, pa in behaviours[m].saves if num == C(n)]
        uniq = []
        for r in out:
            if r not in uniq:
                uniq.append(r)
        return uniq

    need = {"all", "joined", "separate"}
    if need <= set(modes):
        pairs = [("main(all) == main(joined)", main_of("all"), main_of("joined")),
                 ("_1(all) == main(separate)", file_of("all", 1), [main_of("separate")]),
                 ("_2(all) == _1(separate)", file_of("all", 2), file_of("separate", 1))]
        for label, a, b in pairs:
            if isinstance(a, list):
                if len(a) != 1 or len(b) != 1:
                    ck.violation("C08.2", f"mode-table:{label}", execute.where, "file is not written exactly once in each mode",
                                 found=f"{len(a)} vs {len(b)} writes", required="one write each")
                    continue
                a, b = a[0], b[0]
            ck.judge(a == b, "C08.2", f"mode-table:{label}", execute.where, label + " (same term after mode specialisation)",
                     found=f"{T.show(a)[:150]}  vs  {T.show(b)[:150]}" if a != b else T.show(a)[:120], required="identical terms")
    else:
        raise AnalysisError(f"modes {sorted(need - set(modes))} are no longer declared; the mode table cannot be compared")
    # expected number of files per mode
    expect_files = {"separate": [1], "joined": [1], "all": [1, 2], "best": []}
    for m, nums in expect_files.items():
        if m in behaviours:
            got = sorted(num[1] if num and num[0] == "c" else -1 for _, num, _, _ in behaviours[m].saves)
            paths = max(1, len({id(pa) for _, _, _, pa in behaviours[m].saves}) or 1)
            got_unique = sorted(set(got))
            ck.judge(got_unique == nums and all(num is not None and num[0] == "c" for _, num, _, _ in behaviours[m].saves),
                     "C08.2", f"execute[{m}]:file-numbers", execute.where, f"mode '{m}' writes additional files {nums}",
                     found=str(got_unique), required=str(nums))
    _file_naming(ck)

    # ------------------------------------------------------------------ C08.3
    _aligned_rest(ck, behaviours, execute)

    # ------------------------------------------------------------------ C08.4
    _eligibility(ck, behaviours, execute)

    # ------------------------------------------------------------------ C08.5
    _resolve_conservation(ck)

    # ------------------------------------------------------------------ C08.6
    _joined_row(ck)

    # ------------------------------------------------------------------ C08.7
    _resolve_input(ck, behaviours, execute, file_of)

    # ------------------------------------------------------------------ C08.8
    _save_writes_its_argument(ck)
    # ------------------------------------------------------------------ C08.11 / C08.12
    aliased_lists(ck, "C08.12")
    ck.clause("C08.14", "a record keeps the resolver's segments in the resolver's order (the join works on segments[0] of its parts)")
    record_segments_as_resolved(ck, "C08.14")
    ck.clause("C08.15", "the conflict region of a join is found by comparing label coordinates (as C15.7 / C11.6): label numbers descend "
                        "along a reverse-strand query, so an order by number makes both parts of a '-' join conflict entirely and one is dropped")
    from .c15 import comparators as _cmp08
    from .c11 import position_order as _po08
    _cmp08(ck, "C08.15")
    _po08(ck, "C08.15")
    ck.clause("C08.16", "the two parts of a join share one coordinate frame: second-pass fragments are aligned as they were cut - not "
                        "trimmed or rebuilt (as C02.4)")
    from .c02 import fragments_reach_second_pass as _frsp08
    _frsp08(ck, "C08.16")
    if ck.wants("C08.17"):
        from .c02 import records_frozen as _rf08
        _rf08(ck, "C08.17")         # the join reads segments[0] of the very row objects the -D plotters were handed inside the worker
    # argument roles in the multi-pass coordinator (reference / query lists are both List[OpticalMap]: an exchange runs)
    ck.clause("C08.9", "argument roles in the multi-pass coordinator: reference and query arguments are not exchanged")
    from ..rules import role as R
    n_roles = R.run_role_rule(ck, "C08.9", modules={"src.multi_pass_workflow_coordinator"})
    ck.floor("C08.9 role bindings judged in the multi-pass coordinator", n_roles, 8)
    ck.ok("C08.9", "multi_pass_workflow_coordinator", "src/multi_pass_workflow_coordinator.py", f"{n_roles} argument/attribute bindings carry compatible roles")


def _resolve_input(ck, behaviours, execute, file_of):
    p = ck.ctx.p
    resolve = p.find_method("AlignmentResults", "resolve")
    first = file_of("all", 1)
    second = file_of("all", 2)
    if len(first) != 1 or len(second) != 1:
        return    # already reported by C08.2
    first, second = first[0], second[0]
    seen = 0
    for m, mb in behaviours.items():
        done = False
        for pa in {id(pa): pa for _, pa in mb.returned}.values():
            if done:
                break
            for t, facts, node, kind in path_terms(pa):
                apps = [x for x in T.subterms(t) if x[0] == "app" and x[1] == resolve.qualname]
                if not apps:
                    continue
                rows = dict(apps[0][3]).get(resolve.call_params()[0].name)
                w = where(execute, node)
                seen += 1
                done = True
                parts = list(rows[1]) if rows is not None and rows[0] == "concat" else None
                if parts is None or len(parts) != 2:
                    ck.violation("C08.7", f"execute[{m}]->resolve:rows", w, "resolve does not receive the concatenation of the "
                                 "first-pass and the second-pass records", found=T.show(rows)[:300] if rows else "None",
                                 required="filtered(first pass) + filtered(second pass)")
                    break
                ck.judge(second in parts, "C08.7", f"execute[{m}]->resolve:second-pass", w,
                         "the second-pass records offered for joining are the reported ones (one per fragment-bearing query, "
                         "the list written as the second-pass file)",
                         found="; ".join(T.show(x)[:200] for x in parts), required=T.show(second)[:200])
                rest = [x for x in parts if x != second] or parts[:1]
                if m in ("all", "joined"):
                    ck.judge(rest[0] == first, "C08.7", f"execute[{m}]->resolve:first-pass", w,
                             "the first-pass records offered for joining are the reported ones (the list written as the "
                             "first-pass file)", found=T.show(rest[0])[:240], required=T.show(first)[:240])
                else:
                    ck.judge(rest[0][0] == "app" and rest[0][1] == first[1], "C08.7", f"execute[{m}]->resolve:first-pass", w,
                             "the other operand passed the one-per-query filter", found=T.show(rest[0])[:240],
                             required=first[1].split(":")[-1] + "(...)")
                break
    ck.floor("C08.7 modes in which resolve's input was examined", seen, 3)


def _save_writes_its_argument(ck):
    p = ck.ctx.p
    fn = p.find_method("_MultiPassWorkflowCoordinator", "saveAdditionalOutput")
    rows_param = V(fn.call_params()[0].name)
    results = p.find_class("AlignmentResults")
    n = 0
    paths = [pa for pa in explore(ck, fn) if pa.outcome in ("return", "fall")]
    silent = [pa for pa in paths if not any(e.kind == "call" and e.term[0] == "app" and e.term[1].endswith("XmapReader.writeAlignments")
                                            for e in pa.events)]
    if silent and len(silent) < len(paths):
        pa = silent[0]
        conds = "; ".join(("" if tv else "not ") + T.show(c)[:60] for c, tv, _ in pa.state.assumptions[-3:])
        ck.violation("C08.8", "saveAdditionalOutput:always-written", where(fn, pa.node),
                     "an additional file is not written on every path: a file of that name left by an earlier run (another output mode, "
                     "the same -o path) stays in place and no longer agrees with the main file beside it",
                     found="path under: " + (conds or "<no condition>"), required="writeAlignments(<file>, AlignmentResults(..., rows)) on every path")
    paths.sort(key=lambda pa: pa in silent)
    for pa in paths:
        for e in pa.events:
            if e.kind == "call" and e.term[0] == "app" and e.term[1].endswith("XmapReader.writeAlignments"):
                n += 1
                a = dict(e.term[3])
                res = a.get("alignmentResults")
                w = where(fn, e.node)
                ok = res is not None and res[0] == "new" and res[1] == results.qualname
                got_rows = dict(res[2] if res[0] == "new" else res[3]).get("rows") if res is not None and res[0] in ("new", "app") else None
                ck.judge(ok and got_rows == rows_param, "C08.8", "saveAdditionalOutput:rows", w,
                         "the additional file holds exactly the rows handed over: AlignmentResults(<files>, rows) built with the "
                         "plain constructor (create() would drop the second record of a query from the un-joined file)",
                         found=T.show(res)[:240] if res else "None",
                         required=f"AlignmentResults(..., rows={rows_param[1]})")
        break
    ck.floor("C08.8 writeAlignments call in saveAdditionalOutput", n, 1)


def no_value_carried_between_groups(ck, rule):
    """AlignmentResults.resolve decides group by group (one query on one reference): every name a group's decision reads is bound in
    THAT iteration on every path to the read. A name bound only on some paths of the loop body (and, to make the code run, once in
    front of the loops) still holds what an earlier group left: a later pair of records that is not eligible re-appends the earlier
    joined record and never reaches the un-joined list - its two single-pass records appear nowhere."""
    import copy
    from ..rules.common import definitely_assigned
    p = ck.ctx.p
    ck.clause(rule, "the join decides each (reference, query) group on values of that group: no name read in the loop body of "
                    "AlignmentResults.resolve is bound only on some paths of the body (a value left by an earlier group)")
    res_cls = p.find_class("AlignmentResults")
    fn = res_cls.methods.get("resolve") if res_cls else None
    if fn is None:
        raise AnalysisError("AlignmentResults.resolve not found")
    loops = [x for x in ast.walk(fn.node) if isinstance(x, ast.For)]
    inner = [lp for lp in loops if not any(isinstance(y, ast.For) for b in lp.body for y in ast.walk(b))]
    if not inner:
        raise AnalysisError(f"{fn.where}: the loop over the groups was not found")
    n = 0
    for lp in inner:
        fake = ast.FunctionDef(name="_body", args=ast.arguments(posonlyargs=[], args=[], kwonlyargs=[], kw_defaults=[], defaults=[]),
                               body=copy.deepcopy(lp.body), decorator_list=[], returns=None, type_comment=None, type_params=[])
        ast.fix_missing_locations(fake)
        da = definitely_assigned(fake)
        stored = {x.id for b in fake.body for x in ast.walk(b) if isinstance(x, ast.Name) and isinstance(x.ctx, ast.Store)} | \
            {x.target.id for b in fake.body for x in ast.walk(b) if isinstance(x, ast.NamedExpr) and isinstance(x.target, ast.Name)}
        # the targets of this loop and of the loops around it are bound anew in every iteration
        stored -= {y.id for o in loops if o is lp or any(z is lp for z in ast.walk(o)) for y in ast.walk(o.target) if isinstance(y, ast.Name)}
        for st in [x for b in fake.body for x in ast.walk(b) if isinstance(x, ast.stmt)]:
            if id(st) not in da:
                continue
            own = st.test if isinstance(st, (ast.If, ast.While)) else st.iter if isinstance(st, ast.For) else st
            if isinstance(st, (ast.Try, ast.FunctionDef, ast.ClassDef)):
                continue
            comp_bound = {y.id for c in ast.walk(own) if isinstance(c, ast.comprehension) for y in ast.walk(c.target) if isinstance(y, ast.Name)}
            for x in ast.walk(own):
                if isinstance(x, ast.Name) and isinstance(x.ctx, ast.Load) and x.id in stored and x.id not in da[id(st)] and x.id not in comp_bound:
                    # correlated conditions (`if c: v = ...` ... `if c: use(v)`) are beyond a path-insensitive dataflow: refuse
                    par_f = {c0: p0 for p0 in ast.walk(fake) for c0 in ast.iter_child_nodes(p0)}

                    def guards(node0):
                        out0 = {}
                        while node0 in par_f:
                            node0 = par_f[node0]
                            if isinstance(node0, ast.If):
                                out0[id(node0)] = ast.unparse(node0.test)
                        return out0
                    read_g = guards(st)
                    # conjuncts evaluated before the read inside its own test (`if eligible and resolved:`) guard it as well
                    extra_r = set()
                    for bo in ast.walk(own):
                        if isinstance(bo, ast.BoolOp) and isinstance(bo.op, ast.And):
                            for k1, v1 in enumerate(bo.values):
                                if any(z1 is x for z1 in ast.walk(v1)):
                                    extra_r |= {ast.unparse(v0) for v0 in bo.values[:k1]}
                    correlated = False
                    for y0 in ast.walk(fake):
                        if isinstance(y0, ast.Name) and isinstance(y0.ctx, ast.Store) and y0.id == x.id:
                            asg_g = guards(y0)
                            own_a = {t0 for k0, t0 in asg_g.items() if k0 not in read_g}       # tests around the binding only
                            own_r = {t0 for k0, t0 in read_g.items() if k0 not in asg_g} | extra_r   # tests around the read only
                            correlated = correlated or bool(own_a & own_r)
                    if correlated:
                        raise AnalysisError(f"{where(fn, lp)}: `{x.id}` is bound and read under the same test in the group loop - whether "
                                            "the read can see an earlier group's value is not decided by this rule")
                    n += 1
                    ck.violation(rule, f"{short(fn)}:{x.id}:carried", where(fn, lp),
                                 f"`{x.id}` is read in the group loop where it is bound only on some paths of the same iteration: for a "
                                 "group that does not take those paths it still holds the previous group's value - after the first join "
                                 "every later pair of records that is not eligible re-appends that joined record and is itself lost from "
                                 "the un-joined list (the _1 file of 'joined' misses both records)",
                                 found=ast.unparse(own)[:100] if not isinstance(own, ast.stmt) else ast.unparse(own).split("\n")[0][:100],
                                 required=f"`{x.id}` assigned on every path of the iteration before it is read")
                    break
            if n:
                break
    ck.floor(rule + " group loops of AlignmentResults.resolve", len(inner), 1)
    if not n:
        ck.ok(rule, f"{short(fn)}:carried", fn.where, "every name read in the group loop is bound in the same iteration")


def _file_naming(ck, rule="C08.2"):
    p = ck.ctx.p
    fn = p.find_method("_MultiPassWorkflowCoordinator", "createAdditionalOutputFile")
    rets = [pa for pa in explore(ck, fn) if pa.outcome == "return"]
    if len(rets) != 1:
        # positively recognised: on some path the "additional file" is the main output stream itself
        main_stream = (self_attr("args", "outputFile"), ("ext", "sys.stdout"), V("sys.stdout"), T.mk_attr(V("sys"), "stdout"))
        for pa in rets:
            if pa.value in main_stream:
                ck.violation(rule, "createAdditionalOutputFile:stream", where(fn, pa.node),
                             "on this path the additional XMAP is written into the main output stream itself (no file of its own is "
                             "opened): the first- / second-pass records appear in the main output, in front of its own header - more than "
                             "one record per query there, and the reader returns the records of all XMAPs concatenated",
                             found=f"return {T.show(pa.value)}", required="open(<stem>_<n><ext>, 'w') on every path")
                return
        raise AnalysisError(f"{fn.where}: expected a single return")
    v = rets[0].value
    w = where(fn, rets[0].node)
    number = V(fn.call_params()[0].name)
    name_arg = v[2][0] if v[0] == "call" and v[1] == "open" and v[2] else None
    if name_arg is None:
        raise AnalysisError(f"{w}: additional output file is not opened with open(<name>, ...)")
    order = None
    if name_arg[0] == "mcall" and name_arg[2] == "format" and name_arg[1][0] == "c":
        import string
        fmt = name_arg[1][1]
        args = name_arg[3]
        seq = None
        if len(args) == 1 and args[0][0] == "star" and args[0][1][0] == "concat":
            parts = args[0][1][1]
            if len(parts) == 2 and parts[0][0] == "call" and parts[0][1].endswith("splitext") and parts[1] == ("tuple", (number,)):
                seq = ["stem", "ext", "number"]
        elif len(args) == 3:
            seq = []
            for a in args:
                if a == number:
                    seq.append("number")
                elif a[0] == "idx" and a[1][0] == "call" and a[1][1].endswith("splitext"):
                    seq.append("stem" if a[2] == C(0) else "ext")
                else:
                    seq = None
                    break
        if seq is None:
            raise AnalysisError(f"{w}: arguments of the file-name template not recognised: {T.show(name_arg)[:160]}")
        order = []
        auto = 0
        for lit, field, spec, conv in string.Formatter().parse(fmt):
            if lit:
                order.append(("lit", lit))
            if field is not None:
                i = int(field) if field != "" else auto
                auto += 1
                order.append(("field", seq[i] if i < len(seq) else "?"))
    elif name_arg[0] == "fstr":
        order = []
        for part in name_arg[1]:
            if part[0] == "c":
                order.append(("lit", part[1]))
            else:
                t = part[1]
                if t == number:
                    order.append(("field", "number"))
                elif t[0] == "idx" and t[1][0] == "call" and t[1][1].endswith("splitext"):
                    order.append(("field", "stem" if t[2] == C(0) else "ext"))
                else:
                    order.append(("field", "?"))
    if order is None and name_arg[0] == "mcall" and name_arg[2] == "replace" and len(name_arg[3]) >= 2 and name_arg[3][0][0] == "c" \
            and any(x == number for x in T.subterms(name_arg[3][1])):
        ck.violation(rule, "createAdditionalOutputFile:template", w,
                     f"the additional file's name is the output name with {name_arg[3][0][1]!r} replaced: for an output name that does "
                     "not contain it (`-o result.txt`, `-o out`) nothing is replaced - the additional XMAP is opened under the *same* "
                     "path as the main file, which argparse holds open, and the two are written over each other",
                     found=T.show(name_arg)[:160], required="<stem>_<n><ext> from os.path.splitext(<output name>)")
        return
    if order is None:
        raise AnalysisError(f"{w}: file-name construction not recognised: {T.show(name_arg)[:160]}")
    fields = [x[1] for x in order if x[0] == "field"]
    ck.judge(fields == ["stem", "number", "ext"], rule, "createAdditionalOutputFile:name", w,
             "additional file name = <stem>_<number><extension>", found=str(order), required="stem, '_', number, ext")
    # the name is derived from the main output file and opened for writing
    ok_src = any(x == self_attr("args", "outputFile", "name") for x in T.subterms(name_arg))
    ck.judge(ok_src, rule, "createAdditionalOutputFile:source", w, "name is derived from the main output file's name",
             found=T.show(name_arg)[:160])
    mode = dict(v[3]).get("mode") or (v[2][1] if len(v[2]) > 1 else None)
    ck.judge(mode == C("w"), rule, "createAdditionalOutputFile:mode", w, "additional file is opened for writing (truncated)",
             found=T.show(mode) if mode else "default 'r'", required="'w'")


def aliased_lists(ck, rule):
    """no coordinator list is extended / re-ordered in place under a second name and then read again under the first"""
    ctx = ck.ctx
    p = ctx.p
    ck.clause(rule, "the row lists written as _1 / _2 are the lists that were filtered for them: no list is extended or re-ordered "
                        "in place under another name before it is written")
    from ..rules.alias import findings as alias_findings
    coord_fns = [f for f in p.nontest_functions() if f.module.name in ("src.multi_pass_workflow_coordinator", "src.workflow_coordinator")
                 and not f.is_lambda]
    n_al = 0
    for f in coord_fns:
        for node, text in alias_findings(ctx, f):
            n_al += 1
            ck.violation(rule, short(f) + ":aliased-list", where(f, node), text + ": the list written under the first name is no "
                         "longer the list that was filtered for that file", found=ast.unparse(node)[:100],
                         required="a new list (a + b), or a copy before changing it")
    ck.floor(f"{rule} coordinator functions scanned for in-place changes of aliased lists", len(coord_fns), 10)
    if not n_al:
        ck.ok(rule, "coordinators", "src/multi_pass_workflow_coordinator.py", f"{len(coord_fns)} functions: no list is changed in "
              "place under a second name and read again under the first")


def _aligned_rest(ck, behaviours, execute):
    ctx = ck.ctx
    p = ctx.p
    setter = p.find_method("AlignmentResultRow", "setAlignedRest")
    sites = ctx.cg.sites_calling(setter)
    sites = [s for s in sites if not s.caller.module.is_test]
    second = p.find_method("_MultiPassWorkflowCoordinator", "getSecondPassAlignmentRows")
    for s in sites:
        arg = s.node.args[0] if s.node.args else None
        is_true = isinstance(arg, ast.Constant) and arg.value is True
        if s.caller is second or s.caller.qualname.startswith(second.qualname):
            ck.judge(is_true, "C08.3", f"{short(s.caller)}:setAlignedRest", s.where, "second-pass rows are marked AlignedRest=True",
                     found=ast.unparse(s.node), required="setAlignedRest(True)")
        else:
            ck.judge(not is_true and False, "C08.3", f"{short(s.caller)}:setAlignedRest", s.where,
                     "AlignedRest is set only on second-pass rows", found=ast.unparse(s.node),
                     required="no setAlignedRest outside the second pass")
    rets = [pa for pa in explore(ck, second, unroll=(0, 1)) if pa.outcome == "return"]
    if len(rets) != 1:
        raise AnalysisError(f"{second.where}: expected a single return")
    v = rets[0].value
    w = where(second, rets[0].node)
    # the same call on an element whose class the normaliser did not resolve (`map(methodcaller("setAlignedRest", True), rows)`):
    # there is one method of that name in the repository
    if v[0] == "comp" and v[2][0] == "mcall" and v[2][2] == setter.name and v[2][1][0] == "bv" and len(v[2][3]) == 1 and not v[2][4]:
        v = (v[0], v[1], ("app", setter.qualname, v[2][1], (("alignedRest", v[2][3][0]),)), v[3])
    ok = v[0] == "comp" and v[1] == "list" and v[2][0] == "app" and v[2][1] == setter.qualname and v[2][2][0] == "bv" \
        and dict(v[2][3]).get("alignedRest") == C(True) and len(v[3]) == 1 and not v[3][0][1]
    if ok:
        ck.ok("C08.3", short(second) + ":all-marked", w, "every row of the second pass goes through setAlignedRest(True)",
              T.show(v)[:160])
        src = v[3][0][0]
        ck.judge(src[0] == "app" and src[1].endswith("_WorkflowCoordinator.execute"), "C08.3", short(second) + ":source", w,
                 "second-pass rows come from a full alignment run on the unaligned fragments", found=T.show(src)[:160])
        qm = dict(src[3]).get("queryMaps") if src[0] == "app" else None
        frag_ok = qm is not None and any((x[0] == "app" and x[1].endswith("getUnalignedFragments")) or
                                         (x[0] == "mcall" and x[2] == "getUnalignedFragments") for x in T.subterms(qm))
        ck.judge(frag_ok, "C08.3", short(second) + ":fragments", w, "the second pass aligns the unaligned fragments of the "
                 "first-pass rows", found=T.show(qm)[:160] if qm else "None")
        rm = dict(src[3]).get("referenceMaps") if src[0] == "app" else None
        ck.judge(rm == V("referenceMaps"), "C08.13", short(second) + ":references", w,
                 "the second pass aligns against the same references", found=T.show(rm) if rm else "None",
                 required="referenceMaps, as received")
    else:
        marked = any(x[0] == "app" and x[1] == setter.qualname for x in T.subterms(v))
        if not marked:
            ck.violation("C08.3", short(second) + ":all-marked", w, "second-pass rows are returned without AlignedRest=True",
                         found=T.show(v)[:200], required="[row.setAlignedRest(True) for row in rows]")
        else:
            raise AnalysisError(f"{w}: marking idiom of second-pass rows not recognised: {T.show(v)[:200]}")
    # default False on construction; create does not pass alignedRest
    init = p.find_method("AlignmentResultRow", "__init__")
    d = [prm.default for prm in init.call_params() if prm.name == "alignedRest"]
    ck.judge(bool(d) and isinstance(d[0], ast.Constant) and d[0].value is False, "C08.3", "AlignmentResultRow.__init__:default",
             init.where, "rows are constructed with AlignedRest False by default",
             found=ast.unparse(d[0]) if d and d[0] is not None else "no default", required="False")
    create = p.find_method("AlignmentResultRow", "create")
    for pa in explore(ck, create):
        if pa.outcome == "return" and pa.value[0] == "new":
            ck.judge("alignedRest" not in dict(pa.value[2]), "C08.3", "AlignmentResultRow.create:alignedRest", where(create, pa.node),
                     "first-pass and joined rows keep the default AlignedRest", found=T.show(dict(pa.value[2]).get("alignedRest", C(None))))
    # the column is written from the record itself: the leftover file of 'joined' and the main file of 'best' hold records of both passes
    from ..rules.xmap import extract_writer, row_attrs
    wt = extract_writer(ck)
    col = wt.record_values.get("AlignedRest")
    if col is None:
        raise AnalysisError(f"{wt.fn.where}: the writer has no AlignedRest column")
    attrs = row_attrs(col, wt.row_var)
    if attrs == ["alignedRest"]:
        ck.ok("C08.3", "XmapReader.writeAlignments:AlignedRest:per-record", where(wt.fn, wt.frame_node), "the column is read from each record")
    elif not T.contains(col, wt.row_var):
        ck.violation("C08.3", "XmapReader.writeAlignments:AlignedRest:per-record", where(wt.fn, wt.frame_node),
                     "the AlignedRest column does not depend on the record it is written for: one value for the whole file - the _1 file "
                     "of 'joined' holds un-joined first-pass (False) and second-pass (True) records, the main file of 'best' both kinds: "
                     "every record gets the first record's flag and a single-pass record no longer appears unchanged among the un-joined ones",
                     found=T.show(col)[:140], required="row.alignedRest of the record itself")
    else:
        raise AnalysisError(f"{where(wt.fn, wt.frame_node)}: what the AlignedRest column is written from is not recognised: {T.show(col)[:120]}")
    # provenance of the pass lists in execute
    for m, mb in behaviours.items():
        if m != "all":
            continue
        for rows, num, e, pa in mb.saves:
            has_second = any(x[0] == "app" and x[1] == second.qualname for x in T.subterms(rows))
            want = (num == C(2))
            ck.judge(has_second == want, "C08.3", f"execute[all]:file_{T.show(num)}:pass", where(execute, e.node),
                     "file _1 holds first-pass rows (AlignedRest False), file _2 second-pass rows (True)",
                     found=("second-pass" if has_second else "first-pass") + " rows", required="second-pass" if want else "first-pass")


def _eligibility(ck, behaviours, execute, rule="C08.4", wiring=True):
    ctx = ck.ctx
    p = ctx.p
    fn = p.find_method("AlignmentResultRow", "check_overlap")
    other = V(fn.call_params()[0].name)
    md = V(fn.call_params()[1].name) if len(fn.call_params()) > 1 else None
    if md is None:
        raise AnalysisError(f"{fn.where}: maxDifference parameter not found")
    paths = explore(ck, fn)
    n_true = 0
    for pa in paths:
        if pa.outcome != "return":
            continue
        w = where(fn, pa.node)
        v = pa.value
        cond_true = None
        if v == C(True):
            cond_true = dict(pa.facts)
        elif v == C(False):
            continue
        else:
            # returns a condition directly
            cond_true = dict(pa.facts)
            T.add_fact(cond_true, T.as_bool(v), True)
        n_true += 1
        f = cond_true
        o_ok = f.get(T.mk_eq(self_attr("orientation"), T.mk_attr(other, "orientation"))) is True or \
            f.get(T.mk_eq(self_attr("reverseStrand"), T.mk_attr(other, "reverseStrand"))) is True
        r_ok = f.get(T.mk_eq(self_attr("referenceId"), T.mk_attr(other, "referenceId"))) is True
        gap = T.mk_call("abs", [T.p_sub(T.mk_call("max", [self_attr("referenceStartPosition"), T.mk_attr(other, "referenceStartPosition")]),
                                        T.mk_call("min", [self_attr("referenceEndPosition"), T.mk_attr(other, "referenceEndPosition")]))])
        g_incl = T.mk_le(gap, md)
        g_strict = T.mk_lt(gap, md)
        # an asserted strict test also entails the inclusive one (derived fact), so look for the strict one first
        strict_asserted = f.get(g_strict) is True
        pg, pol = T.positive(g_incl)
        g_ok = (not strict_asserted) and (pg in f and f[pg] == pol)
        ck.judge(o_ok, rule, "check_overlap:orientation", w, "join requires equal orientation",
                 found=pa.describe()[:300], required="self.orientation == other.orientation on the path to True")
        ck.judge(r_ok, rule, "check_overlap:reference", w, "join requires the same reference",
                 found=pa.describe()[:300], required="self.referenceId == other.referenceId on the path to True")
        if g_ok:
            ck.ok(rule, "check_overlap:gap", w, "join requires reference gap <= maxDifference (inclusive)", T.show(g_incl)[:200])
        else:
            strict = strict_asserted
            gapfacts = [k for k in f if T.contains(k, md)]
            if strict:
                ck.violation(rule, "check_overlap:gap", w, "gap test is strict: a gap of exactly maxDifference is not joined",
                             found=T.show(g_strict)[:200], required=T.show(g_incl)[:200])
            elif gapfacts:
                ck.violation(rule, "check_overlap:gap", w, "gap test against maxDifference differs from "
                             "|max(starts) - min(ends)| <= maxDifference", found="; ".join(T.show(k)[:160] for k in gapfacts),
                             required=T.show(g_incl)[:200])
            else:
                ck.violation(rule, "check_overlap:gap", w, "rows are joined without any test against maxDifference",
                             found=pa.describe()[:300], required=T.show(g_incl)[:200])
    ck.floor(f"{rule} accepting paths of check_overlap", n_true, 1)
    if not wiring:
        return
    # wiring: execute -> resolve(rows, self.args.maxDifference) -> check_overlap(group[1], maxDifference)
    resolve = p.find_method("AlignmentResults", "resolve")
    n_w = 0
    for m, mb in behaviours.items():
        for pa in {id(pa): pa for _, pa in mb.returned}.values():
            for t, facts, node, kind in path_terms(pa):
                for x in T.subterms(t):
                    if x[0] == "app" and x[1] == resolve.qualname:
                        n_w += 1
                        a = dict(x[3])
                        ck.judge(a.get("maxDifference") == self_attr("args", "maxDifference"), rule,
                                 f"execute[{m}]->resolve:maxDifference", where(execute, node),
                                 "the --maxDifference value is what resolve receives",
                                 found=T.show(a.get("maxDifference", C(None))), required="self.args.maxDifference")
                        break
    ck.floor(f"{rule} resolve call sites seen in execute", n_w, 1)
    for site in ctx.cg.sites_calling(fn):
        if site.caller.module.is_test:
            continue
        from ..callgraph import bind_args
        b, _ = bind_args(fn.call_params(), site.node)
        a = b.get(md[1])
        ck.judge(isinstance(a, ast.Name) and a.id == "maxDifference", rule, f"{short(site.caller)}->check_overlap:maxDifference",
                 site.where, "resolve passes its maxDifference on to the eligibility test",
                 found=ast.unparse(a) if a is not None else "None", required="maxDifference")


def _no_early_exit(ck, fn, loops, rule):
    """every group is visited: the loops over the groups are left neither by `break` nor by a `return` inside them"""
    bad = []
    for lp in loops:
        stack = list(lp.body)
        while stack:
            n = stack.pop()
            if isinstance(n, (ast.FunctionDef, ast.Lambda, ast.ClassDef)):
                continue
            if isinstance(n, ast.Break):
                bad.append((n, "break"))
            elif isinstance(n, ast.Return):
                bad.append((n, "return"))
            if isinstance(n, (ast.For, ast.While)):
                # a break inside a nested loop belongs to that loop - which is itself one of `loops` and judged on its own;
                # a return still leaves all of them
                stack.extend(x for b in n.body + n.orelse for x in ast.walk(b) if isinstance(x, ast.Return))
                continue
            stack.extend(ast.iter_child_nodes(n))
    seen = set()
    for n, kind in bad:
        if id(n) in seen:
            continue
        seen.add(id(n))
        ck.violation(rule, short(fn) + ":early-exit", where(fn, n), f"the loop over the groups of rows is left by `{kind}`: the rows of "
                     "every group that would have come later (other queries, other references) are neither joined nor kept - "
                     "they disappear from every output file", found=f"`{kind}` at line {n.lineno}",
                     required="`continue` (or nothing): every group is visited")
    if not bad:
        ck.ok(rule, short(fn) + ":early-exit", fn.where, f"{len(loops)} loop(s) over row groups: no break / return inside")


def _resolve_conservation(ck):
    ctx = ck.ctx
    p = ctx.p
    fn = p.find_method("AlignmentResults", "resolve")
    # innermost for loop whose target is a (key, group) pair
    loops = [n for n in ast.walk(fn.node) if isinstance(n, ast.For)]
    inner = None
    for lp in loops:
        if not any(isinstance(c, ast.For) for c in ast.walk(lp) if c is not lp):
            inner = lp
    if inner is None or not isinstance(inner.target, ast.Tuple) or len(inner.target.elts) != 2 \
            or not isinstance(inner.target.elts[1], ast.Name):
        raise AnalysisError(f"{fn.where}: innermost `for key, group in groupby(...)` loop not found")
    gname = inner.target.elts[1].id
    _no_early_exit(ck, fn, loops, "C08.5")
    rets = [n for n in ast.walk(fn.node) if isinstance(n, ast.Return) and isinstance(n.value, ast.Tuple)]
    if not rets or not all(isinstance(e, ast.Name) for e in rets[-1].value.elts) or len(rets[-1].value.elts) != 2:
        raise AnalysisError(f"{fn.where}: `return joined, separate` not found")
    jname, sname = [e.id for e in rets[-1].value.elts]
    G = V("#group")
    ex = Explorer(ctx, fn, env={gname: G, jname: V(jname), sname: V(sname)}, unroll=(0, 1))
    paths = ex.run(body=inner.body)
    ck.add_paths(len(paths))
    ck.floor("C08.5 paths through one group of resolve", len(paths), 3)
    Gl = T.mk_call("list", [G])
    n_join = n_sep = 0
    for pa in paths:
        sep_all = sep_first = joined = other = 0
        for e in pa.events:
            if e.kind != "call" or e.term[0] != "mcall":
                continue
            recv, name, args = e.term[1], e.term[2], e.term[3]
            if recv == V(sname) and name == "extend" and args and args[0] in (G, Gl):
                sep_all += 1
            elif recv == V(sname) and name == "append" and args and args[0] in (T.mk_idx(G, C(0)), T.mk_idx(Gl, C(0))):
                sep_first += 1
            elif recv == V(jname) and name == "append" and args:
                x = args[0]
                uses = [(s[2], list(dict(s[3]).values())[0]) for s in T.subterms(x)
                        if s[0] == "app" and s[1].endswith("AlignmentResultRow.resolve") and s[3]]
                uses += [(s[1], s[3][0]) for s in T.subterms(x) if s[0] == "mcall" and s[2] == "resolve" and len(s[3]) == 1]
                both = uses and {uses[0][0], uses[0][1]} in (
                    {T.mk_idx(G, C(0)), T.mk_idx(G, C(1))}, {T.mk_idx(Gl, C(0)), T.mk_idx(Gl, C(1))})
                if both:
                    joined += 1
                else:
                    other += 1
            elif recv == V(sname) and name == "append" and args and args[0] in (G, Gl):
                # the whole group appended as ONE element: the un-joined list now holds a list where rows are expected
                ck.violation("C08.5", short(fn) + ":nested-group", where(fn, e.node),
                             "a group of records is appended to the un-joined list as one element (append where extend is meant): the "
                             "list now holds a list among its rows - the 'joined' mode, which writes that list, aborts on it, and the "
                             "two records are reported nowhere", found=T.show(e.term)[:120], required=f"{sname}.extend(group)")
                sep_all += 1
            elif recv in (V(sname), V(jname)):
                other += 1
        single = None
        for f, tv in pa.facts.items():
            if f[0] == "eq" and C(1) in (f[1], f[2]) and any(s[0] == "call" and s[1] == "len" for s in (f[1], f[2])):
                single = tv
        w = where(fn, inner)
        desc = pa.describe()[:400]
        if other:
            raise AnalysisError(f"{w}: unrecognised update of the result lists on path {desc}")
        if sep_first == 1 and not sep_all and not joined:
            n_sep += 1
            ck.judge(single is True, "C08.5", "AlignmentResults.resolve:single", w,
                     "only the first member is kept separately: allowed only for a group of one", found=desc,
                     required="len(group) == 1 on the path")
        elif sep_all == 1 and not sep_first and not joined:
            n_sep += 1
            ck.ok("C08.5", "AlignmentResults.resolve:separate", w, "both members go to the un-joined list", desc)
        elif joined == 1 and not sep_all and not sep_first:
            n_join += 1
            def conj(f):
                return list(f[1]) if f[0] == "and" else [f]
            elig = any(tv and any((x[0] == "app" and x[1].endswith("check_overlap")) or (x[0] == "mcall" and x[2] == "check_overlap")
                                  for x in conj(f)) for f, tv in pa.facts.items())
            ck.judge(elig, "C08.5", "AlignmentResults.resolve:joined", w,
                     "a joined row is appended only when check_overlap accepted the pair", found=desc,
                     required="check_overlap(...) true on the path")
        elif not (sep_all or sep_first or joined):
            ck.violation("C08.5", "AlignmentResults.resolve:lost", w,
                         "a path through the group loop consumes the group's rows neither as separate nor as joined: "
                         "records disappear from every output file", found="no update of the result lists",
                         required="separate xor joined on every path", path=desc)
        else:
            ck.violation("C08.5", "AlignmentResults.resolve:duplicated", w,
                         "a path through the group loop reports rows twice", found=f"separate.extend={sep_all}, "
                         f"separate.append(first)={sep_first}, joined.append={joined}", required="separate xor joined", path=desc)
    from .c05 import groupby_inputs_sorted
    n_g = groupby_inputs_sorted(ck, "C08.5", only_functions={"AlignmentResults.resolve"})
    ck.floor("C08.5 groupby sites of resolve", n_g, 1)
    ck.floor("C08.5 joining paths", n_join, 1)
    ck.floor("C08.5 separating paths", n_sep, 2)


def _segments_owner(t):
    """P when `t` is P.segments, possibly with its empty segments filtered out (an empty segment has no pair and no score: the
    filtered list describes the same record)"""
    if t[0] == "attr" and t[2] == "segments":
        return t[1]
    if t[0] == "comp" and t[1] in ("list", "gen") and len(t[3]) == 1 and t[2][0] == "bv":
        it, ifs = t[3][0]
        if len(ifs) == 1 and ifs[0] in (T.mk_not(T.mk_attr(t[2], "empty")),) and it[0] == "attr" and it[2] == "segments":
            return it[1]
    if t[0] == "call" and t[1] == "list" and len(t[2]) == 1:
        return _segments_owner(t[2][0])
    return None


def _joined_segments(ck, fn, w, src, resolution, pl, pr, facts):
    """What the joined row is made of.  F = the earlier part (its segment pl[1] is the left one of the conflict pair), S = the
    later part.  Two things are decided on the list handed to AlignmentResultRow.create, and they pull in opposite directions:

    C08.6  only-resolved (also C01.10): every segment of the joined row went through conflict resolution against its neighbours
           in that row.  The join bypasses the chainer, so the only segments it may put side by side are the two it resolved
           against each other.  A segment of a part that is merely carried over ("keep the other segments too") was never
           checked against the other part: on a molecule spanning a tandem-duplication junction the carried-over segment and the
           other part cross, and the record is no longer collinear (round-4 change C01-H - which is also the obvious repair of
           C08.10, tried and withdrawn, DESIGN section 5).
    C08.10 parts-kept: every segment of both parts reaches the joined record (the structural necessary condition of "when the
           union of the parts is a valid matching the joined record is exactly the union").  That is the case when both parts
           are known to hold one segment each - or when the joined segments are the output of the conflict resolver (chain +
           pairwise resolution) over all segments of both parts, the one shape that satisfies both clauses."""
    ck.clause("C08.10", "a joined record keeps every segment of both parts (when their union is a valid matching it is exactly the union)")
    F, S = pl[0], pr[0]
    res0, res1 = T.mk_idx(resolution, C(0)), T.mk_idx(resolution, C(1))
    parts = list(src[1]) if src[0] == "concat" else [src]
    flat = []
    for x in parts:
        if x[0] in ("list", "tuple"):
            flat.extend(("elt", y) for y in x[1])
        else:
            flat.append(("seq", x))
    elts = [y for k, y in flat if k == "elt"]
    seqs = [y for k, y in flat if k == "seq"]
    if sorted(map(T.key, elts)) != sorted(map(T.key, [res0, res1])) and not seqs and len(set(elts)) == len(elts) \
            and all(y in (res0, res1) for y in elts):
        # the filter `s != AlignmentSegment.empty` written as a loop over (seg1, seg2) with an `if`: on this path a resolved segment
        # was left out because the path's own test found it empty
        omitted = [r for r in (res0, res1) if r not in elts]
        def says_empty(k0, tv0):
            # eq(<Segment>.empty, X) known true / its negation known false, or X.empty known true
            if not any(x0[0] == "attr" and x0[2] == "empty" for x0 in T.subterms(k0)):
                return False
            return (k0[0] == "eq" and tv0 is True) or (k0[0] == "ne" and tv0 is False) or (k0[0] == "attr" and tv0 is True)
        justified = sum(1 for k0, tv0 in facts.items() if says_empty(k0, tv0)) >= len(omitted) > 0
        if justified:
            ck.ok("C08.6", "AlignmentResultRow.resolve:only-resolved", w, "the resolved segments, an empty one left out by its own test")
            return
    if sorted(map(T.key, elts)) != sorted(map(T.key, [res0, res1])):
        ck.violation("C08.6", "AlignmentResultRow.resolve:only-resolved", w, "the joined row is built around the two segments that "
                     "went through conflict resolution", found=T.show(src)[:200], required="[seg1, seg2] of pair.resolveConflict()")
        return
    ck.judge(not seqs, "C08.6", "AlignmentResultRow.resolve:only-resolved", w,
             "the joined row consists of the two segments that went through conflict resolution against each other - nothing is "
             "carried over that was never checked against the other part (carried-over segments can cross it: the record would "
             "not be collinear)", found=T.show(src)[:240], required="[seg1, seg2] of pair.resolveConflict()  (or the conflict "
             "resolver run over all segments of both parts)")

    def single(P):
        n_ = T.mk_call("len", [T.mk_attr(P, "segments")])
        return facts.get(T.mk_eq(n_, C(1))) is True or facts.get(T.mk_lt(C(1), n_)) is False or facts.get(T.mk_le(n_, C(1))) is True

    def keeps_rest(P, k):
        want = ("slice", None, T.NONE, C(-1), T.NONE) if k == -1 else ("slice", None, C(1), T.NONE, T.NONE)
        return any(x[0] == "slice" and _segments_owner(x[1]) == P and x[2:] == want[2:] for x in seqs)
    complete = (single(F) or keeps_rest(F, pl[1])) and (single(S) or keeps_rest(S, pr[1]))
    ck.judge(complete, "C08.10", "AlignmentResultRow.resolve:parts-kept", w,
             "every segment of both parts reaches the joined record (a part with several segments is not cut down to the one that "
             "was resolved)",
             found=f"joined segments = {T.show(src)[:160]} with the pair ({T.show(T.mk_idx(T.mk_attr(F, 'segments'), C(pl[1])))[-40:]}, "
                   f"{T.show(T.mk_idx(T.mk_attr(S, 'segments'), C(pr[1])))[-40:]}); nothing else of either part is kept",
             required="all segments of both parts, e.g. the conflict resolver run over self.segments + alignedRest.segments "
                      "(or parts known to hold one segment each)")


def record_segments_as_resolved(ck, rule):
    """AlignmentResultRow.create stores the resolver's segment list as it is: the join (AlignmentResultRow.resolve) works on
    segments[0] of each part and relies on the chain order - empty segments behind the real ones"""
    p = ck.ctx.p
    create = p.find_method("AlignmentResultRow", "create")
    prm0 = V(create.call_params()[0].name)
    want = T.mk_attr(prm0, "segments")
    n = 0
    for pa in explore(ck, create):
        if pa.outcome != "return" or pa.value[0] != "new":
            continue
        seg = dict(pa.value[2]).get("segments")
        if seg is None:
            continue
        n += 1
        w = where(create, pa.node)
        inner = seg
        while inner[0] == "call" and inner[1] in ("list", "tuple") and len(inner[2]) == 1:
            inner = inner[2][0]
        if inner == want:
            ck.ok(rule, short(create) + ":segments", w, "a record keeps the resolver's segments in the resolver's order", T.show(seg)[:100])
        elif inner[0] == "call" and inner[1] == "sorted" and inner[2] and inner[2][0] == want:
            key = dict(inner[3]).get("key")
            has_default = key is not None and any(y[0] == "call" and y[1] == "next" and len(y[2]) == 2 for y in T.subterms(key))
            if key is not None and key[0] == "fn" and key[1] in p.functions:
                has_default = any(isinstance(c, ast.Call) and isinstance(c.func, ast.Name) and c.func.id == "next" and len(c.args) == 2
                                  for c in ast.walk(p.functions[key[1]].node))
            if has_default:
                ck.violation(rule, short(create) + ":segments", w,
                             "the segments of a record are re-sorted with a key that gives pair-less (empty) segments a constant: they move "
                             "in front of the real ones, and the join - which resolves segments[0] of its two parts - then pairs an empty "
                             "segment with the other part: one part's pairs are lost although the union is a valid matching",
                             found=T.show(seg)[:200], required="segmentsWithoutConflicts.segments as they are")
            else:
                raise AnalysisError(f"{w}: the segments of a record are re-ordered: {T.show(seg)[:160]}")
        else:
            raise AnalysisError(f"{w}: the segments of a record are not the resolver's: {T.show(seg)[:160]}")
    ck.floor(f"{rule} record constructions in AlignmentResultRow.create", n, 1)


def _joined_row(ck):
    ctx = ck.ctx
    p = ctx.p
    fn = p.find_method("AlignmentResultRow", "resolve")
    other = V(fn.call_params()[0].name)
    paths = explore(ck, fn)
    n = 0
    first_self = T.mk_idx(self_attr("segments"), C(0))
    first_other = T.mk_idx(T.mk_attr(other, "segments"), C(0))
    for pa in paths:
        if pa.outcome != "return" or pa.value == T.NONE:
            continue
        v = pa.value
        w = where(fn, pa.node)
        if v in (V(fn.self_name), other):
            stores = [e for e in pa.events if e.kind == "setattr"]
            ck.violation("C08.6", "AlignmentResultRow.resolve:new-record", w,
                         "the join hands back one of its two parts, changed in place, instead of a new record: the first-/second-pass "
                         "record that is written afterwards (mode 'all') is no longer the single-pass record",
                         found=f"returns {T.show(v)} after {len(stores)} attribute store(s)",
                         required="AlignmentResultRow.create(...) - a new row; the parts stay as they are")
            n += 1
            continue
        if v[0] != "app" or not v[1].endswith("AlignmentResultRow.create"):
            raise AnalysisError(f"{w}: joined row is not built by AlignmentResultRow.create: {T.show(v)[:160]}")
        stores = [e for e in pa.events if e.kind == "setattr" and e.extra["target"][1] in (V(fn.self_name), other)]
        ck.judge(not stores, "C08.6", "AlignmentResultRow.resolve:parts-untouched", w,
                 "joining does not modify the two parts (they are reported on their own in other files)",
                 found="; ".join(T.show(e.extra["target"]) for e in stores[:4]) or "no store to self / the other row")
        n += 1
        a = dict(v[3])

        def through(x):
            # a field read from a row that was itself built by create(...) a moment ago is the argument it was built with
            while x is not None and x[0] == "attr" and x[1][0] == "app" and x[1][1].endswith("AlignmentResultRow.create") \
                    and x[2] in dict(x[1][3]):
                x = dict(x[1][3])[x[2]]
            return x
        a = {k0: through(v0) if k0 in ("queryId", "referenceId", "queryLength", "referenceLength", "reverseStrand") else v0
             for k0, v0 in a.items()}
        for k in ("queryId", "referenceId", "queryLength", "referenceLength"):
            ck.judge(a.get(k) == self_attr(k), "C08.6", f"AlignmentResultRow.resolve:{k}", w,
                     f"joined row keeps {k} of the parts", found=T.show(a.get(k, C(None))), required=f"self.{k}")
        ck.judge(a.get("reverseStrand") == self_attr("reverseStrand"), "C08.6", "AlignmentResultRow.resolve:reverseStrand", w,
                 "joined row keeps the strand of the parts", found=T.show(a.get("reverseStrand", C(None))))
        segs = a.get("segmentsWithoutConflicts")
        res = [x for x in T.subterms(segs)] if segs else []
        resolves = [x for x in res if (x[0] == "mcall" and x[2] == "resolveConflict") or
                    (x[0] == "app" and x[1].endswith(".resolveConflict"))]
        via_resolver = [x for x in res if x[0] == "app" and x[1].endswith("AlignmentSegmentConflictResolver.resolveConflicts")]
        if via_resolver:
            # the one shape that is complete *and* checked: chain + pairwise resolution over all segments of both parts
            arg = list(dict(via_resolver[0][3]).values())[0] if via_resolver[0][3] else None
            both = arg is not None and any(_segments_owner(x) == V(fn.self_name) for x in T.subterms(arg)) and \
                any(_segments_owner(x) == other for x in T.subterms(arg))
            ck.clause("C08.10", "a joined record keeps every segment of both parts (when their union is a valid matching it is exactly the union)")
            ck.judge(bool(both), "C08.10", "AlignmentResultRow.resolve:parts-kept", w, "the conflict resolver is run over the segments of "
                     "both parts", found=T.show(arg)[:200] if arg else "None", required="self.segments + alignedRest.segments")
            ck.ok("C08.6", "AlignmentResultRow.resolve:only-resolved", w, "joined segments are the resolver's output (chained and "
                  "pairwise resolved)")
            continue
        empty_list = segs is not None and any(x[0] in ("list", "tuple") and not x[1] for x in T.subterms(segs)) and \
            not any(x[0] in ("list", "tuple") and x[1] for x in T.subterms(segs))
        n_empty_facts = sum(1 for k0, tv0 in pa.facts.items()
                            if any(x0[0] == "attr" and x0[2] == "empty" for x0 in T.subterms(k0)) and
                            ((k0[0] == "eq" and tv0 is True) or (k0[0] == "ne" and tv0 is False) or (k0[0] == "attr" and tv0 is True)))
        if not resolves and empty_list and n_empty_facts >= 2:
            continue            # both resolved segments were found empty by the path's own tests: the filter written as a loop
        if not resolves:
            ck.violation("C08.6", "AlignmentResultRow.resolve:segments", w,
                         "segments of the joined row do not come from conflict resolution of the parts",
                         found=T.show(segs)[:200] if segs else "None", required="pair.resolveConflict() of the two first segments")
            continue
        inner_list = dict(segs[2]).get("segments") if segs[0] == "new" and segs[2] else (list(dict(segs[3]).values())[0] if segs[0] == "app" and segs[3] else None)
        src0 = None
        if inner_list is not None and inner_list[0] == "comp" and len(inner_list[3]) == 1:
            src0 = inner_list[3][0][0]
        elif inner_list is not None and inner_list[0] in ("list", "concat"):
            src0 = inner_list
        pair = resolves[0][1] if resolves[0][0] == "mcall" else resolves[0][2]
        if not (pair[0] == "app" and pair[1].endswith(".checkForConflicts")):
            raise AnalysisError(f"{w}: conflict pair is not built by checkForConflicts: {T.show(pair)[:160]}")
        left0, right0 = pair[2], list(dict(pair[3]).values())[0]
        cond = T.mk_lt(T.mk_attr(T.mk_attr(T.mk_idx(self_attr("alignedPairs"), C(0)), "reference"), "position"),
                       T.mk_attr(T.mk_attr(T.mk_idx(T.mk_attr(other, "alignedPairs"), C(0)), "reference"), "position"))
        pc, pol = T.positive(cond)
        cases = []
        sels = [x for x in list(T.subterms(left0)) + list(T.subterms(right0)) if x[0] == "select"]
        if sels:
            # the order is chosen by a conditional expression (possibly `a, b = (x, y) if c else (y, x)`): one case per outcome
            sel = sels[0]
            sc, spol = T.positive(sel[1])
            for tvc in (True, False):
                f2 = dict(pa.facts)
                f2[sc] = tvc
                cases.append((T.specialize(left0, {sc: tvc}), T.specialize(right0, {sc: tvc}), f2,
                              T.specialize(src0, {sc: tvc}) if src0 is not None else None, T.specialize(resolves[0], {sc: tvc})))
            n += 1
        else:
            cases.append((left0, right0, dict(pa.facts), src0, resolves[0]))
        for left, right, facts, src, resolution in cases:
            def part_of(t):
                if t[0] == "idx" and t[2][0] == "c" and isinstance(t[2][1], int):
                    P = _segments_owner(t[1])
                    if P is not None:
                        return P, t[2][1]
                return None
            pl, pr = part_of(left), part_of(right)
            ok_parts = pl is not None and pr is not None and {pl[0], pr[0]} == {V(fn.self_name), other} and pr[1] == 0 and pl[1] in (0, -1)
            ck.judge(ok_parts, "C08.6", "AlignmentResultRow.resolve:parts", w,
                     "the conflict pair is made of one segment of each part: the first segment of the later part against the first "
                     "(pinned tree) or last (the facing) segment of the earlier part", found=f"{T.show(left)} / {T.show(right)}",
                     required="<earlier>.segments[0 or -1] and <later>.segments[0]")
            if ok_parts and src is not None:
                _joined_segments(ck, fn, w, src, resolution, pl, pr, facts)
            # earlier part on the left
            tv = facts.get(pc)
            if tv is None:
                alt = [k for k in facts if T.contains(k, T.mk_attr(other, "alignedPairs")) or T.contains(k, T.mk_attr(other, "referenceStartPosition"))]
                if alt:
                    raise AnalysisError(f"{w}: ordering test of the two parts not recognised: {T.show(alt[0])[:160]}")
                ck.violation("C08.6", "AlignmentResultRow.resolve:order", w, "the two parts are joined without ordering them by "
                             "reference position", found=pa.describe()[:200], required="earlier part as left segment")
            else:
                self_first = (tv == pol)
                ck.judge(((pl[0] == V(fn.self_name)) if pl else (left == first_self)) == self_first, "C08.6", f"AlignmentResultRow.resolve:order:{'self' if self_first else 'other'}-first",
                         w, "the part that starts earlier on the reference is the left segment of the conflict pair",
                         found=f"left = {T.show(left)} when self starts {'earlier' if self_first else 'later or equal'}",
                         required="left = the earlier part")
    ck.floor("C08.6 joined-row return paths", n, 2)

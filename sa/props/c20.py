"""C20 - indel calls are self-consistent; clustering conserves every call (sv/ scripts, no tests at all).

Decided:
  C20.1  conservation (R-PATH, exactly-one-consume): on every path through one iteration of the clustering loop the
         call is either merged into the last cluster (count + 1 AND id appended, start <- min, stop <- max, guarded by
         equality of the (type, chromosome) prefix) or appended as a new cluster with count 1 - never neither / both
  C20.2  call self-consistency in both finders: Length slot = |ref gap| - |query gap|; 'insertion' exactly when
         that is negative (under the gate |diff| > T the test diff < -T' is diff < 0 iff 0 <= T' <= T); the first
         slot equals the key of the list appended to
  C20.3  record layout agreement: producers' 8 slots <-> indices used by cluster_indels <-> header column order <->
         sort key (chromosome, reference stop)
  C20.4  every call reaches the clustering and every cluster reaches the file: the lists handed to cluster_indels are the
         finders' lists, only sorted; the lines written are the concatenation of both clustered lists, only sorted
  C20.5  the coordinates of a record are those of the two flanking aligned labels (breakage pair and the pair after it, label
         number - 1 as index, maps selected by the alignment's ids)
Declined: interval cover for arbitrary unsorted input, the averaging of Length.
"""
from __future__ import annotations

import ast
from typing import Dict, List, Optional, Tuple

from ..loader import AnalysisError, FunctionInfo
from .. import terms as T
from ..terms import C, V, Term
from ..paths import Explorer
from ..rules.common import explore, where, short, path_terms


def _header_columns(ck, writer: FunctionInfo) -> Tuple[List[str], ast.AST]:
    best = None
    # string constants of the writer itself and of the module-level names (bound once) it reads
    mod = writer.module
    used = {n.id for n in ast.walk(writer.node) if isinstance(n, ast.Name) and isinstance(n.ctx, ast.Load)}
    extra = [v for k, v in mod.assigns.items() if k in used and
             sum(1 for x in ast.walk(mod.tree) if isinstance(x, ast.Name) and x.id == k and isinstance(x.ctx, ast.Store)) == 1]
    for n in list(ast.walk(writer.node)) + [y for v in extra for y in ast.walk(v)]:
        if isinstance(n, ast.Constant) and isinstance(n.value, str) and n.value.startswith("#") and "\t" in n.value:
            cols = [c.strip() for c in n.value.lstrip("#").split("\t")]
            cols = [c for c in cols if c]
            if best is None or len(cols) > len(best[0]):
                best = (cols, n)
    if best is None:
        raise AnalysisError(f"{writer.where}: header line of the indel file not found")
    return best


def _only_sorted(t: Term, leaf_pred) -> Optional[Term]:
    """strip sorted(...) / list(...) wrappers; the leaf must satisfy leaf_pred, anything else in between -> None"""
    cur = t
    while True:
        if cur[0] == "call" and cur[1] in ("sorted", "list", "tuple") and len(cur[2]) == 1:
            cur = cur[2][0]
            continue
        return cur if leaf_pred(cur) else None


def _flanking_labels(ck, construct, w, rec, ix):
    """C20.5: the four coordinates are positions of the labels named by the breakage pair B and the pair that follows it, N =
    alignedPairs[index(B) + 1]: <maps>[<id of the alignment>].positions[<pair>.<axis>.siteId - 1]"""
    ck.clause("C20.5", "the record's coordinates are those of the two flanking aligned labels: the breakage pair and the next pair, "
                       "looked up by label number - 1 in the map with the alignment's id")

    def parse(t, axis):
        # idx(attr(idx(DICT, ID), 'positions'), PAIR.axis.siteId - 1)
        if not (t[0] == "idx" and t[1][0] == "attr" and t[1][2] == "positions" and t[1][1][0] == "idx"):
            return None
        d, idt = t[1][1][1], t[1][1][2]
        index = t[2]
        pairs = [x for x in T.subterms(index) if x[0] == "attr" and x[2] == "siteId" and x[1][0] == "attr" and x[1][2] == axis]
        if len(pairs) != 1:
            return None
        pair = pairs[0][1][1]
        off_ok = index == T.p_sub(pairs[0], C(1))
        return d, idt, pair, off_ok, index
    slots = {"RefStart": "reference", "RefStop": "reference", "QueryStart": "query", "QueryStop": "query"}
    parsed = {}
    for name, axis in slots.items():
        r = parse(rec[ix[name]], axis)
        if r is None:
            raise AnalysisError(f"{w}: slot {name} is not <maps>[id].positions[<pair>.{axis}.siteId - 1]: {T.show(rec[ix[name]])[:160]}")
        parsed[name] = r
    for name, (d, idt, pair, off_ok, index) in parsed.items():
        ck.judge(off_ok, "C20.5", f"{construct}:{name}:label-number", w,
                 "label numbers are 1-based: the coordinate of label k is positions[k - 1]", found=T.show(index)[:120],
                 required="<pair>.<axis>.siteId - 1")
    B, N = parsed["RefStart"][2], parsed["RefStop"][2]
    ck.judge(parsed["QueryStart"][2] == B and parsed["QueryStop"][2] == N, "C20.5", construct + ":same-pairs", w,
             "reference and query coordinates of one end come from the same aligned pair",
             found=f"start: {T.show(B)[-60:]} / {T.show(parsed['QueryStart'][2])[-60:]}; stop: {T.show(N)[-60:]} / {T.show(parsed['QueryStop'][2])[-60:]}")
    # N = alignedPairs[index of B + 1]
    ok_next = False
    if N[0] == "idx" and N[1][0] == "attr" and N[1][2] == "alignedPairs":
        aln = N[1][1]
        nidx = N[2]
        if B[0] == "idx" and B[1] == N[1]:                     # B = alignment.alignedPairs[i]
            ok_next = nidx == T.p_add(B[2], C(1))
        elif B[0] == "idx" and B[2] == C(1):                   # B = breakage[1], its index is breakage[0]
            ok_next = nidx == T.p_add(T.mk_idx(B[1], C(0)), C(1))
        ids_ok = parsed["RefStart"][1] == T.mk_attr(aln, "referenceId") and parsed["RefStop"][1] == T.mk_attr(aln, "referenceId") and \
            parsed["QueryStart"][1] == T.mk_attr(aln, "queryId") and parsed["QueryStop"][1] == T.mk_attr(aln, "queryId")
        ck.judge(ids_ok, "C20.5", construct + ":maps", w, "coordinates are looked up in the maps with the alignment's own reference / query id",
                 found="; ".join(T.show(parsed[k][1])[-50:] for k in slots))
        ck.judge(parsed["RefStart"][0] == parsed["RefStop"][0] and parsed["QueryStart"][0] == parsed["QueryStop"][0]
                 and parsed["RefStart"][0] != parsed["QueryStart"][0], "C20.5", construct + ":dictionaries", w,
                 "reference coordinates come from the reference maps, query coordinates from the query maps",
                 found="; ".join(T.show(parsed[k][0]) for k in slots))
    ck.judge(ok_next, "C20.5", construct + ":next-pair", w, "the second flanking label belongs to the aligned pair right after the breakage pair",
             found=f"breakage pair {T.show(B)[-80:]}, next {T.show(N)[-100:]}", required="alignedPairs[<index of the breakage pair> + 1]")


def _breakage_pair_is_joined_pair(ck):
    """C20.9: what the molecule finder's breakage search records per molecule is (index, pair) with pair == joined.alignedPairs[index]:
    C20.5 takes the pair as the first flanking label and joined.alignedPairs[index + 1] as the second, so only then are the two
    labels neighbours in the joined record. Decided per store `table[id] = [INDEX, PAIR]`:
      * inside a branch whose test is `joined.alignedPairs[INDEX] != PAIR`            -> the pair is positively NOT that pair
      * PAIR is <part or joined>.alignedPairs[INDEX] with INDEX = <loop index> - 1 inside that branch -> the last agreeing pair
      * after the loop, under the 'nothing differed' flag, with the loop's own (index, pair)  -> the last pair of the part, which agreed
    """
    from ..norm import norm_in
    ck.clause("C20.9", "the breakage pair the molecule finder records is a pair of the joined record, stored with its own index there: "
                       "the first flanking label is joined.alignedPairs[i], the second joined.alignedPairs[i + 1] (neighbours in the record)")
    p = ck.ctx.p
    fn = p.find_function("sv.molecule_indels", "find_conflict_place")
    if fn is None:
        raise AnalysisError("sv.molecule_indels.find_conflict_place not found")
    # positively recognised: the pair is only known to OCCUR in the joined record (`pair in joined.alignedPairs`), and its index in the
    # part is recorded as if it were its index in the joined record
    parents0 = {c: par for par in ast.walk(fn.node) for c in ast.iter_child_nodes(par)}
    for st0 in [n for n in ast.walk(fn.node) if isinstance(n, ast.Assign) and len(n.targets) == 1 and isinstance(n.targets[0], ast.Subscript)
                and isinstance(n.value, (ast.List, ast.Tuple)) and len(n.value.elts) == 2 and isinstance(n.value.elts[1], ast.Name)]:
        cur0 = st0
        while cur0 in parents0:
            par0 = parents0[cur0]
            if isinstance(par0, ast.If) and cur0 in par0.body and isinstance(par0.test, ast.Compare) and len(par0.test.ops) == 1 \
                    and isinstance(par0.test.ops[0], ast.In) and isinstance(par0.test.left, ast.Name) \
                    and par0.test.left.id == st0.value.elts[1].id and ast.unparse(par0.test.comparators[0]).endswith(".alignedPairs"):
                ck.violation("C20.9", "molecule_indels.find_conflict_place:breakage:differs", where(fn, st0),
                             "the pair recorded is only known to occur SOMEWHERE in the joined record (`in`), and the index recorded with it "
                             "is its index in the part: when a trimmed tail pair of the part is also aligned by the other part it sits "
                             "earlier in the joined record, alignedPairs[index + 1] is not its neighbour and the call spans several gaps",
                             found=f"if {ast.unparse(par0.test)}: {ast.unparse(st0)[:80]}",
                             required="[i, joined.alignedPairs[i]] with i the pair's index in the JOINED record")
                return
            cur0 = par0
    loops = [n for n in ast.walk(fn.node) if isinstance(n, ast.For) and isinstance(n.iter, ast.Call)
             and ast.unparse(n.iter.func) == "enumerate" and isinstance(n.target, ast.Tuple) and len(n.target.elts) == 2
             and all(isinstance(e, ast.Name) for e in n.target.elts)]
    if len(loops) != 1:
        raise AnalysisError(f"{fn.where}: the loop over the pairs of the part that starts the joined record was not found")
    lp = loops[0]
    iname, pname = lp.target.elts[0].id, lp.target.elts[1].id
    part_pairs = norm_in(ck.ctx, fn, lp.iter.args[0])                     # <part>.alignedPairs
    if not (part_pairs[0] == "attr" and part_pairs[2] == "alignedPairs"):
        raise AnalysisError(f"{where(fn, lp)}: the loop does not run over a part's aligned pairs: {T.show(part_pairs)[:100]}")
    # the joined record: the `for <alignment> in ...` loop that encloses lp
    outer = [n for n in ast.walk(fn.node) if isinstance(n, ast.For) and n is not lp and any(x is lp for x in ast.walk(n))
             and isinstance(n.target, ast.Name)]
    if not outer:
        raise AnalysisError(f"{fn.where}: the loop over the joined records was not found")
    joined = V(outer[-1].target.id)
    JP = T.mk_attr(joined, "alignedPairs")
    parents = {}
    for n in ast.walk(fn.node):
        for c in ast.iter_child_nodes(n):
            parents[c] = n

    def enclosing_tests(node, stop):
        out = []
        cur = node
        while cur in parents and parents[cur] is not stop:
            par = parents[cur]
            if isinstance(par, ast.If):
                out.append((par, cur in par.body or any(cur is x for b in par.body for x in ast.walk(b))))
            cur = par
        return out, (parents.get(cur) is stop)

    stores = [n for n in ast.walk(fn.node) if isinstance(n, ast.Assign) and len(n.targets) == 1 and isinstance(n.targets[0], ast.Subscript)
              and isinstance(n.value, (ast.List, ast.Tuple)) and len(n.value.elts) == 2]
    ck.floor("C20.9 breakage stores in find_conflict_place", len(stores), 1)
    mismatch = T.mk_ne(T.mk_idx(JP, V(iname)), V(pname)) if hasattr(T, "mk_ne") else None
    for st in stores:
        w = where(fn, st)
        idx_t = norm_in(ck.ctx, fn, st.value.elts[0])
        pair_t = norm_in(ck.ctx, fn, st.value.elts[1])
        inside = any(x is st for b_ in lp.body for x in ast.walk(b_))
        construct = "molecule_indels.find_conflict_place:breakage:" + ("differs" if inside else "all-agree")
        text = "the recorded pair is the joined record's pair at the recorded index"
        if inside:
            tests, _ = enclosing_tests(st, lp)
            differs = False
            for iff, in_body in tests:
                for cmp_ in [x for x in ast.walk(iff.test) if isinstance(x, ast.Compare) and len(x.ops) == 1]:
                    l, r = norm_in(ck.ctx, fn, cmp_.left), norm_in(ck.ctx, fn, cmp_.comparators[0])
                    if {l, r} == {T.mk_idx(JP, V(iname)), V(pname)}:
                        if isinstance(cmp_.ops[0], ast.NotEq) and in_body:
                            differs = True
                        elif isinstance(cmp_.ops[0], ast.Eq) and not in_body:
                            differs = True
            if not differs:
                raise AnalysisError(f"{w}: the test under which a breakage is recorded inside the loop is not recognised")
            # under `joined.alignedPairs[i] != pair`
            if idx_t == V(iname) and pair_t == V(pname):
                ck.violation("C20.9", construct, w, text + ": under the test that the part's pair differs from the joined record's pair at "
                             "this index, the pair recorded is the part's pair - a pair that was trimmed away when the parts were joined; "
                             "the call is measured from a label that is not aligned in the joined record to alignedPairs[index + 1], "
                             "skipping the record's pair at the index (wrong Length and type; RefStart can exceed RefStop)",
                             found=f"[{T.show(idx_t)}, {T.show(pair_t)}] where {T.show(JP)}[{iname}] != {pname}",
                             required=f"[{iname} - 1, {T.show(JP)}[{iname} - 1]] (the last pair the part shares with the joined record)")
                continue
            prev = T.p_sub(V(iname), C(1))
            if idx_t == prev and pair_t in (T.mk_idx(JP, prev), T.mk_idx(part_pairs, prev)):
                ck.ok("C20.9", construct, w, "the last pair before the first difference is recorded with its own index")
                continue
            if pair_t == T.mk_idx(JP, idx_t):
                raise AnalysisError(f"{w}: a pair of the joined record is recorded, but which one is not understood: {T.show(idx_t)[:80]}")
            raise AnalysisError(f"{w}: what is recorded at the first difference is not recognised: [{T.show(idx_t)[:60]}, {T.show(pair_t)[:80]}]")
        else:
            after = True                 # the loop's else branch, or a statement behind the loop
            if after and idx_t == V(iname) and pair_t == V(pname):
                # the loop's own (index, pair) after the loop: the part's last pair when nothing differed - but a `break` taken at
                # the first difference reaches this statement too, unless the statement is the loop's else branch or sits under a flag
                in_else = any(x is st for b in lp.orelse for x in ast.walk(b))
                flagged = False
                cur = st
                while cur in parents and parents[cur] is not fn.node:
                    if isinstance(parents[cur], ast.If):
                        flagged = True
                    cur = parents[cur]
                breaks = [b for b in ast.walk(lp) if isinstance(b, ast.Break)]
                if in_else or (flagged and not breaks) or flagged:
                    ck.ok("C20.9", construct, w, "when no pair differs the part's last pair (equal to the joined record's pair at that index) is recorded")
                    continue
                verdicts = []
                for b in breaks:
                    blk = parents[b]
                    body = blk.body if b in getattr(blk, "body", []) else getattr(blk, "orelse", [])
                    re = None
                    for x in body[:body.index(b)]:
                        if isinstance(x, ast.Assign) and len(x.targets) == 1 and isinstance(x.targets[0], ast.Tuple) \
                                and [getattr(e, "id", None) for e in x.targets[0].elts] == [iname, pname] and isinstance(x.value, ast.Tuple):
                            re = (norm_in(ck.ctx, fn, x.value.elts[0]), norm_in(ck.ctx, fn, x.value.elts[1]))
                    prev = T.p_sub(V(iname), C(1))
                    if re is None:
                        verdicts.append(("bad", b))
                    elif re[0] == prev and re[1] in (T.mk_idx(JP, prev), T.mk_idx(part_pairs, prev)):
                        verdicts.append(("ok", b))
                    else:
                        raise AnalysisError(f"{where(fn, b)}: what the loop variables are set to before leaving the loop is not recognised")
                if not breaks:
                    ck.ok("C20.9", construct, w, "the loop is never left early: the part's last pair is recorded")
                elif any(k == "bad" for k, _ in verdicts):
                    b = next(b for k, b in verdicts if k == "bad")
                    ck.violation("C20.9", "molecule_indels.find_conflict_place:breakage:differs", where(fn, b),
                                 text + ": the loop is left at the first pair of the part that differs from the joined record and that pair "
                                 "- one that was trimmed away when the parts were joined - is what is recorded after the loop; the call is "
                                 "measured from a label that is not aligned in the joined record to alignedPairs[index + 1]",
                                 found=f"break with ({iname}, {pname}) as they are, then [{iname}, {pname}] is stored",
                                 required=f"[{iname} - 1, {T.show(JP)}[{iname} - 1]] at the first difference")
                else:
                    ck.ok("C20.9", construct, w, "at the first difference the loop variables step back to the last shared pair before the loop is left")
            elif pair_t == T.mk_idx(JP, idx_t):
                ck.ok("C20.9", construct, w, "a pair of the joined record with its own index")
            else:
                raise AnalysisError(f"{w}: what is recorded outside the loop is not recognised: [{T.show(idx_t)[:60]}, {T.show(pair_t)[:80]}]")
    # ---- which part is walked: the one whose first pair is the joined record's first pair
    ck.clause("C20.10", "the part the breakage search walks along the joined record is the part that starts it: chosen by comparing first "
                        "pairs with the joined record (label numbers descend on the reverse strand: no order on them finds it)")
    base = lp.iter.args[0]
    part_name = base.value.id if isinstance(base, ast.Attribute) and isinstance(base.value, ast.Name) else None
    if part_name is None:
        raise AnalysisError(f"{where(fn, lp)}: the part walked is not held in a local")
    binds = [n for n in ast.walk(outer[-1]) if isinstance(n, ast.Assign) and any(isinstance(t, ast.Name) and t.id == part_name for t in n.targets)]
    if not binds:
        raise AnalysisError(f"{where(fn, lp)}: where `{part_name}` is chosen was not found")
    first_eq = {T.mk_idx(JP, C(0))}
    for b in binds:
        wb = where(fn, b)
        tests, _ = enclosing_tests(b, outer[-1])
        tests_ok = False
        for iff, _in_body in tests:
            for cmp_ in [x for x in ast.walk(iff.test) if isinstance(x, ast.Compare) and len(x.ops) == 1 and isinstance(x.ops[0], (ast.Eq, ast.NotEq))]:
                l, r = norm_in(ck.ctx, fn, cmp_.left), norm_in(ck.ctx, fn, cmp_.comparators[0])
                if T.mk_idx(JP, C(0)) in (l, r):
                    tests_ok = True
        exprs = [b.value]
        for nm in {x.id for x in ast.walk(b.value) if isinstance(x, ast.Name)}:
            exprs += [a.value for a in ast.walk(outer[-1]) if isinstance(a, ast.Assign) and a is not b and len(a.targets) == 1
                      and isinstance(a.targets[0], ast.Name) and a.targets[0].id == nm]
        for ex_ in exprs:
            for cmp_ in [x for x in ast.walk(ex_) if isinstance(x, ast.Compare) and len(x.ops) == 1 and isinstance(x.ops[0], (ast.Eq, ast.NotEq))]:
                l, r = norm_in(ck.ctx, fn, cmp_.left), norm_in(ck.ctx, fn, cmp_.comparators[0])
                if T.mk_idx(JP, C(0)) in (l, r):
                    tests_ok = True
        if tests_ok:
            ck.ok("C20.10", f"molecule_indels.find_conflict_place:starting-part", wb, "chosen by comparing first pairs with the joined record")
            continue
        if isinstance(b.value, ast.Call) and isinstance(b.value.func, ast.Name):
            try:
                helper = p.find_function(fn.module.name, b.value.func.id)
            except AnalysisError:
                helper = None
            if helper is not None and any(
                    isinstance(x, ast.Compare) and len(x.ops) == 1 and isinstance(x.ops[0], (ast.Eq, ast.NotEq))
                    and ast.unparse(x.left).endswith(".alignedPairs[0]") and ast.unparse(x.comparators[0]).endswith(".alignedPairs[0]")
                    for x in ast.walk(helper.node)):
                ck.ok("C20.10", f"molecule_indels.find_conflict_place:starting-part", wb, f"chosen by {helper.name}: first pairs compared")
                continue
        order = [x for x in ast.walk(b.value) if isinstance(x, ast.Call) and ast.unparse(x.func) in ("min", "max", "sorted")]
        if order and any(isinstance(x, ast.Attribute) and x.attr in ("siteId", "position") for x in ast.walk(b.value)):
            ck.violation("C20.10", "molecule_indels.find_conflict_place:starting-part", wb,
                         "the part that starts the joined record is found by comparing first pairs with it: an order on label numbers "
                         "picks the other part on the reverse strand (pairs ascend on the reference and descend on the query there), the "
                         "flank recorded is then the first pair of the second part and the call spans the whole first part",
                         found=ast.unparse(b.value)[:140], required=f"the part whose alignedPairs[0] == {T.show(JP)}[0]")
            continue
        raise AnalysisError(f"{wb}: how the part that starts the joined record is chosen is not recognised: {ast.unparse(b.value)[:100]}")


def _coverage(ck, cluster, main, src):
    from ..norm import norm_in
    ctx = ck.ctx
    it = norm_in(ctx, cluster, main.iter)
    S = V(src)
    w = where(cluster, main)
    seeds = []          # what is put into the cluster list before the loop
    for n in ast.walk(cluster.node):
        if isinstance(n, ast.Assign) and isinstance(n.value, ast.List) and n.value.elts and n.lineno < main.lineno:
            for el in n.value.elts:
                seeds.append(el)
    env = {}
    for n in ast.walk(cluster.node):
        if isinstance(n, ast.Assign) and len(n.targets) == 1 and isinstance(n.targets[0], ast.Name) and n.lineno < main.lineno \
                and not isinstance(n.value, ast.List):
            env[n.targets[0].id] = norm_in(ctx, cluster, n.value, env=dict(env))
    seed_terms = [norm_in(ctx, cluster, el, env=dict(env)) for el in seeds]
    first_plus_one = ("concat", (T.mk_idx(S, C(0)), ("list", (C(1),))))
    # the clustering may be skipped only for an empty input list
    guards = []
    for pa in explore(ck, cluster, unroll=(1,)):
        if any(e.kind in ("iter", "foriter") and (e.node is main or getattr(e.node, "lineno", None) == main.lineno) for e in pa.events):
            own = {id(n) for n in ast.walk(cluster.node)}
            for c, tv, node in pa.state.assumptions:
                if id(node) not in own or not isinstance(node, ast.If):
                    continue          # a test inside a followed helper
                encloses = any(x is main for x in ast.walk(node))
                leaves_early = node.lineno < main.lineno and any(isinstance(x, (ast.Return, ast.Raise)) for x in ast.walk(node))
                if encloses or leaves_early:
                    guards.append((T.as_bool(c), tv, node))
            break
    for c, tv, node in guards:
        c0, pos = T.positive(c)
        truth = tv if pos else (not tv)
        ck.judge(c0 == T.as_bool(S) and truth is True, "C20.1", "cluster_indels:guard", where(cluster, node),
                 "calls are clustered whenever there are any: the only way round the loop is an empty input list",
                 found=("" if tv else "not ") + T.show(c)[:120], required=f"{src} non-empty")
    if it == S:
        ck.judge(not seed_terms, "C20.1", "cluster_indels:coverage", w, "the loop visits every call and nothing is put into the "
                 "cluster list beforehand", found=f"{len(seed_terms)} element(s) seeded before a loop over the whole list")
    elif it == ("slice", S, C(1), T.NONE, T.NONE):
        ok = len(seed_terms) == 1 and seed_terms[0] in (first_plus_one, T.p_add(T.mk_idx(S, C(0)), ("list", (C(1),))))
        ck.judge(ok, "C20.1", "cluster_indels:coverage", w,
                 "the first call opens the first cluster with count 1 and the loop visits all the others (list[1:])",
                 found="seeded: " + "; ".join(T.show(t)[:80] for t in seed_terms) + f" | loop over {T.show(it)}",
                 required=f"[{src}[0] + [1]] and a loop over {src}[1:]")
    else:
        ck.violation("C20.1", "cluster_indels:coverage", w, "the clustering loop does not visit every call exactly once",
                     found=f"loop over {T.show(it)[:100]}", required=f"{src}  or  {src}[1:] after seeding with {src}[0]")


def _writer_conserves(ck, writer, cluster):
    param = V(writer.call_params()[0].name)
    paths = [pa for pa in explore(ck, writer, unroll=(0, 1)) if pa.outcome in ("fall", "return")]
    if not paths:
        raise AnalysisError(f"{writer.where}: write_indel_file has no complete path")
    pa = max(paths, key=lambda q: len(q.events))
    # every complete path clusters both lists - a path that skips the clustering writes no call at all, so the condition it is
    # taken under must say that there are none
    for q in paths:
        has_cluster = any(x[0] == "app" and x[1] == cluster.qualname for t, facts, node, kind in path_terms(q) for x in T.subterms(t))
        if has_cluster:
            continue
        conds = [(c0, tv0, n0) for c0, tv0, n0 in q.state.assumptions]
        shown = "; ".join(("" if tv0 else "not ") + T.show(c0)[:80] for c0, tv0, _ in conds[-3:])
        one_empty_suffices = any((not tv0) and any(y[0] == "call" and y[1] == "all" for y in T.subterms(c0)) for c0, tv0, _ in conds)
        nothing_found = any((not tv0) and any(y[0] == "call" and y[1] == "any" for y in T.subterms(c0)) for c0, tv0, _ in conds)
        if one_empty_suffices:
            ck.violation("C20.4", "write_indel_file:always-clustered", where(writer, conds[-1][2]),
                         "the clustering and the writing of the calls are skipped as soon as *one* of the two lists is empty (`all(...)` "
                         "where `any(...)` was meant): a run that found only deletions - or only insertions - writes the header alone",
                         found="path without cluster_indels under: " + shown, required="both lists clustered on every path (an empty list clusters to nothing)")
        elif not nothing_found:
            raise AnalysisError(f"{writer.where}: a path through write_indel_file writes without clustering, under a condition that is not "
                                f"understood: {shown or '<none>'}")
    calls = []
    seen_nodes = set()
    for t, facts, node, kind in path_terms(pa):
        for x in T.subterms(t):
            if x[0] == "app" and x[1] == cluster.qualname and (id(node), x) not in seen_nodes and kind != "foriter":
                if any(c is x or (c == x and n2 is node) for c, n2 in calls):
                    continue
                seen_nodes.add((id(node), x))
                calls.append((x, node))
    ck.floor("C20.4 cluster_indels calls in write_indel_file", len(calls), 2)

    def from_dict(leaf):
        return leaf[0] == "idx" and any(y == param for y in T.subterms(leaf[1])) or \
            (leaf[0] == "idx" and leaf[1] == param) or (leaf[0] == "mcall" and leaf[1] == param and leaf[2] == "get")
    for x, node in calls:
        arg = list(dict(x[3]).values())[0] if x[3] else None
        leaf = _only_sorted(arg, from_dict) if arg is not None else None
        ck.judge(leaf is not None, "C20.4", "write_indel_file:clustered-input", where(writer, node),
                 "the list handed to cluster_indels is one of the finders' lists, only sorted - every call takes part",
                 found=T.show(arg)[:200] if arg is not None else "None",
                 required="cluster_indels(sorted(<list of the dictionary>, key=(chromosome, stop)))")
    leaves = []
    for x, node in calls:
        arg = list(dict(x[3]).values())[0] if x[3] else None
        leaf = _only_sorted(arg, from_dict) if arg is not None else None
        if leaf is not None:
            leaves.append((leaf, node))
    keys = [lf[2] if lf[0] == "idx" else (lf[3][0] if lf[0] == "mcall" and lf[3] else None) for lf, _ in leaves]
    fixed = all(k is not None and k[0] == "c" and (isinstance(k[1], str) or (isinstance(k[1], int) and k[1] >= 0)) for k in keys)
    ck.judge(len(leaves) == len(calls) and len({lf for lf, _ in leaves}) == len(leaves) and fixed, "C20.4",
             "write_indel_file:both-lists", writer.where,
             "the clustered lists are different entries of the finders' dictionary, each named by a key or a fixed position from the "
             "front (an entry clustered twice - e.g. [0] and [-1] of a one- or two-entry dictionary - drops the other type's calls)",
             found="; ".join(T.show(lf)[-60:] for lf, _ in leaves), required="two distinct entries, e.g. values()[0] and values()[1]")
    # what is written: iteration over sorted(concat of the clustered lists)
    loops = [e for e in pa.events if e.kind == "foriter"]
    written = None
    # f.writelines(<line built from c> for c in <clusters>): the loop written as a generator handed to writelines
    for e in pa.events:
        if e.kind == "call" and e.term[0] == "mcall" and e.term[2] == "writelines" and len(e.term[3]) == 1 and e.term[3][0][0] == "comp" \
                and len(e.term[3][0][3]) == 1 and not e.term[3][0][3][0][1]:
            comp = e.term[3][0]
            base = comp[3][0][0]
            while base[0] == "call" and base[1] in ("sorted", "list") and len(base[2]) == 1:
                base = base[2][0]
            if base[0] == "concat" and all(y[0] == "app" and y[1] == cluster.qualname for y in base[1]) and len(base[1]) == len(calls) and \
                    any(y[0] == "bv" for y in T.subterms(comp[2])):
                ck.ok("C20.4", "write_indel_file:written", where(writer, e.node),
                      "the lines written are all clusters of both types (writelines over the sorted concatenation)", T.show(base)[:120])
                ck.ok("C20.4", "write_indel_file:line-written", where(writer, e.node), "every cluster is turned into a line of the file", "")
                return
    for e in loops:
        base = e.term
        while base[0] == "call" and base[1] in ("sorted", "list") and len(base[2]) == 1:
            base = base[2][0]
        if base[0] == "concat" and all(y[0] == "app" and y[1] == cluster.qualname for y in base[1]):
            written = (base, e)
    ck.judge(written is not None and len(written[0][1]) == len(calls), "C20.4", "write_indel_file:written", writer.where,
             "the lines written are all clusters of both types (concatenation of the clustered lists, only sorted)",
             found="; ".join(T.show(e.term)[:120] for e in loops) or "no loop over the clusters")
    if written is not None:
        # ... and each of them is handed to write(): a call <file>.write(<something built from the loop's element>) after the
        # loop's element was taken
        e_loop = written[1]
        k = pa.events.index(e_loop)
        elem = None
        outs = []
        for e in pa.events[k + 1:]:
            if e.kind == "call" and e.term[0] == "mcall" and e.term[2] in ("write", "writelines") and e.term[3]:
                outs.append(e)
        per_line = [e for e in outs if any(x[0] == "elem" and T.contains(x, written[0]) for x in T.subterms(e.term[3][0]))]
        ck.judge(bool(per_line), "C20.4", "write_indel_file:line-written", where(writer, e_loop.node),
                 "every cluster the loop visits is written to the file", found=f"{len(outs)} write call(s) after the loop head, "
                 f"{len(per_line)} of them built from the loop's element", required="f.write(<the cluster's fields joined>) in the loop body")


def run(ck):
    ctx = ck.ctx
    p = ctx.p
    ck.clause("C20.1", "every call is consumed exactly once per clustering iteration (merge xor new cluster)")
    ck.clause("C20.2", "Length = |ref gap| - |query gap|; type 'insertion' iff negative; label = list key")
    ck.clause("C20.3", "record layout: producers <-> cluster_indels indices <-> header <-> sort key")
    ck.clause("C20.4", "write_indel_file passes every call to cluster_indels and writes every cluster (sorting only)")
    cluster = p.find_function("sv.write_indel_files", "cluster_indels")
    writer = p.find_function("sv.write_indel_files", "write_indel_file")
    finders = [p.find_function("sv.molecule_indels", "look_for_indels_in_breakage"),
               p.find_function("sv.segment_indels", "look_for_indels_in_breakage")]

    ck.clause("C20.7", "the finders turn label numbers into coordinates by positions[siteId - 1]: the maps must hold every label of the "
                       "file - nothing dropped, repeated or merged while reading (as C17.9)")
    from .c17 import frame_integrity
    frame_integrity(ck, "C20.7", modules=("src.parsers.cmap_reader", "src.parsers.bionano_file_reader", "sv.read_files"))
    ck.clause("C20.8", "reference maps and query maps are kept in separate tables: `a = b = {}` binds both names to ONE dictionary - a "
                       "molecule whose id equals a reference id replaces that reference, and label numbers are looked up in the wrong map")
    n_ch = 0
    for f0 in [f for f in p.nontest_functions() if f.module.name.startswith("sv.") and not f.is_lambda]:
        for node in ast.walk(f0.node):
            if isinstance(node, ast.Assign):
                n_ch += 1
                names = [t.id for t in node.targets if isinstance(t, ast.Name)]
                mutable = isinstance(node.value, (ast.Dict, ast.List, ast.Set)) or (
                    isinstance(node.value, ast.Call) and ast.unparse(node.value.func).split(".")[-1] in ("dict", "list", "set", "defaultdict"))
                if len(names) >= 2 and mutable:
                    written = [nm for nm in names if any(
                        (isinstance(x, ast.Subscript) and isinstance(x.ctx, ast.Store) and isinstance(x.value, ast.Name) and x.value.id == nm) or
                        (isinstance(x, ast.Call) and isinstance(x.func, ast.Attribute) and isinstance(x.func.value, ast.Name) and
                         x.func.value.id == nm and x.func.attr in ("append", "update", "setdefault", "add", "extend"))
                        for x in ast.walk(f0.node))]
                    if len(written) >= 2:
                        ck.violation("C20.8", short(f0) + ":aliased:" + "=".join(names), where(f0, node),
                                     f"{' and '.join(names)} are one object (chained assignment of a mutable value) and both are filled: "
                                     "entries with equal keys overwrite each other", found=ast.unparse(node)[:100],
                                     required="one display per name")
    ck.floor("C20.8 assignments scanned in sv/", n_ch, 60)
    if ck.wants("C20.9"):
        _breakage_pair_is_joined_pair(ck)
    ck.clause("C20.6", "label look-ups of the finders keep no state: nothing at module level is written while calls are produced "
                       "(a cache shared by reference and query maps answers one with the other's position)")
    from ..report import RuleView
    from . import c10
    sv_fns = [f for f in p.nontest_functions() if f.module.name.startswith("sv.") and not f.is_lambda]
    c10.module_state(RuleView(ck, {"C10.1": "C20.6"}), fns=sv_fns, floor=15)
    cols, hnode = _header_columns(ck, writer)
    ix = {c: i for i, c in enumerate(cols)}
    needed = ["Type", "Chromosome", "RefStart", "RefStop", "QueryId", "QueryStart", "QueryStop", "Length", "Count"]
    missing = [c for c in needed if c not in ix]
    if missing:
        raise AnalysisError(f"{where(writer, hnode)}: header columns {missing} not found in {cols}")
    ck.floor("C20.3 header columns", len(cols), 9)

    # ------------------------------------------------------------------ C20.2 / C20.3 producers
    layouts = []
    from ..rules.common import stale_reads

    def _is_record_append(s0):
        return isinstance(s0, ast.Expr) and isinstance(s0.value, ast.Call) and isinstance(s0.value.func, ast.Attribute) \
            and s0.value.func.attr == "append" and s0.value.args and \
            (isinstance(s0.value.args[0], ast.List) or isinstance(s0.value.func.value, ast.Subscript))
    for fn in finders:
        n_app = sum(1 for s0 in ast.walk(fn.node) if _is_record_append(s0))
        if n_app == 0:
            continue                      # the records are put together some other way: the slot rules below judge (or refuse) it
        stale = stale_reads(fn, _is_record_append)
        for s0, name in stale[:1]:
            ck.violation("C20.5", f"{fn.module.name.split('.')[-1]}.{fn.name}:same-iteration", where(fn, s0),
                         f"a record is appended where `{name}` is not computed on every path of the current iteration: for a breakpoint "
                         "without a following pair the values of the breakpoint handled before are reported again, under the current "
                         "molecule's id (a call no breakpoint supports)",
                         found=ast.unparse(s0)[:120], required="the record's coordinates are assigned on every path that reaches the append")
        if not stale:
            ck.ok("C20.5", f"{fn.module.name.split('.')[-1]}.{fn.name}:same-iteration", fn.where,
                  f"{n_app} record appends read only values bound on every path of their own iteration", "")
    for fn in finders:
        paths = explore(ck, fn, unroll=(1,), max_paths=4000, inline=1)
        appends = {}
        for pa in paths:
            for e in pa.events:
                if e.kind != "call":
                    continue
                t = e.term
                if not (t[0] == "mcall" and t[2] == "append" and t[1][0] == "idx" and len(t[3]) == 1 and t[3][0][0] == "list"):
                    continue
                k = t[1][2]
                if k[0] == "c" and isinstance(k[1], str):
                    appends.setdefault((k[1], e.lineno), (t, e, pa, e.facts or {}))
                elif k[0] == "select" and k[2][0] == "c" and k[3][0] == "c":
                    # the list key is chosen by a (helper's) conditional expression: one virtual append per arm, each under
                    # the arm's condition; the label slot is specialised the same way
                    for arm, tv in ((k[2], True), (k[3], False)):
                        facts = dict(e.facts or {})
                        T.add_fact(facts, k[1], tv)
                        rec = tuple(arm if x == k else x for x in t[3][0][1])
                        t2 = (t[0], (t[1][0], t[1][1], arm), t[2], (("list", rec),) + tuple(t[3][1:])) + tuple(t[4:])
                        appends.setdefault((arm[1], e.lineno), (t2, e, pa, facts))
        ck.floor(f"C20.2 record appends in {fn.module.name}", len(appends), 2)
        for (key, line), (t, e, pa, efacts) in sorted(appends.items()):
            rec = t[3][0][1]
            construct = f"{fn.module.name.split('.')[-1]}.{fn.name}:{key}"
            w = where(fn, e.node)
            if len(rec) != len(cols) - 1:
                ck.violation("C20.3", construct, w, "producer record does not have one slot per header column (Count is "
                             "added by clustering)", found=f"{len(rec)} slots", required=f"{len(cols) - 1} slots")
                continue
            layouts.append((construct, rec))
            # label == key
            ck.judge(rec[ix["Type"]] == C(key), "C20.2", construct + ":label", w,
                     "first slot equals the key of the list the record is appended to",
                     found=T.show(rec[ix["Type"]]), required=repr(key))
            # Length slot == |RefStart - RefStop| - |QueryStart - QueryStop|
            want = T.p_sub(T.mk_call("abs", [T.p_sub(rec[ix["RefStart"]], rec[ix["RefStop"]])]),
                           T.mk_call("abs", [T.p_sub(rec[ix["QueryStart"]], rec[ix["QueryStop"]])]))
            length = rec[ix["Length"]]
            ck.judge(length == want, "C20.2", construct + ":length", w,
                     "Length slot = reference gap minus query gap of the two flanking labels",
                     found=T.show(length)[:300], required=T.show(want)[:300])
            # roles of the slots
            def has_attr(term, name):
                return any(x[0] == "attr" and x[2] == name for x in T.subterms(term))
            roles_ok = has_attr(rec[ix["RefStart"]], "reference") and has_attr(rec[ix["RefStop"]], "reference") and \
                has_attr(rec[ix["QueryStart"]], "query") and has_attr(rec[ix["QueryStop"]], "query") and \
                not has_attr(rec[ix["RefStart"]], "query") and not has_attr(rec[ix["QueryStart"]], "reference")
            ck.judge(roles_ok, "C20.3", construct + ":roles", w,
                     "Ref*/Query* slots are looked up through the pair's reference/query label",
                     found=", ".join(T.show(x)[:80] for x in rec[2:7]))
            _flanking_labels(ck, construct, w, rec, ix)
            ids_ok = has_attr(rec[ix["Chromosome"]], "referenceId") and \
                (has_attr(rec[ix["QueryId"]], "queryId") or rec[ix["QueryId"]] == V("q_id"))
            ck.judge(ids_ok, "C20.3", construct + ":ids", w, "Chromosome slot = referenceId, QueryId slot = queryId",
                     found=f"{T.show(rec[ix['Chromosome']])}, {T.show(rec[ix['QueryId']])}")
            # sign test
            diff = want
            gate = None
            sign = None
            gate_inclusive = False
            for f, tv in efacts.items():
                if f[0] == "le" and tv is True:
                    items0 = dict(T.to_poly(f[1]))
                    const0 = items0.pop((), 0)
                    if T.from_poly(items0) == T.p_neg(T.mk_call("abs", [diff])) and (gate is None or const0 >= gate):
                        gate, gate_inclusive = const0, True                  # T - |diff| <= 0: the bound itself passes the gate
                if f[0] != "lt":
                    continue
                items = dict(T.to_poly(f[1]))
                const = items.pop((), 0)
                rest = T.from_poly(items)
                if rest == T.p_neg(T.mk_call("abs", [diff])) and tv is True:
                    gate = const if gate is None else max(gate, const)        # T - |diff| < 0
                elif rest == diff:
                    sign = (const, tv)                                          # diff + T' < 0  is tv
                elif rest == T.p_neg(diff) and sign is None and not (
                        ("lt", T.p_neg(f[1])) in efacts):
                    # -diff + k < 0  <=>  diff > k : the test written the other way round (not a derived fact)
                    sign = (const, tv, "gt")
                if sign is not None and len(sign) == 2:
                    sign = (sign[0], sign[1], "lt")
            if gate is None or sign is None:
                raise AnalysisError(f"{w}: gate |diff| > T / sign test diff < -T' not recognised on the path "
                                    f"({pa.describe()[:300]})")
            tprime, tv, direction = sign
            # direction 'lt':  (diff < -T') is tv ;  direction 'gt':  (diff > T') is tv.  Under the gate |diff| > T and
            # 0 <= T' <= T the recorded call has a negative diff exactly when ...
            negative = tv if direction == "lt" else (not tv)
            ok = (negative is (key == "insertion")) and 0 <= tprime <= gate
            if gate_inclusive and tprime == gate and tprime > 0:
                ok = False                # |diff| == T passes the gate, but diff == -T fails `diff < -T`: a negative Length filed as 'deletion'
            ck.judge(ok, "C20.2", construct + ":sign", w,
                     "type is 'insertion' exactly when reference gap - query gap is negative "
                     f"(gate T={gate}, test T'={tprime})",
                     found=f"'{key}' recorded when (diff {'<' if direction == 'lt' else '>'} "
                           f"{'-' if direction == 'lt' else ''}{tprime}) is {tv}",
                     required="'insertion' iff diff < 0, with 0 <= T' <= T")
    # sibling agreement of the two finders: both are judged slot by slot against the one header table above
    # (a direct term comparison would be a false alarm: one finder keeps the breakage pair in its dictionary, the
    # other re-reads it from the alignment - same roles, different access paths)
    ck.judge(len({len(rec) for _, rec in layouts}) == 1, "C20.3", "finders:slot-count", finders[0].where,
             "the two finders build records with the same number of slots",
             found=str(sorted({len(rec) for _, rec in layouts})))

    # ------------------------------------------------------------------ C20.1 conservation
    loops = [n for n in ast.walk(cluster.node) if isinstance(n, ast.For)]
    params = cluster.call_params()
    if not params:
        raise AnalysisError(f"{cluster.where}: cluster_indels takes no parameter")
    src = params[0].name
    main = None
    from ..norm import norm_in
    for lp in loops:
        try:
            it_t = norm_in(ctx, cluster, lp.iter)
        except AnalysisError:
            continue
        base = it_t[1] if it_t[0] in ("slice", "idx") else it_t
        if base == V(src) and isinstance(lp.target, ast.Name):
            main = lp
    if main is None:
        raise AnalysisError(f"{cluster.where}: loop over the input calls not found")
    line = V(main.target.id)
    # ---- every call is seen once: either the loop runs over the whole list (nothing put in beforehand), or the first call
    # opens the first cluster (count 1) and the loop runs over list[1:]
    _coverage(ck, cluster, main, src)
    # the cluster list: the list that is returned
    rets = [n for n in ast.walk(cluster.node) if isinstance(n, ast.Return) and isinstance(n.value, ast.Name)]
    if not rets:
        raise AnalysisError(f"{cluster.where}: returned cluster list not found")
    out_name = rets[-1].value.id
    out = V(out_name)
    last = T.mk_idx(out, C(-1))
    # invariant: everything put into the cluster list is <record> + [1]
    inv_ok = True
    n_put = 0
    for n in ast.walk(cluster.node):
        val = None
        if isinstance(n, ast.Assign) and any(isinstance(t, ast.Name) and t.id == out_name for t in n.targets):
            if isinstance(n.value, ast.List):
                for el in n.value.elts:
                    n_put += 1
                    val = el
                    if not _is_rec_plus_count(val):
                        inv_ok = False
        if isinstance(n, ast.Call) and isinstance(n.func, ast.Attribute) and n.func.attr == "append" and \
                isinstance(n.func.value, ast.Name) and n.func.value.id == out_name and n.args:
            n_put += 1
            if not _is_rec_plus_count(n.args[0]):
                inv_ok = False
    facts: Dict[Term, bool] = {}
    if inv_ok and n_put:
        # records have len(cols) - 1 slots (checked above), so len(cluster) == len(cols) != len(cols) - 1
        T.add_fact(facts, T.mk_eq(T.mk_call("len", [last]), C(len(cols) - 1)), False)
        ck.observe(f"O5 {cluster.where}: every cluster is `<record> + [1]` ({len(cols)} slots), so the "
                   f"`len(prev_line) == {len(cols) - 1}` arm and the `elif` arm of cluster_indels are dead code")
    ex = Explorer(ctx, cluster, env={main.target.id: line, out_name: out}, facts=facts, unroll=(0, 1),
                  follow=lambda callee: callee.module is cluster.module and callee is not cluster)
    body_paths = ex.run(body=main.body)
    ck.add_paths(len(body_paths))
    ck.floor("C20.1 paths through one clustering iteration", len(body_paths), 2)
    n_merge = n_new = 0
    for pa in body_paths:
        new_ev = []
        inc_ev = []
        id_ev = []
        min_ev = []
        max_ev = []
        for e in pa.events:
            if e.kind == "call" and e.term[0] == "mcall" and e.term[2] == "append" and e.term[1] == out \
                    and T.contains(e.term, line):
                new_ev.append(e)
            if e.kind in ("setitem",) and e.extra["base"] == last:
                idx = e.extra["index"]
                val = e.term
                if idx == C(ix["Count"]) and val == T.p_add(T.mk_idx(last, idx), C(1)):
                    inc_ev.append(e)
                if idx == C(ix["QueryId"]) and T.contains(val, T.mk_idx(line, C(ix["QueryId"]))):
                    id_ev.append(e)
                    ck.judge(T.contains(val, T.mk_idx(last, C(ix["QueryId"]))), "C20.1", "cluster_indels:merge-ids",
                             where(cluster, e.node), "a merge keeps the query ids the cluster already holds and adds the new one "
                             "(every input query id appears in exactly one cluster)", found=T.show(val)[:160],
                             required="str(cluster[QueryId]) + ',' + str(line[QueryId])")
                if val[0] == "call" and val[1] == "min" and set(val[2]) == {T.mk_idx(last, idx), T.mk_idx(line, idx)}:
                    min_ev.append((idx, e))
                if val[0] == "call" and val[1] == "max" and set(val[2]) == {T.mk_idx(last, idx), T.mk_idx(line, idx)}:
                    max_ev.append((idx, e))
        desc = pa.describe()
        w = where(cluster, main)
        if len(new_ev) == 1 and not inc_ev and not id_ev:
            n_new += 1
            t = new_ev[0].term[3][0]
            ok = t == ("concat", (line, ("list", (C(1),))))
            ck.judge(ok, "C20.1", "cluster_indels:new-cluster", where(cluster, new_ev[0].node),
                     "a call that is not merged starts a new cluster with count 1", found=T.show(t),
                     required="line + [1]")
        elif not new_ev and len(inc_ev) == 1 and len(id_ev) == 1:
            n_merge += 1
            prefix_fact = None
            for f, tv in pa.facts.items():
                if f[0] == "eq" and {f[1], f[2]} == {("slice", line, T.NONE, C(2), T.NONE),
                                                     ("slice", last, T.NONE, C(2), T.NONE)}:
                    prefix_fact = tv
            ck.judge(prefix_fact is True, "C20.1", "cluster_indels:merge-guard", where(cluster, inc_ev[0].node),
                     "merge is guarded by equality of the (type, chromosome) prefix",
                     found=desc[:400], required="line[0:2] == cluster[0:2] on the path")
            smin = [i for i, _ in min_ev]
            smax = [i for i, _ in max_ev]
            ck.judge(smin == [C(ix["RefStart"])] and smax == [C(ix["RefStop"])], "C20.1", "cluster_indels:merge-interval",
                     where(cluster, inc_ev[0].node), "merge widens the interval: RefStart <- min, RefStop <- max",
                     found=f"min on slots {[T.show(i) for i in smin]}, max on slots {[T.show(i) for i in smax]}",
                     required=f"min on slot {ix['RefStart']}, max on slot {ix['RefStop']}")
        elif not new_ev and not inc_ev and not id_ev:
            ck.violation("C20.1", "cluster_indels:lost-call", w,
                         "a path through the clustering loop body consumes the call neither as a merge nor as a new "
                         "cluster: the call is lost (Count values no longer sum to the number of input calls)",
                         found="no effect on the cluster list", required="merge xor new cluster on every path", path=desc[:600])
        else:
            ck.violation("C20.1", "cluster_indels:double-count", w,
                         "a path through the clustering loop body both merges and appends, or merges partially",
                         found=f"new={len(new_ev)} count+1={len(inc_ev)} id-append={len(id_ev)}",
                         required="merge (count+1 and id) xor new cluster", path=desc[:600])
    ck.floor("C20.1 merge paths", n_merge, 1)
    ck.floor("C20.1 new-cluster paths", n_new, 1)

    # ------------------------------------------------------------------ C20.3 consumer indices / sort key
    # the blur distance test uses the RefStop slot (second component of the sort key)
    wpaths = [pa for pa in explore(ck, writer, unroll=(0, 1)) if pa.outcome in ("fall", "return")]
    wpa = max(wpaths, key=lambda q: len(q.events))
    sort_keys = {}
    for t, facts_, node, kind in path_terms(wpa):
        for x in T.subterms(t):
            if x[0] == "call" and x[1] == "sorted" and dict(x[3]).get("key") is not None:
                sort_keys.setdefault((dict(x[3])["key"], x[2]), node)
    ck.floor("C20.3 keyed sorts in write_indel_file", len(sort_keys), 1)
    want_key = ("tuple", (T.mk_idx(("bv", 0), C(ix["Chromosome"])), T.mk_idx(("bv", 0), C(ix["RefStop"]))))
    for (k, _sorted_what), node in sort_keys.items():
        ck.judge(k[0] == "lam" and k[1] == 1 and k[2] == want_key, "C20.3", "write_indel_file:sort-key",
                 where(writer, node), "calls are sorted by (Chromosome, RefStop) before clustering",
                 found=T.show(k)[:120], required=f"key = (slot {ix['Chromosome']}, slot {ix['RefStop']})")
    first_cond = None
    for pa in body_paths:
        for c, tv, node in pa.state.assumptions:
            if first_cond is None:
                first_cond = (c, node)
    if first_cond is None:
        raise AnalysisError(f"{cluster.where}: distance test of the clustering loop not found")
    c, node = first_cond
    want = T.mk_le(T.mk_call("abs", [T.p_sub(T.mk_idx(line, C(ix["RefStop"])), T.mk_idx(last, C(ix["RefStop"])))]),
                   V("blur"))
    ck.judge(c == want or T.mk_not(c) == want, "C20.3", "cluster_indels:distance-slot", where(cluster, node),
             "the merge distance is measured on the RefStop slot the calls were sorted by, inclusive of blur",
             found=T.show(c), required=T.show(want))
    # every cluster_indels input is the sorted list
    calls_ok = 0
    seen_apps = []
    for t, facts_, node, kind in path_terms(wpa):
        if kind == "foriter":
            continue
        for x in T.subterms(t):
            if x[0] == "app" and x[1] == cluster.qualname and not any(x == y and node is n2 for y, n2 in seen_apps):
                seen_apps.append((x, node))
    # one judgement per call site (the same term shows up again wherever its value is used)
    by_site = {}
    for x, node in seen_apps:
        by_site.setdefault(x, node)
    for x, node in by_site.items():
        a = list(dict(x[3]).values())[0] if x[3] else None
        good = a is not None and a[0] == "call" and a[1] == "sorted" and dict(a[3]).get("key") == ("lam", 1, want_key) \
            and not dict(a[3]).get("reverse")
        calls_ok += 1
        ck.judge(bool(good), "C20.3", f"write_indel_file:cluster-input@{calls_ok}", where(writer, node),
                 "cluster_indels receives the list sorted by (Chromosome, RefStop)", found=T.show(x)[:200])
    ck.floor("C20.3 cluster_indels call sites", calls_ok, 2)
    _writer_conserves(ck, writer, cluster)      # (after the clustering rule: a violation there is reported even when the writer's anchors are gone)


def _is_rec_plus_count(e: ast.expr) -> bool:
    return isinstance(e, ast.BinOp) and isinstance(e.op, ast.Add) and isinstance(e.right, ast.List) and \
        len(e.right.elts) == 1 and isinstance(e.right.elts[0], ast.Constant) and e.right.elts[0].value == 1

"""C03 - HitEnum is a faithful run-length encoding (structural clauses).

Decided:
  C03.1  run-length aggregator: given a non-empty operation list, every path from entry to normal exit
         passes through an emission (R-PATH with the emptiness / nullness store of the explorer).
  C03.2  the walk over reference labels covers first..last pair inclusive (range upper bound is last + 1).
  C03.3  the empty string is returned only when the record has no pair.
Declined: that replaying the string reproduces exactly the pairs (value-level).
"""
from __future__ import annotations

from ..loader import AnalysisError
from .. import terms as T
from ..terms import C, V
from ..rules.common import explore, where, short, nonempty_term, self_attr, find_terms


def written_cell(ck):
    """C03.6: what lands in the HitEnum column is row.cigarString of the row being written"""
    from ..rules.xmap import extract_writer, row_attrs
    w = extract_writer(ck)
    v = w.record_values.get("HitEnum")
    wf = where(w.fn, w.frame_node) if hasattr(w, "frame_node") else w.fn.where
    if v is None:
        raise AnalysisError(f"{w.fn.where}: the writer has no HitEnum column")
    attrs = row_attrs(v)
    indirect = [x for x in T.subterms(v) if x[0] == "idx" or (x[0] == "mcall" and x[2] in ("get", "__getitem__"))]
    if attrs == ["cigarString"] and not indirect:
        ck.ok("C03.6", "writeAlignments:HitEnum", wf, "HitEnum <- row.cigarString of the row being written", T.show(v)[:80])
    elif indirect or (attrs and "cigarString" not in attrs):
        ck.violation("C03.6", "writeAlignments:HitEnum", wf, "the HitEnum written for a record is not computed from that record: it is "
                     "looked up through another attribute, so two records sharing it (first- and second-pass record of one query in the "
                     "un-joined file) get the same string", found=T.show(v)[:200], required="row.cigarString")
    else:
        raise AnalysisError(f"{wf}: value of the HitEnum column not recognised: {T.show(v)[:160]}")


def run(ck):
    ctx = ck.ctx
    p = ctx.p
    ck.clause("C03.1", "aggregator emits on every path for a non-empty operation list")
    ck.clause("C03.2", "operation walk covers reference labels first..last inclusive")
    ck.clause("C03.3", "empty HitEnum only for a record without pairs")
    ck.clause("C03.4", "one walk over all pairs of the record (segment boundaries are not visible in HitEnum)")
    ck.clause("C03.5", "insertion run = |difference of query label numbers| - 1 (strand-symmetric), then the query cursor jumps to the current pair")
    ck.clause("C03.6", "the HitEnum cell of a written record is that record's own cigarString")
    written_cell(ck)
    ck.clause("C03.7", "the pairs a HitEnum is walked over come from one strand and one reference: records are joined only with "
                       "equal orientation and reference (as C08.4) - the walk assumes monotone query label numbers")
    from .c08 import _eligibility
    _eligibility(ck, {}, None, rule="C03.7", wiring=False)
    ck.clause("C03.8", "the pairs walked are in reference order and unique: segments are resolved pairwise along the chain and a "
                       "joined record holds only the two resolved segments (as C01.3 / C08.6)")
    from .c01 import pairwise_pass
    pairwise_pass(ck, "C03.8")
    from ..report import RuleView
    from . import c08
    c08._joined_row(RuleView(ck, {"C08.6": "C03.8"}, not_constructs=(":queryId", ":referenceId", ":queryLength", ":referenceLength")))   # which maps a record names is no matter of its HitEnum
    ck.clause("C03.10", "the pairs of a joined record share one numbering: second-pass fragments are aligned as they were cut, with "
                        "their label-number offset (as C02.4)")
    from .c02 import fragments_reach_second_pass
    fragments_reach_second_pass(ck, "C03.10")
    ck.clause("C03.11", "labels and pairs are ordered by coordinate, never by label number (which descends on the reverse strand): the "
                        "overlap tests of conflict resolution see a query-axis overlap on both strands (as C15.7 / C11.6)")
    from .c02 import records_frozen
    records_frozen(ck, "C03.15")
    ck.clause("C03.18", "second-pass fragments carry the number of labels cut off in front of them (as C02.4): an offset looked up by "
                        "coordinate (`positions.index(...)`) is one short when two labels share a coordinate, and the joined record then "
                        "holds two pairs with one query label number - the HitEnum walk drops one")
    from .c02 import fragments as _fr03
    from ..report import RuleView as _RV318
    _fr03(_RV318(ck, {"C03.18": "C03.18"}, not_constructs=(":length",)), "C03.18")      # the HitEnum walk reads label numbers, not lengths
    ck.clause("C03.21", "the conflicting sub-run of a segment runs over unpaired labels up to the first PAIR beyond the window's end (as "
                        "C15.4): cut at an unpaired label it is shorter than its partner's, the fallback removes only that piece and the two "
                        "chained segments keep a label each - the record lists (93,33)(95,31) and the HitEnum does not replay")
    if ck.wants("C03.21"):
        from .c15 import slice_window as _sw03
        from ..report import RuleView as _RV321
        _sw03(_RV321(ck, {"C15.4": "C03.21"}))
    ck.clause("C03.19", "a record keeps the strand it was built on: records are made by AlignmentResultRow.create only (as C02.10 / C04.2) - "
                        "a copy made with the raw constructor that leaves reverseStrand to its default writes Orientation '+' over pairs "
                        "that descend in the query, and the HitEnum walked in that direction does not give the listed pairs")
    if ck.wants("C03.19"):
        from ..report import RuleView as _RV319
        from . import c04 as _c04_319
        _c04_319.ownership(_RV319(ck, {"C04.2": "C03.19"}, only_constructs=("raw-AlignmentResultRow",)))
    ck.clause("C03.17", "the conflict test sees every overlap of two neighbouring chain members (as C15.6): an overlap that is not "
                        "resolved leaves a label in two segments of the record, and the HitEnum walk counts it twice")
    from .c15 import overlap_test as _ot03
    _ot03(ck, "C03.17")
    ck.clause("C03.16", "only neighbours in a chain can overlap (as C14.2): a join of two segments that overlap by more than half of the "
                        "shorter one is inadmissible, so the pairwise pass leaves no label listed twice for the HitEnum walk to trip over")
    from . import c14 as _c14
    _c14.join_score(RuleView(ck, {"C14.2": "C03.16"}))
    from .c15 import comparators
    from .c11 import position_order
    comparators(ck, "C03.11")
    position_order(ck, "C03.11")
    ck.clause("C03.12", "no label is paired twice: de-duplication groups candidates over a sort by the same key (as C01.4)")
    from .c01 import dedupe
    dedupe(ck, "C03.12")
    ck.clause("C03.9", "two segments of a record never keep the same label: each overlapping sub-run is cut at the index from "
                       "its own index table (as C15.5) - a label listed twice stalls the HitEnum walk")
    from . import c15
    cuts, impls, LS, RS = c15.collect_cuts(RuleView(ck, {}))
    c15.per_side_cuts(ck, "C03.9", cuts, impls, LS, RS)
    ck.clause("C03.14", "label numbers of a fragment count from the whole query on both strands (as C02.5): a joined record that mixes two "
                        "numberings cannot be replayed from its HitEnum")
    from .c02 import numbering as _numbering03
    _numbering03(ck, "C03.14")
    ck.clause("C03.13", "the label tables the cut is counted in hold every label of their map inside the segment - the pairs and the "
                        "unpaired labels of that side (as C15.8): otherwise the k-th label of the two overlapping segments is not the same "
                        "physical label and one label stays paired in both")
    c15.label_characteristics(RuleView(ck, {"C15.8": "C03.13"}), "C15.8")
    row = p.find_class("AlignmentResultRow")
    cigar = p.lookup_method(row, "cigarString", None)
    if cigar is None or not cigar.is_property:
        raise AnalysisError("anchor AlignmentResultRow.cigarString (property) not found")

    aligned = self_attr("alignedPairs")
    paths = explore(ck, cigar)
    agg_q = gen_q = None
    n_join = 0
    for pa in paths:
        if pa.outcome != "return":
            raise AnalysisError(f"{cigar.where}: cigarString has a path without return")
        v = pa.value
        joins = find_terms(v, lambda x: x[0] == "mcall" and x[2] == "join")
        if joins:
            n_join += 1
            arg = joins[0][3][0]
            apps = find_terms(arg, lambda x: x[0] == "app")
            if not apps:
                raise AnalysisError(f"{where(cigar, pa.node)}: joined value is not produced by a repository function")
            agg_q = apps[0][1]
            inner = [a for a in apps[1:]]
            if inner:
                gen_q = inner[0][1]
            # C03.3 (positive side): the aggregated string is returned when pairs exist
        else:
            # a path that does not go through the aggregator: must be the empty-record guard
            facts = pa.facts
            if v == C("") and any(e.kind == "loop-exit" and e.extra.get("iterations") == 0 for e in pa.events):
                # '' is what an accumulator holds after a loop that did not run: whether the loop over the aggregator's
                # output can run zero times is not something this rule can see
                raise AnalysisError(f"{where(cigar, pa.node)}: cigarString builds its value in a loop; the path on which the "
                                    f"loop does not run cannot be judged")
            if v == C(""):
                ok = facts.get(aligned) is False and len(pa.state.assumptions) == 1
                if ok:
                    ck.ok("C03.3", short(cigar), where(cigar, pa.node), "'' returned only under `not alignedPairs`",
                          pa.describe())
                else:
                    conds = [c for c, _, _ in pa.state.assumptions]
                    if conds and all(T.contains(c, aligned) or T.contains(c, self_attr("positions")) for c in conds):
                        ck.violation("C03.3", short(cigar), where(cigar, pa.node),
                                     "empty HitEnum returned for records that may have pairs",
                                     found=pa.describe(), required="guard equivalent to `not self.alignedPairs`")
                    else:
                        raise AnalysisError(f"{where(cigar, pa.node)}: unrecognised guard for the empty HitEnum: "
                                            f"{pa.describe()}")
            else:
                raise AnalysisError(f"{where(cigar, pa.node)}: cigarString returns a value that is neither '' nor "
                                    f"a join over the aggregator: {T.show(v)}")
    ck.floor("C03 join-over-aggregator paths", n_join, 1)
    if agg_q is None:
        raise AnalysisError("run-length aggregator not found from cigarString")
    agg = p.get_function(agg_q)

    # ---- C03.1
    params = agg.call_params()
    if len(params) != 1:
        raise AnalysisError(f"{agg.where}: aggregator is expected to take the operation list only")
    hits = V(params[0].name)
    ck.assume("the operation list handed to the aggregator is non-empty (cigarString guards `not alignedPairs`; "
              "C03.2 shows the walk includes the first pair) and its elements are HitEnum members (truthy)")
    apaths = explore(ck, agg, nonempty={hits}, truthy_elems=True, unroll=(0, 1, 2))
    bad = []
    for pa in apaths:
        if pa.outcome == "raise":
            continue
        emits = [e for e in pa.events if e.kind == "yield"]
        if emits:
            continue
        if pa.outcome == "return" and pa.value is not None and pa.value != T.NONE:
            ne = nonempty_term(pa.value, {hits})
            if ne is True:
                continue
            if ne is None:
                raise AnalysisError(f"{where(agg, pa.node)}: cannot decide non-emptiness of returned "
                                    f"{T.show(pa.value)}")
        bad.append(pa)
    if bad:
        for pa in bad[:1]:
            iters = [f"{e.extra['iterations']} iteration(s) of loop@{e.lineno}" for e in pa.events if e.kind == "loop-exit"]
            ck.violation("C03.1", short(agg), agg.where,
                         "a path through the aggregator emits nothing for a non-empty operation list "
                         "(e.g. a one-pair record gets an empty HitEnum)",
                         found="no emission", required="at least one emission on every path",
                         path="entry -> " + ", ".join(iters) + " -> " + pa.describe())
    else:
        ck.ok("C03.1", short(agg), agg.where, f"all {len(apaths)} enumerated paths (loops unrolled 0/1/2) emit",
              f"{len(apaths)} paths")

    # the first run starts from the first operation: with a single operation the one emission is (1, hits[0])
    single = [pa for pa in apaths if pa.outcome != "raise" and
              all(e.extra.get("iterations") == 0 for e in pa.events if e.kind == "loop-exit") and
              any(e.kind == "loop-exit" for e in pa.events)]
    for pa in single[:1]:
        emits = [e for e in pa.events if e.kind == "yield"]
        if len(emits) == 1:
            t = emits[0].term
            idxs = {x for x in T.subterms(t) if x[0] == "idx" and x[1] == hits}
            ones = any(x == C(1) for x in T.subterms(t))
            ck.judge(idxs == {T.mk_idx(hits, C(0))} and ones, "C03.1", short(agg) + ":first-run", where(agg, emits[0].node),
                     "a single operation is emitted as one run of length 1 of that operation (the first run starts at hits[0])",
                     found=T.show(t)[:160], required="run(1, hits[0])")
    # ---- C03.2
    if gen_q is None:
        raise AnalysisError("operation generator not found from cigarString")
    gen = p.get_function(gen_q)
    import ast
    loops = [n for n in ast.walk(gen.node) if isinstance(n, ast.For) and isinstance(n.iter, ast.Call)
             and isinstance(n.iter.func, ast.Name) and n.iter.func.id == "range" and len(n.iter.args) == 2]
    ck.floor("C03.2 reference walk loops", len(loops), 1)
    gpaths = explore(ck, gen, unroll=(0, 1), truthy_elems=True)
    seen = set()
    for pa in gpaths:
        for e in pa.events:
            if e.kind == "iter" and e.node in loops and id(e.node) not in seen:
                seen.add(id(e.node))
    # evaluate the range bounds symbolically on a path that enters the loop
    from ..norm import Normalizer
    judged = 0
    for pa in gpaths:
        for e in pa.events:
            if e.kind == "loop-exit" and e.node in loops and judged == 0:
                n = Normalizer(ctx, gen, pa.state.env, pa.state.heap)
                lo = n.norm(e.node.iter.args[0])
                hi = n.norm(e.node.iter.args[1])
                # lo = X[0].reference.siteId ; hi = X[-1].reference.siteId + 1 for the same X
                def base_of(t, idx):
                    for x in T.subterms(t):
                        if x[0] == "idx" and x[2] == C(idx):
                            return x[1]
                    return None
                bl, bh = base_of(lo, 0), base_of(hi, -1)
                ok = bl is not None and bl == bh and lo == T.mk_attr(T.mk_attr(T.mk_idx(bl, C(0)), "reference"), "siteId") \
                    and hi == T.p_add(T.mk_attr(T.mk_attr(T.mk_idx(bl, C(-1)), "reference"), "siteId"), C(1))
                if ok:
                    ck.ok("C03.2", short(gen), where(gen, e.node), "range(first.reference.siteId, last.reference.siteId + 1)",
                          f"range({T.show(lo)}, {T.show(hi)})")
                elif bl is not None and bh is not None and bl == bh:
                    ck.violation("C03.2", short(gen), where(gen, e.node), "reference walk does not cover first..last inclusive",
                                 found=f"range({T.show(lo)}, {T.show(hi)})",
                                 required="range(P[0].reference.siteId, P[-1].reference.siteId + 1)")
                else:
                    raise AnalysisError(f"{where(gen, e.node)}: unrecognised walk bounds range({T.show(lo)}, {T.show(hi)})")
                judged += 1
    ck.floor("C03.2 judged loops", judged, 1)

    # ---- C03.4: the joined value = aggregator(list(generator())) with the generator walking self.alignedPairs
    walk_args = []
    for pa in paths:
        joins = find_terms(pa.value, lambda x: x[0] == "mcall" and x[2] == "join") if pa.value is not None else []
        if not joins:
            continue
        arg = joins[0][3][0]
        w = where(cigar, pa.node)
        if not (arg[0] == "app" and arg[1] == agg_q):
            raise AnalysisError(f"{w}: joined value is not the aggregator's result")
        hits = list(dict(arg[3]).values())[0]
        inner = hits
        while inner[0] == "call" and inner[1] in ("list", "tuple") and len(inner[2]) == 1:
            inner = inner[2][0]
        one_walk = inner[0] == "app" and inner[1] == gen_q and inner[2] == V(cigar.self_name)
        if one_walk:
            walk_args.append(list(dict(inner[3]).values()))
        if one_walk:
            ck.ok("C03.4", short(cigar) + ":one-walk", w, "HitEnum is produced by one walk of the operation generator over the record")
        else:
            ck.violation("C03.4", short(cigar) + ":one-walk", w, "HitEnum is not produced by a single walk over all pairs of the record "
                         "(e.g. per segment and concatenated: labels skipped between segments get no D/I)", found=T.show(hits)[:240],
                         required="aggregate(list(self.__getHitEnums()))")
    # the generator starts from all aligned pairs of the row
    src_ok = False
    for pa in gpaths:
        for e in pa.events:
            if e.kind == "assign" and any(x == self_attr("alignedPairs") for x in T.subterms(e.term)):
                src_ok = True
    gparams = gen.call_params()
    handed_own = bool(walk_args) and all(len(a) == len(gparams) and all(v0 == self_attr("alignedPairs") for v0 in a) for a in walk_args)
    if len(gparams) == 1 and handed_own and any(
            any(x == V(gparams[0].name) for x in T.subterms(e.term)) for pa in gpaths for e in pa.events if e.kind == "assign"):
        # the pair list is collected once by the caller and handed over: the same walk over self.alignedPairs
        ck.ok("C03.4", short(gen) + ":source", gen.where, "the walk covers the record's own pair list, handed over by cigarString", "")
    elif gparams:
        ck.violation("C03.4", short(gen) + ":source", gen.where, "the operation generator no longer walks the record's own pair list "
                     "(it takes the pairs to walk as an argument)", found=f"parameters {[pp.name for pp in gparams]}",
                     required="walk over self.alignedPairs")
    else:
        ck.judge(src_ok, "C03.4", short(gen) + ":source", gen.where, "the walk covers self.alignedPairs (all pairs of the record)",
                 found="self.alignedPairs not read" if not src_ok else None)

    # ---- C03.5: insertion runs
    import ast as _ast
    inner_loops = []
    for lp in loops:
        for n2 in _ast.walk(lp):
            if isinstance(n2, _ast.For) and n2 is not lp and any(isinstance(y, (_ast.Yield,)) for y in _ast.walk(n2)):
                inner_loops.append(n2)
    def judge_count(cnt, w):
        absd = [x for x in T.subterms(cnt) if x[0] == "call" and x[1] == "abs"]
        sym = bool(absd) and cnt == T.p_sub(absd[0], C(1)) and \
            any(y[0] == "attr" and y[2] == "siteId" for y in T.subterms(absd[0]))
        if sym:
            ck.ok("C03.5", short(gen) + ":insertion-count", w, "insertions per gap = |difference of query label numbers| - 1", T.show(cnt)[:160])
        else:
            ck.violation("C03.5", short(gen) + ":insertion-count", w, "the number of I operations emitted for a gap is not "
                         "|difference of query label numbers| - 1 computed symmetrically for both strands",
                         found=f"run length {T.show(cnt)[:200]}", required="abs(current.query.siteId - previousQuery) - 1")
    done = False
    for pa in explore(ck, gen, unroll=(1, 2), truthy_elems=True):
        for e in pa.events:
            if done:
                break
            if e.kind == "foriter" and e.node in inner_loops:
                it = e.term
                done = True
                w = where(gen, e.node)
                cnt = None
                if it[0] == "call" and it[1] == "range":
                    a = it[2]
                    if len(a) == 1:
                        cnt = a[0]
                    elif len(a) == 2:
                        cnt = T.p_sub(a[1], a[0])
                if cnt is None:
                    raise AnalysisError(f"{w}: insertion loop is not a range(...): {T.show(it)[:160]}")
                judge_count(cnt, w)
            elif e.kind == "yield" and e.term[0] == "star":
                # yield from itertools.repeat(INSERTION, n)  /  yield from [INSERTION] * n
                rep = e.term[1]
                cnt = None
                if rep[0] == "call" and rep[1] in ("itertools.repeat", "repeat") and len(rep[2]) == 2:
                    cnt = rep[2][1]
                if cnt is not None:
                    done = True
                    judge_count(cnt, where(gen, e.node))
    if not done:
        raise AnalysisError(f"{gen.where}: insertion loop was not reached on a one-iteration path")
    # inside the insertion loop the query cursor must not be moved label by label
    for lp in inner_loops:
        for n2 in _ast.walk(lp):
            if isinstance(n2, (_ast.Assign, _ast.AugAssign)) and any(isinstance(t, _ast.Name) and "revious" in t.id
                                                                      for t in (_ast.walk(n2.targets[0]) if isinstance(n2, _ast.Assign) else [n2.target])):
                ck.violation("C03.5", short(gen) + ":cursor-in-loop", where(gen, n2), "the query cursor is updated inside the insertion "
                             "loop (direction-dependent: wrong end of the gap on the reverse strand)", found=_ast.unparse(n2),
                             required="previousQuery = currentPair.query.siteId after the run")
    # (listed last: what this borrowed rule cannot read must not keep the property's own rules from reporting)
    ck.clause("C03.20", "a joined record is handed back only if it is collinear (as C01.20): the HitEnum of a record whose query label numbers "
                        "jump back (`10M18I20D10M`) does not replay to the listed pairs")
    if ck.wants("C03.20"):
        from .c01 import joined_is_collinear as _jic03
        from ..report import RuleView as _RV320
        _jic03(_RV320(ck, {"C01.20": "C03.20"}), "C01.20")



"""C11 - mirroring a query mirrors its first-pass alignment (strand-sibling agreement, R-TERM).

  C11.1  label numbering: forward 1+shift ascending, reverse len+shift descending, coordinate length-1-p (as C02.5)
  C11.2  the chainer's join score does not depend on the strand: reverse-strand query coordinates are mirrored (C11.1) and
         ascend along a chain exactly like forward ones, so the query distance is current start - previous end on both
         strands and no quantity of getScore reads the strand flag (as C14.3; the tree negated it on '-' before fix F5)
  C11.3  row header: query start/end exchanged on the reverse strand (as C02.3)
  C11.4  the reverse strand is the full reversal of the forward bit vector, applied to the query only; both strands go
         through getInitialAlignment with otherwise identical arguments; the strand flag is carried unchanged from the
         correlation to pairing and to the result row
  C11.6  label positions are ordered by coordinate only (PositionWithSiteId.__lt__ compares .position): site ids descend on
         the reverse strand while coordinates ascend, so an ordering that looks at the site id first (dataclass order=True)
         misjudges "before / after" for every '-' segment pair
  C11.7  each strand's seed is offered iff that strand has peaks, on every path of __getPrimaryCorrelations: no path ends
         before the other strand was examined, no strand's offer is conditioned on the other strand's result
Declined: the end-to-end symmetry (needs binning symmetry and identical floating-point peaks on both strands).
"""
from __future__ import annotations

import ast

from ..loader import AnalysisError
from .. import terms as T
from ..terms import C, V
from ..rules.common import explore, where, short, self_attr, path_terms
from .c02 import numbering, header_derivation
from .c14 import expected_distances


def window_arguments(ck, rule):
    """getSequence vectorises exactly the window it was asked for: start / end reach the generator unchanged (the caller
    converts bin indices back with the *requested* start)"""
    p = ck.ctx.p
    gs = p.find_method("OpticalMap", "getSequence")
    names = [pp.name for pp in gs.call_params()]
    for pa in explore(ck, gs):
        if pa.outcome != "return":
            continue
        apps = [x for x in T.subterms(pa.value) if x[0] == "app" and x[1].endswith("positionsToSequence")]
        if not apps:
            raise AnalysisError(f"{where(gs, pa.node)}: vectorisation call not found in getSequence")
        a = dict(apps[0][3])
        for prm in ("start", "end"):
            if prm in names:
                ck.judge(a.get(prm) == V(prm), rule, f"{short(gs)}:{prm}", where(gs, pa.node),
                         f"the requested window {prm} is passed to the vectorisation unchanged (bin 0 is the bin that starts at the "
                         f"requested start)", found=T.show(a.get(prm, C(None)))[:120], required=prm)
        break


def position_order(ck, rule):
    """PositionWithSiteId is ordered by coordinate only"""
    p = ck.ctx.p
    cls = p.find_class("PositionWithSiteId")
    ck.clause(rule, "label positions are ordered by coordinate only (site ids descend on '-', coordinates ascend)")
    order_flag = False
    for d in cls.node.decorator_list:
        if isinstance(d, ast.Call):
            for k in d.keywords:
                if k.arg == "order" and isinstance(k.value, ast.Constant) and k.value.value is True:
                    order_flag = True
    lt = p.lookup_method(cls, "__lt__", None)
    w = f"{cls.module.relpath}:{cls.node.lineno}"
    if lt is None:
        if order_flag:
            ck.violation(rule, "PositionWithSiteId:order", w, "positions are compared as (siteId, position) tuples (dataclass "
                         "order=True): on the reverse strand site ids descend while coordinates ascend, so 'before' and 'after' "
                         "are exchanged for '-' alignments only", found="@dataclass(order=True), no __lt__",
                         required="__lt__ comparing .position only")
            return
        raise AnalysisError(f"{w}: PositionWithSiteId defines no ordering (neither __lt__ nor order=True)")
    other = V(lt.call_params()[0].name)
    for pa in explore(ck, lt):
        if pa.outcome != "return":
            continue
        want = T.mk_lt(self_attr("position"), T.mk_attr(other, "position"))
        ck.judge(T.as_bool(pa.value) == want, rule, "PositionWithSiteId.__lt__", where(lt, pa.node),
                 "a < b iff a.position < b.position (the site id takes no part)", found=T.show(pa.value)[:160],
                 required=T.show(want))
    for name in ("__gt__", "__le__", "__ge__"):
        m = p.lookup_method(cls, name, None)
        if m is not None:
            for pa in explore(ck, m):
                if pa.outcome == "return":
                    ck.judge(not any(x[0] == "attr" and x[2] == "siteId" for x in T.subterms(pa.value)), rule,
                             f"PositionWithSiteId.{name}", where(m, pa.node), "ordering does not look at the site id",
                             found=T.show(pa.value)[:160])


def strand_decisions(ck, pc, calls):
    """C11.7: on every path each strand is examined, by conditions on its own correlation only, and the decision function
    (conditions -> offered or not) is the same for both strands"""
    ck.clause("C11.7", "each strand's seed is offered by the same rule, from its own correlation only, on every path")
    if set(calls) != {C(False), C(True)}:
        return
    corr = {}
    for strand, (recv, a, e, term) in calls.items():
        corr[strand] = term
    HOLE = V("<strand correlation>")
    tables = {C(False): {}, C(True): {}}
    n_paths = 0
    for pa in explore(ck, pc):
        if pa.outcome not in ("return", "fall"):
            continue
        n_paths += 1
        v0 = pa.value if pa.outcome == "return" else None
        if v0 is not None and v0[0] == "comp" and len(v0[3]) == 1 and v0[2][0] == "bv" and v0[3][0][0][0] in ("tuple", "list") and \
                v0[3][0][1] and set(v0[3][0][0][1]) == set(corr.values()):
            # return [c for c in (forward, reverse) if <test>(c)]: each strand is offered under the test on its own correlation -
            # the two decisions the yields of the pinned code take one after the other
            conds = [T.substitute(c0, {v0[2]: HOLE}) for c0 in v0[3][0][1]]
            if any(T.contains(c0, corr[st]) for c0 in v0[3][0][1] for st in corr):
                raise AnalysisError(f"{where(pc, pa.node)}: the filter of the returned seeds mentions a strand's correlation directly")
            for st in corr:
                for tv0 in (True, False):
                    key = frozenset((c0, tv0) for c0 in conds) if len(conds) == 1 else None
                    if key is None:
                        raise AnalysisError(f"{where(pc, pa.node)}: the seeds are filtered by more than one condition: not in the vocabulary")
                    tables[st][key] = tv0
            n_paths += 3          # stands for the four outcome combinations of the two tests
            continue
        handed_back = list(pa.value[1]) if pa.outcome == "return" and pa.value is not None and pa.value[0] in ("list", "tuple") else []
        offered = {st: any(e.kind == "yield" and e.term == corr[st] for e in pa.events) or corr[st] in handed_back for st in corr}
        guards = {st: [] for st in corr}
        for c, tv, node in pa.state.assumptions:
            m = [st for st in corr if T.contains(c, corr[st])]
            if len(m) == 1:
                guards[m[0]].append((T.substitute(c, {corr[m[0]]: HOLE}), tv))
            elif len(m) == 2:
                ck.violation("C11.7", short(pc) + ":mixed-condition", where(pc, node), "a condition looks at both strands' "
                             "correlations at once: one strand's offer depends on the other strand's result",
                             found=T.show(c)[:200])
        for st in corr:
            name = "reverse" if st == C(True) else "forward"
            if not guards[st]:
                ck.violation("C11.7", short(pc) + f":{name}:not-examined", where(pc, pa.node) if pa.node is not None else pc.where,
                             f"a path ends without the {name} strand's correlation having been examined: whether that strand is "
                             f"offered as a seed depends on the other strand (" + "; ".join(
                                 ("" if tv else "not ") + T.show(c)[:90] for c, tv, _ in pa.state.assumptions) + ")",
                             found=f"{name} offered={offered[st]} with no condition on its own correlation",
                             required="offered iff its own correlation has peaks")
                continue
            key = frozenset(guards[st])
            prev = tables[st].get(key)
            if prev is not None and prev != offered[st]:
                ck.violation("C11.7", short(pc) + f":{name}:ambiguous", pc.where, f"the {name} strand is offered on one path and not "
                             f"on another under the same conditions on its own correlation", found=str(sorted(T.show(c)[:80] for c, _ in key)))
            tables[st][key] = offered[st]
    fw, rv = tables[C(False)], tables[C(True)]
    if fw and rv:
        same = fw == rv
        ck.judge(same, "C11.7", short(pc) + ":same-rule", pc.where,
                 "forward and reverse seeds are offered by the same decision rule (conditions on the strand's own correlation -> offered)",
                 found="forward: " + "; ".join(f"{sorted((T.show(c)[:60], tv) for c, tv in k)} -> {v}" for k, v in fw.items())
                       + " | reverse: " + "; ".join(f"{sorted((T.show(c)[:60], tv) for c, tv in k)} -> {v}" for k, v in rv.items())
                 if not same else f"{len(fw)} condition set(s), identical for both strands")
    ck.floor("C11.7 complete paths of __getPrimaryCorrelations", n_paths, 4)


def run(ck):
    ctx = ck.ctx
    p = ctx.p
    ck.clause("C11.1", "label numbering and mirrored coordinates on both strands")
    ck.clause("C11.2", "the join score is strand independent (mirrored query coordinates ascend on both strands)")
    ck.clause("C11.3", "row header exchanges query start/end on the reverse strand")
    ck.clause("C11.4", "reverse strand = reversed query vector; identical handling of both strands; strand flag carried through")
    numbering(ck, "C11.1")
    ck.clause("C11.5", "every query is trimmed the same way (length = last - first + 1), so mirroring about length-1 maps labels onto labels")
    from .c17 import trim_formulae
    trim_formulae(ck, "C11.5")
    # ---- C11.2
    fn = p.find_method("SequentialityScorer", "getScore")
    prev, cur = [pp.name for pp in fn.call_params()]
    ref_dist, q_dist, fwd, rev, ref_len, q_len = expected_distances(prev, cur)
    found = False
    own = lambda callee: callee.cls is fn.cls and callee is not fn
    for pa in explore(ck, fn, follow=own):
        for e in pa.events:
            if e.kind != "assign":
                continue
            subs = list(T.subterms(e.term))
            w = where(fn, e.node)
            name = e.node.targets[0].id if isinstance(e.node, ast.Assign) and isinstance(e.node.targets[0], ast.Name) else "?"
            reads_strand = [x for x in subs if x[0] == "attr" and x[2] in ("reverse", "reverseStrand")]
            ck.judge(not reads_strand, "C11.2", short(fn) + ":" + name + ":strand-independent", w,
                     "no quantity of the join score reads the strand flag: both strands present ascending coordinates, a "
                     "strand-dependent term scores a query and its mirror image differently",
                     found=T.show(e.term)[:240])
            mentions = lambda seg: any(x == T.mk_attr(T.mk_attr(T.mk_attr(V(seg), en + "Position"), "query"), "position")
                                       for x in subs for en in ("start", "end"))
            is_test = T.as_bool(e.term)[0] in ("lt", "le", "and", "or", "not", "eq", "ne") and e.term[0] != "poly"
            if mentions(prev) and mentions(cur) and not is_test and not any(x[0] == "call" and x[1] in ("min", "max") for x in subs):
                found = True
                ck.judge(e.term == fwd, "C11.2", short(fn) + ":query-distance", w,
                         "query distance between chained segments = current start - previous end on both strands",
                         found=T.show(e.term)[:240], required=T.show(fwd)[:240])
        break
    if not found:
        raise AnalysisError(f"{fn.where}: the query distance between the two segments was not found in getScore")
    header_derivation(ck, "C11.3")
    position_order(ck, "C11.6")
    ck.clause("C11.8", "a molecule and its mirror image are read with the same labels: label rows are selected by channel, not by "
                       "coordinate (as C17.2)")
    from ..report import RuleView
    from . import c17
    c17.run(RuleView(ck, {"C17.2": "C11.8"}))
    ck.clause("C11.12", "unpaired labels are found by membership of their label number in the kept pairs, on both strands alike - never by "
                        "label-number arithmetic, which fails for the descending numbers of a reverse-strand query (as C12.3)")
    from . import c12
    c12.run(RuleView(ck, {"C12.3": "C11.12"}, only_constructs=(":site-id-order",)))
    ck.ok("C11.12", "unpaired-selection", "src/alignment/aligner.py", "unpaired labels are not enumerated by label-number arithmetic", "")
    ck.clause("C11.14", "the Orientation written for a record is its strand flag, not a comparison of its coordinates (a one-pair '-' "
                        "record has equal query start and end)")
    from .c02 import orientation_column, extract_writer
    w14 = extract_writer(ck)
    if not orientation_column(ck, "C11.14", w14):
        ck.ok("C11.14", "column:Orientation", where(w14.fn, w14.frame_node), "Orientation is not derived from coordinates", "")
    ck.clause("C11.15", "a segment's aligned pairs are not ordered by label number (start / end of a '-' segment would be exchanged; as "
                        "C15.13), and the chainer's pre-order key does not look at the strand (as C14.6)")
    from .c15 import segment_endpoints
    segment_endpoints(ck, "C11.15", only_label_numbers=True)
    from . import c14 as _c14
    _c14.run(RuleView(ck, {"C14.6": "C11.15"}, only_constructs=(":pre-order:strand",)))
    ck.clause("C11.16", "a peak keeps the score it is given (as C16.8): a rounded score turns near-equal candidates of the two strands into "
                        "a tie, which enumeration order - forward first - decides")
    from .c12 import stored_unconverted as _su11
    if ck.wants("C11.16"):
        _su11(RuleView(ck, {"C12.7": "C11.16"}, only_files=("src/correlation/peak.py",)), "C12.7")
    ck.clause("C11.19", "a join is refused on coordinates only (as C14.2: -inf exactly for an excessive overlap): a further test on label "
                        "numbers - which descend along a reverse-strand query - refuses every join of a '-' molecule and none of its mirror image")
    if ck.wants("C11.19"):
        from . import c14 as _c14_11b
        _c14_11b.join_score(RuleView(ck, {"C14.2": "C11.19"}))
    ck.clause("C11.21", "every query reaches the aligner trimmed (as C17.4): the reversed bit vector starts at the last label, the mirrored "
                        "label coordinates at the molecule's end - the two origins coincide only when the molecule ends on its last label, "
                        "so an untrimmed molecule is seeded in one frame and paired in another on the reverse strand only")
    if ck.wants("C11.21"):
        from .c17 import queries_trimmed as _qt11
        _qt11(ck, "C11.21", references=False)
    if ck.wants("C11.20"):
        from .c07 import header_lookup_forward_only as _hlf11
        _hlf11(RuleView(ck, {"C07.G28": "C11.20"}), "C07.G28")
    ck.clause("C11.17", "the reverse strand's vector is the forward vector reversed, so the forward vector must end in the last label's "
                        "bin: nothing is padded, cut or re-sized between vectorisation and blur (as C16.6) - a padded tail becomes a "
                        "shifted head on the reverse strand only")
    from .c16 import sequence_is_blurred_vectorisation as _sibv11
    if ck.wants("C11.17"):
        _sibv11(RuleView(ck, {"C16.6": "C11.17"}))
    ck.clause("C11.18", "conflict resolution removes exactly the positions it is told to (as C15.1 :predicate): positions matched by "
                        "label number alone confuse a reference label with the query label of the same number - which is another "
                        "label after mirroring")
    from . import c15 as _c15_11
    if ck.wants("C11.18"):
        _c15_11.run(RuleView(ck, {"C15.1": "C11.18"}, only_constructs=(":predicate",)))
    ck.clause("C11.13", "whether two neighbouring segments are in conflict is decided from coordinates alone: no pre-test on label "
                        "numbers, which descend along a reverse-strand query (as C15.6)")
    from .c15 import conflict_decision
    conflict_decision(ck, "C11.13", only_label_numbers=True)
    ck.clause("C11.11", "a confidence tie between a '+' and a '-' candidate is not decided by the strand")
    from .c05 import best_candidate_tiebreak
    best_candidate_tiebreak(ck, "C11.11")
    ck.clause("C11.10", "positions are compared by coordinate on both axes, never by label number: label numbers descend along a "
                        "reverse-strand query while its mirrored coordinates ascend (as C15.7)")
    from .c15 import comparators
    comparators(ck, "C11.10")
    ck.clause("C11.9", "candidates of both strands are ordered by the strand-symmetric peak score, never by enumeration order "
                       "(forward before reverse): an exact confidence tie is not decided by the strand (as C16.1 / C05.4)")
    from .c05 import seeds
    seeds(ck, "C11.9")
    # ---- C11.4
    gs = p.find_method("OpticalMap", "getSequence")
    rs = V("reverseStrand")
    by_strand = {}
    for pa in explore(ck, gs):
        if pa.outcome != "return":
            continue
        known = pa.facts.get(rs)
        for strand in ((False, True) if known is None else (known,)):
            by_strand[strand] = (T.specialize(pa.value, {rs: strand}), pa)
    if set(by_strand) != {False, True}:
        raise AnalysisError(f"{gs.where}: getSequence does not return a vector for both strands")
    (fwd_t, fpa), (rev_t, rpa) = by_strand[False], by_strand[True]
    want = ("slice", fwd_t, T.NONE, T.NONE, C(-1))
    alt = ("call", "reversed", (fwd_t,), ())
    alt2 = ("call", "list", (alt,), ())
    ck.judge(rev_t in (want, alt, alt2) or (rev_t[0] == "mcall" and rev_t[2] == "__getitem__"), "C11.4", short(gs) + ":reversal",
             where(gs, rpa.node), "reverse-strand vector = complete reversal of the forward vector", found=T.show(rev_t)[:200],
             required=T.show(want)[:200])
    ck.judge(fwd_t[0] == "app" and fwd_t[1].endswith("positionsToSequence") and dict(fwd_t[3]).get("positions") == self_attr("positions"),
             "C11.4", short(gs) + ":forward", where(gs, fpa.node), "forward vector is the vectorisation of the map's own positions",
             found=T.show(fwd_t)[:160])
    window_arguments(ck, "C11.4")
    from ..rules import role as R
    R.run_role_rule(ck, "C11.4", modules={"src.correlation.optical_map"})
    gi = p.find_method("OpticalMap", "getInitialAlignment")
    seen_q = seen_r = False
    for pa in explore(ck, gi, unroll=(0, 1)):
        for t, facts, node, kind in path_terms(pa):
            for x in T.subterms(t):
                if x[0] == "app" and x[1].endswith("OpticalMap.getSequence"):
                    a = dict(x[3])
                    if x[2] == V(gi.self_name):
                        if not seen_q:
                            seen_q = True
                            ck.judge(a.get("reverseStrand") == V("reverseStrand"), "C11.4", short(gi) + ":query-vector", where(gi, node),
                                     "the query vector follows the requested strand", found=T.show(x)[:160])
                            ck.clause("C11.22", "the query vector of a correlation is the vector of the WHOLE molecule: it is reversed as a whole "
                                                "for the reverse strand, so bin 0 of the reversed vector is the molecule's last label - a "
                                                "vector cropped before the reversal (`end=...`) starts somewhere inside the molecule on the "
                                                "reverse strand only, and every seed is off by the cropped length")
                            windowed = [k for k in ("start", "end") if k in a and a[k] not in (C(0), C(None), T.NONE)]
                            ck.judge(not windowed, "C11.22", short(gi) + ":query-vector:whole", where(gi, node),
                                     "the query is vectorised without a window", found=T.show(x)[:160], required="getSequence(generator, reverseStrand)")
                    elif x[2] == V("reference"):
                        if not seen_r:
                            seen_r = True
                            ck.judge("reverseStrand" not in a or a["reverseStrand"] == C(False), "C11.4", short(gi) + ":reference-vector",
                                     where(gi, node), "the reference vector is never reversed", found=T.show(x)[:160])
        if pa.outcome == "return" and pa.value[0] == "app" and pa.value[1].endswith("InitialAlignment.create"):
            a = dict(pa.value[3])
            ck.judge(a.get("reverseStrand") == V("reverseStrand"), "C11.4", short(gi) + ":flag", where(gi, pa.node),
                     "the strand flag is recorded in the correlation result", found=T.show(a.get("reverseStrand", C(None))))
    if not (seen_q and seen_r):
        raise AnalysisError(f"{gi.where}: query / reference vectorisation not found in getInitialAlignment")
    # both strands, identical arguments
    from ..rules.common import private_anchor
    pc = private_anchor(ck.ctx, "_WorkflowCoordinator", "__getPrimaryCorrelations", "_WorkflowCoordinator.execute",
                        calls=("getInitialAlignment",))
    calls = {}
    together = False
    unread = []
    for pa in explore(ck, pc):
        strands_here = set()
        offered = [(e.term, e) for e in pa.events if e.kind == "yield"]
        if pa.outcome == "return" and pa.value is not None and pa.value[0] in ("list", "tuple"):
            # the seeds handed back as a list instead of being yielded one by one
            last = pa.events[-1] if pa.events else None
            offered += [(x, last) for x in pa.value[1]]
        if pa.outcome == "return" and pa.value is not None and pa.value[0] == "comp" and len(pa.value[3]) == 1 \
                and pa.value[2][0] == "bv" and pa.value[3][0][0][0] in ("tuple", "list"):
            # [c for c in (forward, reverse) if <has peaks>(c)]: each element is offered under its own condition
            last = pa.events[-1] if pa.events else None
            offered += [(x, last) for x in pa.value[3][0][0][1]]
        for term, e in offered:
            if not (term[0] == "app" and term[1].endswith("getInitialAlignment")) and term[0] not in ("c",):
                unread.append(term)
            if term[0] == "app" and term[1].endswith("getInitialAlignment"):
                a = dict(term[3])
                strand = a.pop("reverseStrand", C(False))
                calls[strand] = (term[2], a, e, term)
                strands_here.add(strand)
        if strands_here == {C(False), C(True)}:
            together = True
    if not together and unread:
        raise AnalysisError(f"{pc.where}: a seed offered by the generator is not read as a getInitialAlignment(...) result: {T.show(unread[0])[:160]}")
    ck.judge(together, "C11.4", short(pc) + ":independent-strands", pc.where,
             "the two strands are offered independently of each other (there is a path on which both are seeds)",
             found="no path yields both strands" if not together else None)
    strand_decisions(ck, pc, calls)
    ok = set(calls) == {C(False), C(True)}
    ck.judge(ok, "C11.4", short(pc) + ":both-strands", pc.where, "forward and reverse correlations are both computed and offered as seeds",
             found=str([T.show(k) for k in calls]), required="reverseStrand False and True")
    if ok:
        (r0, a0, e0, _t0), (r1, a1, e1, _t1) = calls[C(False)], calls[C(True)]
        ck.judge(r0 == r1 and a0 == a1, "C11.4", short(pc) + ":same-arguments", where(pc, e1.node),
                 "the reverse call differs from the forward call only in the strand flag",
                 found="; ".join(f"{k}: {T.show(a0.get(k, C(None)))} vs {T.show(a1.get(k, C(None)))}" for k in set(a0) | set(a1)
                                 if a0.get(k) != a1.get(k)) or "identical")
    # refine carries the strand
    rf = p.find_method("InitialAlignment", "refine")
    for pa in explore(ck, rf, unroll=(0, 1)):
        if pa.outcome == "return" and pa.value[0] == "app" and pa.value[1].endswith("CorrelationResult.create"):
            a = dict(pa.value[3])
            ck.judge(a.get("reverseStrand") == self_attr("reverseStrand"), "C11.4", short(rf) + ":flag", where(rf, pa.node),
                     "refinement keeps the strand of the primary correlation", found=T.show(a.get("reverseStrand", C(None))))
            ck.judge(a.get("query") == self_attr("query") and a.get("reference") == self_attr("reference"), "C11.4", short(rf) + ":maps",
                     where(rf, pa.node), "refinement keeps query and reference", found=T.show(a.get("query", C(None))))
        qv = rv = None
        for t, facts, node, kind in path_terms(pa):
            for x in T.subterms(t):
                if x[0] == "app" and x[1].endswith("OpticalMap.getSequence"):
                    a = dict(x[3])
                    if x[2] == self_attr("query"):
                        qv = (a, node)
                    elif x[2] == self_attr("reference"):
                        rv = (a, node)
        if qv and rv:
            ck.judge(qv[0].get("reverseStrand") == self_attr("reverseStrand"), "C11.4", short(rf) + ":query-vector", where(rf, qv[1]),
                     "secondary query vector follows the strand", found=T.show(qv[0].get("reverseStrand", C(None))))
            windowed2 = [k for k in ("start", "end") if k in qv[0] and qv[0][k] not in (C(0), C(None), T.NONE)]
            ck.judge(not windowed2, "C11.22", short(rf) + ":query-vector:whole", where(rf, qv[1]),
                     "the query is vectorised without a window in the refinement as well", found=str(sorted(qv[0])), required="no start / end")
            ck.judge(rv[0].get("reverseStrand", C(False)) == C(False), "C11.4", short(rf) + ":reference-vector", where(rf, rv[1]),
                     "secondary reference vector is never reversed", found=T.show(rv[0].get("reverseStrand", C(False))))
            break
    # worker -> aligner -> engine / row
    ar = private_anchor(ck.ctx, "_WorkflowCoordinator", "__getAlignmentRow", "_WorkflowCoordinator.execute", calls=("align",))
    for pa in explore(ck, ar):
        if pa.outcome != "return":
            continue
        for x in T.subterms(pa.value):
            if x[0] == "app" and x[1].endswith("Aligner.align"):
                a = dict(x[3])
                sc = a.get("reference")[1] if a.get("reference") and a["reference"][0] == "attr" else None
                ok = sc is not None and a.get("isReverse") == T.mk_attr(sc, "reverseStrand") and a.get("query") == T.mk_attr(sc, "query") \
                    and a.get("peaks") == T.mk_attr(sc, "peaks")
                ck.judge(bool(ok), "C11.4", short(ar) + ":strand", where(ar, pa.node),
                         "pairing uses the strand, maps and peaks of the same refined correlation", found=T.show(x)[:200])
                break
    al = p.find_method("Aligner", "align")
    for pa in explore(ck, al, unroll=(0, 1)):
        if pa.outcome == "return" and pa.value[0] == "app":
            a = dict(pa.value[3])
            ck.judge(a.get("reverseStrand") == V("isReverse"), "C11.4", short(al) + ":row-strand", where(al, pa.node),
                     "the result row records the strand the pairs were made on", found=T.show(a.get("reverseStrand", C(None))))
            segs = [x for x in T.subterms(pa.value) if x[0] == "app" and x[1].endswith("Aligner.getSegments")]
            if segs:
                ck.judge(dict(segs[0][3]).get("isReverse") == V("isReverse"), "C11.4", short(al) + ":segments-strand", where(al, pa.node),
                         "segments are built on the same strand", found=T.show(dict(segs[0][3]).get("isReverse", C(None))))
            break

"""C18 - XMAP written by COMA reads back to the same alignments (format agreement, R-TABLE).

  C18.1  column tables (shared with C02.1) and entry-id index (C02.2)
  C18.2  framing: field separator of to_csv == separator of the header join == reader delimiter; every non-data
         line starts with the reader's comment character; the header line starts with the reader's
         headersLinePrefix; rows are written without a pandas header
  C18.3  Alignment-string grammar: writer template "(" ref "," qry ")"  <->  reader strip/split literals and
         (reference, query) unpack order, for both pair parsers
  C18.4  zero-record file: the reader guards the empty frame (shared with C07.G2)
  C18.7  the record parser converts ids, coordinates and lengths by plain truncation: int(<column value>) (through
         float() or math.trunc at most), never round()/ceil()/+0.5; confidence, orientation and HitEnum are passed on as read
  C18.8  every read parses the file it is given (no remembered table: readFile returns read_csv(file, ...) on every path)
  C18.9  the XMAP reader that COMA wires up looks pair coordinates up in the maps that were aligned: the pair parser
         receives Program.referenceMaps / Program.queryMaps (the trimmed queries), not an earlier version of them
Declined: value round-trip as a whole (two decimals of the confidence, coordinate lookup values).
"""
from __future__ import annotations

import ast

from ..loader import AnalysisError
from .. import terms as T
from ..terms import C, V
from ..rules.common import explore, where, short, find_terms, path_terms
from ..rules.guard import guarded_subterms
from ..rules.xmap import extract_writer, extract_reader
from ..rules import role as R
from .c02 import column_table, entry_id


INT_FIELDS = 8     # query id, reference id, 4 coordinates, 2 lengths


def truncation(ck):
    p = ck.ctx.p
    fn = p.find_method("BionanoAlignment", "parse")
    params = {pp.name for pp in fn.call_params()}
    rets = [pa for pa in explore(ck, fn, inline=2) if pa.outcome == "return"]
    if len(rets) != 1 or rets[0].value[0] != "new":
        raise AnalysisError(f"{fn.where}: BionanoAlignment.parse is expected to return one BionanoAlignment(...)")
    w = where(fn, rets[0].node)
    n = 0
    for field, t in rets[0].value[2]:
        leaf = [x for x in T.subterms(t) if x[0] == "v" and x[1] in params]
        if t[0] == "v":
            continue                      # passed on as read
        names = {x[1] for x in T.subterms(t) if x[0] == "call"} | {x[2] for x in T.subterms(t) if x[0] == "mcall"}
        inner = t
        steps = []
        while inner[0] == "call" and len(inner[2]) == 1 and not inner[3]:
            steps.append(inner[1])
            inner = inner[2][0]
        rounding = names & {"round", "ceil", "floor", "rint", "around"} or any(x[0] == "poly" for x in T.subterms(t))
        plain = inner[0] == "v" and steps and steps[0] in ("int", "trunc", "math.trunc") and set(steps[1:]) <= {"float"}
        if plain:
            n += 1
            ck.ok("C18.7", f"BionanoAlignment.parse:{field}", w, "converted by truncation", T.show(t)[:80])
        elif rounding:
            n += 1
            ck.violation("C18.7", f"BionanoAlignment.parse:{field}", w, "the value read back is rounded or shifted, not truncated: a "
                         "written coordinate x.6 comes back as x+1", found=T.show(t)[:120], required=f"int({leaf[0][1] if leaf else field})")
        elif len({x[1] for x in leaf}) > 1 and names & {"sorted", "min", "max", "sort"}:
            n += 1
            ck.violation("C18.7", f"BionanoAlignment.parse:{field}", w,
                         f"the value read back for `{field}` is chosen among {sorted({x[1] for x in leaf})} by size: COMA writes "
                         "QryStartPos > QryEndPos for '-' records (and start > end is how the strand shows), so every such record reads "
                         "back with the two values exchanged", found=T.show(t)[:120], required=f"int(<the column of {field}>)")
        else:
            raise AnalysisError(f"{w}: conversion of field {field} not recognised: {T.show(t)[:160]}")
    ck.floor("C18.7 integer fields converted in BionanoAlignment.parse", n, INT_FIELDS)


def parser_maps(ck):
    from ..rules.common import self_attr
    p = ck.ctx.p
    ck.clause("C18.9", "the wired-up reader's pair parser holds the maps that are aligned (trimmed queries)")
    init = p.get_function("src.program:Program.__init__")
    own = lambda callee: callee.cls is init.cls and callee is not init
    n = 0
    for pa in explore(ck, init, follow=own, unroll=(0, 1)):
        if pa.outcome not in ("fall", "return"):
            continue
        heap = pa.state.heap
        q_final, r_final = heap.get(self_attr("queryMaps")), heap.get(self_attr("referenceMaps"))
        for e in pa.events:
            if e.kind != "setattr":
                continue
            for x in T.subterms(e.term):
                if x[0] == "new" and "AlignmentPairWithDistanceParser" in x[1] or (x[0] == "new" and x[1].endswith("AlignmentPairParser")):
                    a = dict(x[2])
                    if "queries" not in a and "queryMaps" not in a and len(a) < 2:
                        continue
                    n += 1
                    vals = list(a.values())
                    w = where(init, e.node)
                    ck.judge(q_final is not None and q_final in vals, "C18.9", "Program.__init__:parser-queries", w,
                             "the pair parser is given the query maps that are aligned and stored in Program.queryMaps (after trimming)",
                             found="; ".join(T.show(v)[:100] for v in vals), required=T.show(q_final)[:160] if q_final else "self.queryMaps")
                    ck.judge(r_final is not None and r_final in vals, "C18.9", "Program.__init__:parser-references", w,
                             "the pair parser is given the reference maps that are aligned", found="; ".join(T.show(v)[:100] for v in vals),
                             required=T.show(r_final)[:160] if r_final else "self.referenceMaps")
        break
    ck.floor("C18.9 pair parser constructions in Program.__init__", n, 1)


def pair_parsers(ck):
    """C18.11 / C18.12: what the two XMAP pair parsers hand back for the Alignment column"""
    p = ck.ctx.p
    ck.clause("C18.11", "the map-aware pair parser returns the maps' own label positions: <map>.positions[siteId - 1], unconverted")
    ck.clause("C18.12", "label pairs come back in the order the file lists them, on both strands (COMA writes them in reference "
                        "order whatever the orientation)")
    aware = p.find_method("XmapAlignmentPairWithDistanceParser", "parse")
    fns = [aware] + [c for c in aware.children if not c.is_lambda]
    seen = {}
    for f in fns:
        for pa in explore(ck, f, unroll=(0, 1)):
            for t, facts, node, kind in path_terms(pa):
                for x in T.subterms(t):
                    if x[0] == "new" and x[1].endswith(":BenchmarkAlignmentPosition"):
                        seen.setdefault(x, (f, node))
    ck.floor("C18.11 BenchmarkAlignmentPosition constructions in the map-aware parser", len(seen), 2)
    for x, (f, node) in seen.items():
        a = dict(x[2])
        site, pos = a.get("siteId"), a.get("position")
        base_ok = pos is not None and pos[0] == "idx" and pos[1][0] == "attr" and pos[1][2] == "positions"
        if pos is not None and pos[0] == "idx" and pos[1][0] == "v" and f is not aware:
            # a free variable of the nested function that the enclosing parse() binds once to <map>.positions (hoisted attribute)
            binds = [n0.value for n0 in ast.walk(aware.node) if isinstance(n0, ast.Assign) and len(n0.targets) == 1 and
                     isinstance(n0.targets[0], ast.Name) and n0.targets[0].id == pos[1][1]]
            base_ok = len(binds) == 1 and isinstance(binds[0], ast.Attribute) and binds[0].attr == "positions"
        ok = base_ok and site is not None and pos[2] == T.p_sub(site, C(1))
        converted = pos is not None and pos[0] == "call" and pos[1] in ("int", "round", "float", "math.floor", "math.ceil", "math.trunc")
        ck.judge(ok, "C18.11", short(f) + ":position", where(f, node),
                 "the coordinate of a listed label is the map's position of that label number" +
                 (" - not a rounded or truncated copy of it (label positions of real CMAPs are decimals)" if converted else ""),
                 found=T.show(pos)[:140] if pos is not None else "None", required="<map>.positions[siteId - 1]")
    plain = p.find_method("XmapAlignmentPairParser", "parse")
    n = 0
    bad = False
    for f in [plain, aware]:
        for pa in explore(ck, f, unroll=(0, 1)):
            if pa.outcome != "return":
                continue
            n += 1
            strand = [c for c, tv, _ in pa.state.assumptions if any(y == V("reverseStrand") for y in T.subterms(c))]
            rev = [y for y in T.subterms(pa.value) if (y[0] == "slice" and y[4] == C(-1)) or (y[0] == "call" and y[1] == "reversed")]
            if strand and rev:
                bad = True
                ck.violation("C18.12", short(f) + ":order", where(f, pa.node), "the pairs of a reverse-strand record are handed back in "
                             "reversed order: the file lists them in reference order on both strands, so alignedPairs[0] of a '-' "
                             "record read back is the last pair that was written", found=T.show(pa.value)[:160],
                             required="the pairs in file order, whatever the strand")
    # label numbers come back as written: the factory of the plain parser and the map-aware parser convert the token with int() only
    ck.clause("C18.16", "a label number read back is int(<token of the Alignment string>): no offset is added (XMAP label numbers are "
                        "1-based as written)")
    n_site = 0
    create = p.find_method("BenchmarkAlignedPair", "create")
    for f in [create] + fns:
        for pa in explore(ck, f, unroll=(0, 1)):
            for t, facts, node, kind in path_terms(pa):
                for x in T.subterms(t):
                    if x[0] == "new" and x[1].endswith(":BenchmarkAlignmentPosition"):
                        site = dict(x[2]).get("siteId")
                        if site is None:
                            continue
                        n_site += 1
                        if site[0] == "poly":
                            items = dict(T.to_poly(site))
                            const = items.get((), 0)
                            if const != 0 and len(items) == 2:
                                ck.violation("C18.16", short(f) + ":label-number", where(f, node),
                                             f"the label number read back is the written number {const:+d}: every pair of every record "
                                             "names another label than the one that was written", found=T.show(site)[:100],
                                             required="int(<token>)")
    ck.floor("C18.16 label numbers constructed by the pair parsers", n_site, 4)
    if not any(o.rule == "C18.16" and o.status == "VIOLATION" for o in ck.obligations):
        ck.ok("C18.16", "XMAP pair parsers:label-numbers", plain.where, f"{n_site} constructions: none offsets the label number")
    ck.floor("C18.12 return paths of the XMAP pair parsers", n, 2)
    if not bad:
        ck.ok("C18.12", "XMAP pair parsers", plain.where, f"{n} return paths: none re-orders the pairs by strand")


def main_output_always_written(ck, rule):
    """A run that ends normally has written its XMAP: every path through Program.run passes the writer with the output file.
    A file that argparse opened and nobody wrote has no '#h' line - the project's reader fails on it instead of returning []."""
    p = ck.ctx.p
    ck.clause(rule, "every normal end of Program.run has passed XmapReader.writeAlignments(<the output file>, ...): a run without "
                    "records still writes the header lines (an empty file has no '#h' line and cannot be read back)")
    run_fn = p.get_function("src.program:Program.run")
    n = 0
    for pa in explore(ck, run_fn, unroll=(0, 1)):
        if pa.outcome not in ("return", "fall"):
            continue
        n += 1
        wrote = [e for e in pa.events if e.kind == "call" and e.term[0] == "app" and e.term[1].endswith("XmapReader.writeAlignments")]
        if wrote:
            continue
        conds = "; ".join(("" if tv else "not ") + T.show(c)[:60] for c, tv, _ in pa.state.assumptions[-3:])
        ck.violation(rule, short(run_fn) + ":always-written", where(run_fn, pa.node),
                     "a run can end without writing its output file: the file argparse created stays empty (no header line), and "
                     "reading it back fails instead of giving no alignments",
                     found="path under: " + (conds or "<no condition>"), required="writeAlignments(self.args.outputFile, ...) on every path")
        return
    ck.floor(f"{rule} normal ends of Program.run", n, 1)
    ck.ok(rule, short(run_fn) + ":always-written", run_fn.where, f"{n} path(s) through Program.run, each writes the output file", "")


def run(ck):
    ck.clause("C18.1", "writer header / record / reader column tables agree (as C02.1, C02.2)")
    ck.clause("C18.2", "framing: separators, comment prefix, header prefix, header=False")
    ck.clause("C18.3", "Alignment string: writer template and reader split literals / unpack order agree")
    ck.clause("C18.4", "reader returns [] for a zero-record file")
    ck.clause("C18.5", "without id filters every record is parsed, in file order (no row is dropped, merged or re-ordered)")
    ck.clause("C18.6", "pair coordinates are looked up in the map whose id matches the record (as C10.2)")
    ck.clause("C18.7", "ids, coordinates and lengths are converted by plain int() truncation when a record is parsed")
    ctx = ck.ctx
    p = ctx.p
    ck.clause("C18.13", "what a read returns is what that file holds: the XMAP reader chain keeps nothing from one read to the next "
                        "(no class-level / module-level write, no mutable default changed in place; as C10.1)")
    from ..report import RuleView as _RV18
    from . import c10 as _c10
    rd_fns = [f for f in p.nontest_functions() if f.module.name in ("src.parsers.xmap_reader", "src.parsers.bionano_file_reader",
                                                                      "src.parsers.xmap_alignment_pair_parser",
                                                                      "src.correlation.bionano_alignment")]
    _c10.module_state(_RV18(ck, {"C10.1": "C18.13"}), fns=rd_fns, floor=15)
    ck.ok("C18.13", "xmap-reader-chain:state", "src/parsers/xmap_reader.py", f"{len(rd_fns)} functions scanned", "")
    truncation(ck)
    ck.clause("C18.10", "the XMAP columns are read at pandas' default precision: no narrow dtype anywhere in the XMAP reader chain "
                        "(a float32 moves coordinates above 16.7 Mb by one or two base pairs before int() truncates them)")
    from .c17 import no_narrowing
    no_narrowing(ck, "C18.10", modules=("src.parsers.xmap_reader", "src.parsers.bionano_file_reader",
                                        "src.parsers.xmap_alignment_pair_parser", "src.correlation.bionano_alignment"), floor=15)
    parser_maps(ck)
    pair_parsers(ck)
    ck.clause("C18.18", "standard output carries the XMAP and nothing else (without -o the file *is* stdout): no print / sys.stdout.write "
                        "on the run path outside the writer - a status line lands among the records, and the reader takes every "
                        "non-comment line for a record")
    from ..rules.common import run_reach as _rr18
    from ..rules import effects as _E18
    n_rp = 0
    for f0 in _rr18(ck.ctx):
        if f0.is_lambda or f0.module.is_test or not f0.module.name.startswith("src.") or f0.module.name.startswith(("src.diagnostic", "src.plot")):
            continue
        n_rp += 1
        for c0 in _E18.iter_calls(f0):
            txt = ast.unparse(c0.func)
            to_stdout = False
            if isinstance(c0.func, ast.Name) and c0.func.id == "print":
                fkw = [k for k in c0.keywords if k.arg == "file"]
                to_stdout = not fkw or ast.unparse(fkw[0].value) in ("sys.stdout", "stdout")
            elif txt in ("sys.stdout.write", "sys.stdout.writelines", "stdout.write"):
                to_stdout = True
            if to_stdout:
                ck.violation("C18.18", short(f0) + ":stdout", where(f0, c0),
                             "a line is written to standard output on the run path: when -o is omitted it becomes part of the XMAP - a "
                             "line without a leading '#' is read back as one more (all-NaN) record and the reader fails",
                             found=ast.unparse(c0)[:120], required="status messages to stderr (or as '#' comment lines through the writer)")
    ck.floor("C18.18 functions scanned on the run path", n_rp, 100)
    from . import c08 as _c08
    ck.clause("C18.17", "every file COMA writes has a name of its own (as C08.2's naming rule): an additional file opened under the main "
                        "file's path leaves one file with the remains of two - unreadable")
    _c08._file_naming(ck, rule="C18.17")
    ck.clause("C18.15", "a joined record lists the pairs of its two resolved segments (as C08.6): a record that lost its pairs is written "
                        "with an empty Alignment cell, which no pair parser can read back")
    _c08._joined_row(_RV18(ck, {"C08.6": "C18.15"}))
    main_output_always_written(ck, "C18.14")
    w = extract_writer(ck)
    r = extract_reader(ck)
    column_table(ck, w, r, "C18.1")
    entry_id(ck, w, "C18.1")

    # ------------------------------------------------------------------ C18.2 framing
    file_reader = p.find_method("BionanoFileReader", "readFile")
    rp_all = [pa for pa in explore(ck, file_reader) if pa.outcome == "return"]
    ck.clause("C18.8", "every read parses the file it is given: readFile returns pandas.read_csv(file, ...) on every path")
    rp = []
    file_param = V(file_reader.call_params()[0].name)
    for pa in rp_all:
        calls = [x for x in T.subterms(pa.value) if x[0] == "call" and x[1].endswith("read_csv")]
        if calls and calls[0][2] and calls[0][2][0] == file_param:
            rp.append(pa)
        else:
            ck.violation("C18.8", "BionanoFileReader.readFile:remembered-table", where(file_reader, pa.node),
                         "a path of readFile returns something other than the parse of the file it was given (a remembered table): "
                         "a file that COMA has rewritten since is read back as its earlier content",
                         found=f"return {T.show(pa.value)[:140]}", required="pandas.read_csv(file, ...)")
    if not rp:
        raise AnalysisError(f"{file_reader.where}: no path of readFile returns pandas.read_csv(file, ...)")
    if len(rp) == len(rp_all):
        ck.ok("C18.8", "BionanoFileReader.readFile", file_reader.where, f"{len(rp)} return path(s), each the parse of the given file")
    rc = None
    for x in T.subterms(rp[0].value):
        if x[0] == "call" and x[1].endswith("read_csv"):
            rc = x
    if rc is None:
        raise AnalysisError(f"{file_reader.where}: pandas.read_csv call not found")
    rkw = dict(rc[3])
    delim = rkw.get("delimiter", rkw.get("sep"))
    comment = rkw.get("comment")
    if delim is None or delim[0] != "c" or comment is None or comment[0] != "c":
        raise AnalysisError(f"{file_reader.where}: literal delimiter / comment arguments of read_csv not found")
    init = p.find_method("BionanoFileReader", "__init__")
    prefix = None
    for prm in init.call_params():
        if prm.name == "headersLinePrefix" and isinstance(prm.default, ast.Constant):
            prefix = prm.default.value
    # XmapReader constructs its BionanoFileReader with the default prefix?
    xr_init = p.find_method("XmapReader", "__init__")
    for pa in explore(ck, xr_init):
        for e in pa.events:
            if e.kind == "setattr" and e.term[0] == "new" and e.term[1].endswith("BionanoFileReader"):
                a = dict(e.term[2])
                if "headersLinePrefix" in a and a["headersLinePrefix"][0] == "c":
                    prefix = a["headersLinePrefix"][1]
    if prefix is None:
        raise AnalysisError("reader's header line prefix not found")
    wf = where(w.fn, w.frame_node)
    wl = where(w.fn, w.lines_node)
    sep = w.to_csv_kwargs.get("sep", C(","))
    ck.judge(sep == delim, "C18.2", "writeAlignments:to_csv-sep", wf, "data rows are separated by the reader's delimiter",
             found=T.show(sep), required=T.show(delim))
    ck.judge(w.names_joiner == delim[1], "C18.2", "writeAlignments:header-join", wl,
             "header names are joined with the reader's delimiter", found=repr(w.names_joiner), required=repr(delim[1]))
    header = w.to_csv_kwargs.get("header", C(True))
    ck.judge(header == C(False), "C18.2", "writeAlignments:no-pandas-header", wf,
             "rows are written without a pandas header line (the #h line is the header)", found=T.show(header),
             required="False")
    ck.judge(w.header_names[0].startswith(prefix), "C18.2", "writeAlignments:header-prefix", wl,
             "the header line starts with the reader's headersLinePrefix", found=repr(w.header_names[0]), required=repr(prefix))
    # the index column must be written, it is the XmapEntryID column
    index_kw = w.to_csv_kwargs.get("index", C(True))
    ck.judge(index_kw == C(True), "C18.2", "writeAlignments:index-written", wf,
             "the frame index (XmapEntryID) is written as the first column", found=T.show(index_kw), required="True")
    # every literal line starts with the comment character (or with the header prefix)
    n_lines = 0
    for line in w.literal_lines:
        n_lines += 1
        first = _leading_literal(line)
        if first is None:
            raise AnalysisError(f"{wl}: cannot determine how written line #{n_lines} starts: {T.show(line)[:100]}")
        ck.judge(first.startswith(comment[1]), "C18.2", f"writeAlignments:line#{n_lines}", wl,
                 "non-data line starts with the reader's comment character", found=repr(first[:30]),
                 required=f"starts with {comment[1]!r}")
    ck.floor("C18.2 literal header lines", n_lines, 5)

    # ------------------------------------------------------------------ C18.3 alignment grammar
    av = w.record_values.get("Alignment")
    if av is None:
        raise AnalysisError(f"{wf}: Alignment column not found in the record")
    fs = [x for x in T.subterms(av) if x[0] == "fstr"]
    if not fs:
        raise AnalysisError(f"{wf}: Alignment template is not an f-string: {T.show(av)[:200]}")
    parts = fs[0][1]
    lits = [x[1] for x in parts if x[0] == "c"]
    slots = [x[1] for x in parts if x[0] == "fmt"]
    if len(lits) != 3 or len(slots) != 2 or [x[0] for x in parts] != ["c", "fmt", "c", "fmt", "c"]:
        raise AnalysisError(f"{wf}: Alignment template shape not recognised: {T.show(fs[0])}")
    w_open, w_sep, w_close = lits

    def side_of(t):
        names = [x[2] for x in T.subterms(t) if x[0] == "attr"]
        if "reference" in names and "query" not in names:
            return "reference"
        if "query" in names and "reference" not in names:
            return "query"
        return None
    w_order = [side_of(s) for s in slots]
    ck.judge(w_order == ["reference", "query"] and all("siteId" in [x[2] for x in T.subterms(s) if x[0] == "attr"] for s in slots),
             "C18.3", "writeAlignments:pair-order", wf, "pairs are written as (reference label, query label)",
             found=str(w_order), required="['reference', 'query']")
    base = p.find_class("BaseXmapAlignmentPairParser")
    parsers = [c for c in p.all_subclasses(base) if not c.module.is_test]
    ck.floor("C18.3 pair parser implementations", len(parsers), 2)
    for cls in parsers:
        m = cls.methods.get("parse")
        if m is None:
            continue
        terms = []
        fns = [m] + [c for c in m.children if not c.is_lambda]
        for f in fns:
            for pa in explore(ck, f, unroll=(0, 1)):
                for t, facts, node, kind in path_terms(pa):
                    terms.append((t, f, node))
        replaces = set()
        splits = []
        for t, f, node in terms:
            for x in T.subterms(t):
                if x[0] == "mcall" and x[2] == "replace" and len(x[3]) == 2 and x[3][0][0] == "c" and x[3][1] == C(""):
                    replaces.add(x[3][0][1])
                if x[0] == "mcall" and x[2] == "split" and len(x[3]) == 1 and x[3][0][0] == "c":
                    if x[3][0][1] not in splits:
                        splits.append(x[3][0][1])
                if x[0] == "mcall" and x[2] == "strip" and x[3] and x[3][0][0] == "c":
                    for ch in x[3][0][1]:
                        replaces.add(ch)
        construct = f"{cls.name}.parse"
        wh = m.where
        if not splits:
            raise AnalysisError(f"{wh}: split literals of the Alignment string not found")
        ck.judge(w_open in replaces or w_open in splits, "C18.3", construct + ":open", wh,
                 "reader removes the writer's opening literal", found=f"removed {sorted(replaces)}, split on {splits}",
                 required=repr(w_open))
        ck.judge(w_close in splits or w_close in replaces, "C18.3", construct + ":close", wh,
                 "reader splits pairs on the writer's closing literal", found=f"split on {splits}", required=repr(w_close))
        ck.judge(w_sep in splits, "C18.3", construct + ":separator", wh,
                 "reader splits a pair on the writer's separator", found=f"split on {splits}", required=repr(w_sep))
        # unpack order
        order = _unpack_order(ck, m, w_sep)
        ck.judge(order == ["reference", "query"], "C18.3", construct + ":order", wh,
                 "reader takes the first number as the reference label and the second as the query label",
                 found=str(order), required="['reference', 'query']")

    # ------------------------------------------------------------------ C18.4 zero-record
    ra = r.fn
    ok = True
    detail = "no apply(...).tolist() chain"
    for pa in explore(ck, ra, unroll=(0, 1)):
        for t, facts, node, kind in path_terms(pa):
            for st, f2 in guarded_subterms(t, facts):
                if st[0] == "mcall" and st[2] == "tolist":
                    chain = []
                    cur = st[1]
                    while True:
                        chain.append(cur)
                        if cur[0] in ("mcall", "idx", "slice", "attr"):
                            cur = cur[1]
                        else:
                            break
                    if any(c[0] == "mcall" and c[2] == "apply" for c in chain):
                        g = any(f2.get(T.mk_attr(c, "empty")) is False for c in chain) or any(f2.get(c) is True for c in chain) or \
                            any(T.specialize(T.as_bool(T.mk_attr(c, "empty")), f2, boolpos=True) == C(False) for c in chain)
                        detail = "apply(...).tolist() guarded by .empty" if g else "apply(...).tolist() unguarded"
                        ok = ok and g
    ck.judge(ok, "C18.4", short(ra), ra.where, "a zero-record XMAP is read back as an empty list", found=detail,
             required=".empty guard dominating apply(...).tolist()")
    all_records_parsed(ck, "C18.5")
    from .c10 import pair_parser_lookups
    pair_parser_lookups(ck, "C18.6")


def all_records_parsed(ck, rule="C18.5"):
    ctx = ck.ctx
    ra = ctx.p.find_method("XmapReader", "readAlignments")
    prm = [pp.name for pp in ra.call_params()]
    facts = {}
    for name in prm[1:]:
        T.add_fact(facts, V(name), False)
    n = 0
    for pa in explore(ck, ra, facts=facts, unroll=(0, 1)):
        if pa.outcome != "return":
            continue
        for x in T.subterms(pa.value):
            if x[0] == "mcall" and x[2] == "apply":
                n += 1
                frame = T.specialize(x[1], dict(pa.facts))      # a filter written as `frame[...] if ids else frame`: no ids here
                ok = frame[0] == "app" and frame[1].endswith("BionanoFileReader.readFile")
                if ok:
                    ck.ok(rule, short(ra) + ":all-rows", where(ra, pa.node), "with no id filter the parsed frame is exactly what was read")
                else:
                    ops = [y[2] for y in T.subterms(frame) if y[0] == "mcall"]
                    ck.violation(rule, short(ra) + ":all-rows", where(ra, pa.node),
                                 "rows are dropped, merged or re-ordered between reading and parsing although no id filter was given: the "
                                 "reader no longer returns one alignment per record in file order", found=f"{' -> '.join(reversed(ops))}: "
                                 + T.show(frame)[-200:], required="readFile(...) result parsed row by row")
        # the no-filter path must not filter
    if n == 0:
        # no apply-chain: accept comprehension over iterrows / itertuples of the frame that was read
        for pa in explore(ck, ra, facts=facts, unroll=(0, 1)):
            if pa.outcome == "return" and pa.value[0] == "comp":
                it = pa.value[3][0][0]
                src = [y for y in T.subterms(it) if y[0] == "app" and y[1].endswith("BionanoFileReader.readFile")]
                drops = [y[2] for y in T.subterms(it) if y[0] == "mcall" and y[2] not in ("iterrows", "itertuples")]
                n += 1
                ck.judge(bool(src) and not drops and not pa.value[3][0][1], rule, short(ra) + ":all-rows", where(ra, pa.node),
                         "with no id filter every row that was read is parsed", found=T.show(it)[:200])
    ck.floor(f"{rule} unfiltered return paths of readAlignments", n, 1)


def _leading_literal(line):
    tag = line[0]
    if tag == "c" and isinstance(line[1], str):
        return line[1]
    if tag in ("fstr", "concat") and line[1]:
        return _leading_literal(line[1][0])
    if tag == "mcall" and line[2] == "join" and line[3]:
        # join over the keys/values of the header mapping: first key / first value
        for x in T.subterms(line[3][0]):
            if x[0] == "mcall" and x[2] in ("keys", "values") and x[1][0] == "dict" and x[1][1]:
                k, v = x[1][1][0]
                first = k if x[2] == "keys" else v
                return first[1] if first and first[0] == "c" else None
            if x[0] == "dict" and x[1]:
                k, v = x[1][0]
                return k[1] if k and k[0] == "c" else None
    return None


def _unpack_order(ck, m, sep):
    """roles of the first and second component of pair.split(sep) in a pair parser"""
    p = ck.ctx.p
    # idiom 1: tuple assignment  a, b = map(..., pair.split(sep)) / pair.split(sep)
    fns = [m] + list(m.children)
    # ... and the helpers of the same module the parser hands the pair to (one or two calls deep)
    for _ in range(2):
        for f in list(fns):
            for site in ck.ctx.cg.sites.get(f.qualname, []):
                for c in site.repo_callees():
                    g = getattr(c, "fn", None)
                    if g is not None and g.module is m.module and g not in fns and c.kind == "fn":
                        fns.append(g)
                        fns.extend(k for k in g.children if k not in fns)
    for f in fns:
        for n in ast.walk(f.node):
            if isinstance(n, ast.Assign) and isinstance(n.targets[0], ast.Tuple) and len(n.targets[0].elts) == 2 \
                    and "split" in ast.unparse(n.value) and all(isinstance(e, ast.Name) for e in n.targets[0].elts):
                out = []
                for e in n.targets[0].elts:
                    roles = R.roles_of_tokens(R.tokens(e.id)).get("query/reference")
                    out.append({0: "query", 1: "reference"}.get(roles))
                return out
    # idiom 2: Callee(*pair.split(sep)) -> parameter order of the callee
    for f in fns:
        for site in ck.ctx.cg.sites.get(f.qualname, []):
            if any(isinstance(a, ast.Starred) and "split" in ast.unparse(a) for a in site.node.args):
                cs = site.repo_callees()
                if cs:
                    params = cs[0].params(p) or []
                    out = []
                    for prm in params[:2]:
                        roles = R.roles_of_tokens(R.tokens(prm.name)).get("query/reference")
                        out.append({0: "query", 1: "reference"}.get(roles))
                    return out
    # idiom 3: itertools.starmap(Callee, (pair.split(sep) for pair in ...)) -> parameter order of the callee
    for f in fns:
        for n in ast.walk(f.node):
            if isinstance(n, ast.Call) and ast.unparse(n.func).endswith("starmap") and len(n.args) == 2 \
                    and "split" in ast.unparse(n.args[1]):
                probe = ast.Call(func=n.args[0], args=[], keywords=[])
                ast.copy_location(probe, n)
                ast.fix_missing_locations(probe)
                cs = [c for c in ck.ctx.cg.resolve_call(f, probe) if c.kind == "fn"]
                if cs:
                    params = cs[0].params(p) or []
                    out = []
                    for prm in params[:2]:
                        roles = R.roles_of_tokens(R.tokens(prm.name)).get("query/reference")
                        out.append({0: "query", 1: "reference"}.get(roles))
                    return out
    raise AnalysisError(f"{m.where}: how the reader unpacks a '(a,b)' pair is not recognised")

"""C15 - conflict resolution only trims inside the overlap (structural clauses).

  C15.1  only shrinking operations produce segments: every value returned by a resolveConflict implementation is the
         left/right segment itself or `segment - <something>`; `__sub__` and `slice` build their result through
         AlignmentSegment.create from a sub-sequence (filter / dropwhile / takewhile / slice / trailing pops) of
         self.positions - no element construction, no concatenation, same peak and peak positions
  C15.2  pairwise pass over consecutive chain members (as C01.3)
  C15.3  what is removed comes from the conflicting sub-segments only, left from left and right from right; the
         sub-segments are slices of their own segment over [start of the later segment, end of the earlier one]; the
         earlier chain member is the left segment
  C15.5  index tables are per side: the left sub-run is cut at leftCharacteristics.indexes[m], the right one at
         rightCharacteristics.indexes[m] (each table points into its own position list, which also holds unpaired
         positions); both use the same merge index m; the characteristics handed over are (left sub-run, right sub-run)
         through the same label getter
  C15.6  endOverlapsWithStartOf contains the one necessary disjunct: other.start <= self.end on any sequence (the later
         segment starts at or before the earlier one's end); further disjuncts are harmless and only observed
  C15.7  the position comparators the overlap window is built from mean what their names say: for an aligned pair,
         lessOnBothSequences = (query < other.query) and (reference < other.reference), lessOrEqualOnAnySequence = <= on
         the query or on the reference; for an unpaired label the single comparison on its own axis (strict / inclusive);
         the null pair is never less; the unpaired-query and unpaired-reference classes agree under reference<->query
  C15.8  the reference-label and query-label characteristics (labels, carried scores, indexes) that the merge point is
         computed from are the same computation under reference<->query
Declined: "afterwards no two segments share a label or cross" and "pairs outside the overlap are all kept".
"""
from __future__ import annotations

import ast

from ..loader import AnalysisError
from .. import terms as T
from ..terms import C, V
from ..rules.common import explore, where, short, self_attr, path_terms
from .c01 import pairwise_pass

SUBSEQ_CALLS = ("itertools.dropwhile", "itertools.takewhile", "list", "tuple", "filter", "itertools.islice", "iter")


def is_subsequence_of(t, base) -> str:
    """'yes' if t is built from `base` by sub-sequence operators only, 'no' if an element is constructed or lists are
    concatenated, 'unknown' for re-ordering operators or anything else"""
    if t == base:
        return "yes"
    tag = t[0]
    if tag == "call":
        if t[1] in ("itertools.dropwhile", "itertools.takewhile", "filter") and len(t[2]) == 2:
            return is_subsequence_of(t[2][1], base)
        if t[1] in ("list", "tuple", "iter") and len(t[2]) == 1:
            return is_subsequence_of(t[2][0], base)
        if t[1] == "itertools.islice" and t[2]:
            return is_subsequence_of(t[2][0], base)
        if t[1] in ("sorted", "reversed"):
            return "unknown"
        return "no" if t[1] in ("itertools.chain", "map") else "unknown"
    if tag == "slice":
        if t[4] != T.NONE:
            return "unknown"
        return is_subsequence_of(t[1], base)
    if tag == "comp":
        if len(t[3]) != 1:
            return "no"
        it, ifs = t[3][0]
        if t[2][0] != "bv":
            return "no"          # elements are constructed / transformed
        return is_subsequence_of(it, base)
    if tag == "concat":
        return "no"
    if tag in ("list", "tuple"):
        if not t[1]:
            return "yes"
        # a list filled by a loop over `base` (the explorer keeps locally built lists as literals): elements taken from
        # `base` itself in visiting order are a sub-sequence; anything constructed is not
        if all(x[0] == "elem" and x[1] == base for x in t[1]):
            ks = [x[2] for x in t[1]]
            return "yes" if ks == sorted(set(ks)) else "unknown"
        if any(y[0] in ("new",) or (y[0] == "app" and y[1].endswith(".create")) for x in t[1] for y in T.subterms(x)):
            return "no"
        return "unknown"
    return "unknown"


def per_side_cuts(ck, rule, cut_bounds, impls, LS, RS):
    p = ck.ctx.p
    # ---- C15.5 per-side index tables
    ck.floor(f"{rule} interior cuts (slice of a conflicting sub-run)", len(cut_bounds), 2)
    merge_indexes = {}
    for side, other, fn, w in cut_bounds:
        prm = [pp.name for pp in fn.call_params()]
        if len(prm) != 2:
            raise AnalysisError(f"{fn.where}: (left characteristics, right characteristics) parameters expected")
        own_char = V(prm[0] if side == "left" else prm[1])
        lo, hi = other[2], other[3]
        bound = lo if side == "left" else hi
        shape_ok = (hi == T.NONE and lo != T.NONE) if side == "left" else (lo == T.NONE and hi != T.NONE)
        ck.judge(shape_ok, rule, f"{short(fn)}:{side}:direction", w,
                 "the left sub-run loses its tail [i:], the right one its head [:i]", found=T.show(other)[:160])
        if not shape_ok:
            continue
        tables = [x for x in T.subterms(bound) if x[0] == "attr" and x[2] == "indexes"]
        ok = bound[0] == "idx" and bound[1] == T.mk_attr(own_char, "indexes")
        if ok:
            merge_indexes[side] = bound[2]
            ck.ok(rule, f"{short(fn)}:{side}:index-table", w, f"cut index comes from the {side} sub-run's own index table", T.show(bound)[:120])
        elif tables:
            ck.violation(rule, f"{short(fn)}:{side}:index-table", w, f"the {side} sub-run is cut at an index taken from the other "
                         f"sub-run's table: the tables index different position lists (unpaired positions are interleaved "
                         f"differently), so a pair is kept by both segments or lost by both", found=T.show(bound)[:160],
                         required=f"{T.show(own_char)}.indexes[<merge index>]")
        else:
            raise AnalysisError(f"{w}: cut index of the {side} sub-run not recognised: {T.show(bound)[:160]}")
    # the interior cut is taken only when both sub-runs hold the same number of labels (the cumulated score arrays are
    # added element-wise)
    for side, other, fn, w in cut_bounds[:1]:
        prm = [pp.name for pp in fn.call_params()]
        want_eq = T.mk_eq(T.mk_call("len", [T.mk_attr(V(prm[0]), "positions")]), T.mk_call("len", [T.mk_attr(V(prm[1]), "positions")]))
        guarded = False
        for pa in explore(ck, fn, unroll=(0, 1)):
            if pa.outcome == "return" and pa.value[0] == "tuple" and any(
                    x[0] == "slice" for y in pa.value[1] for x in T.subterms(y)):
                pc, pol = T.positive(want_eq)
                tv = pa.facts.get(pc)
                guarded = tv is not None and (tv == pol)
                ck.judge(guarded, rule, f"{short(fn)}:equal-label-counts", where(fn, pa.node),
                         "segments are cut inside the overlap only when both conflicting sub-runs hold the same number of labels",
                         found=pa.describe()[:200], required=T.show(want_eq)[:160])
                break
    if len(merge_indexes) == 2:
        ck.judge(merge_indexes["left"] == merge_indexes["right"], rule, "merge-index:shared", cut_bounds[0][3],
                 "both sub-runs are cut at the same merge index", found=f"{T.show(merge_indexes['left'])[:100]} vs {T.show(merge_indexes['right'])[:100]}")
    # the characteristics are (left sub-run, right sub-run) through one getter
    for cls in impls:
        m = cls.methods["resolveConflict"]
        for pa in explore(ck, m):
            if pa.outcome == "return" and pa.value[0] == "app" and len(pa.value[3]) == 2:
                a = [v for _, v in pa.value[3]]
                # both arguments chosen by one and the same condition (`x.getR() if c else x.getQ()`, twice): the two cases
                cases = [[a[0][2], a[1][2]], [a[0][3], a[1][3]]] if all(x[0] == "select" for x in a) and a[0][1] == a[1][1] else [a]
                ok = all(all(x[0] == "app" and x[2] == sub for x, sub in zip(a_, (LS, RS))) and a_[0][1] == a_[1][1] for a_ in cases)
                ck.judge(bool(ok), rule, f"{short(m)}:characteristics", where(m, pa.node),
                         "characteristics are taken from (left sub-run, right sub-run) with the same label getter",
                         found="; ".join(T.show(x)[:80] for x in a))
                if ok:
                    # which axis: a peak position is the diagonal r - q of its segment; both coordinates ascend along a chain on
                    # both strands (C11.1), so when the left diagonal is the larger one the two runs overlap on the *reference*
                    # axis and must be cut on reference labels, otherwise on query labels - whatever the strand
                    selected = len(cases) == 2
                    for k_case, a_ in enumerate(cases):
                        facts_ = dict(pa.facts)
                        if selected:
                            pc_, pol_ = T.positive(T.as_bool(a[0][1]))
                            facts_[pc_] = pol_ if k_case == 0 else (not pol_)
                        on_reference = "Reference" in a_[0][1].split(".")[-1]
                        want = T.mk_gt(T.mk_attr(T.mk_attr(LS, "peak"), "position"), T.mk_attr(T.mk_attr(RS, "peak"), "position"))
                        tv = T.specialize(T.as_bool(want), facts_, boolpos=True)
                        decided = tv[1] if tv[0] == "c" and isinstance(tv[1], bool) else None
                        strand = [c for c, _, _ in pa.state.assumptions
                                  if any(x[0] == "attr" and x[2] in ("reverse", "reverseStrand") for x in T.subterms(c))]
                        if selected and any(x[0] == "attr" and x[2] in ("reverse", "reverseStrand") for x in T.subterms(a[0][1])):
                            strand = [a[0][1]]
                        axis = "reference" if on_reference else "query"
                        if strand:
                            ck.violation(rule, f"{short(m)}:axis", where(m, pa.node), "the axis on which the overlap is cut depends on the "
                                         "strand: mirrored query coordinates ascend on both strands, the geometry of the overlap does not "
                                         "change with it", found=f"{axis} labels when " + pa.describe()[:200],
                                         required="reference labels iff left peak position > right peak position, on both strands")
                        elif decided is None:
                            raise AnalysisError(f"{where(m, pa.node)}: the test that chooses the cut axis is not a comparison of the two "
                                                f"sub-runs' peak positions: {pa.describe()[:200]}")
                        else:
                            ck.judge(decided == on_reference, rule, f"{short(m)}:axis", where(m, pa.node),
                                     "the overlap is cut on reference labels exactly when the left sub-run's diagonal (peak position) is "
                                     "the larger one - then the runs overlap on the reference axis - and on query labels otherwise",
                                     found=f"{axis} labels when left peak position {'>' if decided else '<='} right peak position",
                                     required="reference labels iff left.peak.position > right.peak.position")



def collect_cuts(ck):
    """(cut_bounds, impls, LS, RS) for per_side_cuts, computed independently of run()"""
    p = ck.ctx.p
    base_pair = p.find_class("_SegmentPair")
    impls = [c for c in [base_pair] + p.all_subclasses(base_pair) if not c.module.is_test and "resolveConflict" in c.methods]
    L, R = self_attr("leftSegment"), self_attr("rightSegment")
    LS, RS = self_attr("leftConflictingSubsegment"), self_attr("rightConflictingSubsegment")
    seg = p.find_class("AlignmentSegment")
    sub_fn = p.lookup_method(seg, "__sub__", None)
    cuts = []

    def walk(fn, depth=3):
        for pa in explore(ck, fn, unroll=(0, 1)):
            if pa.outcome != "return":
                continue
            v = pa.value
            if v[0] == "app" and depth > 0 and (v[2] == V(fn.self_name or "self") or
                                                (v[2] is None and v[1].split(":")[1].startswith(fn.cls.name + "."))):
                walk(p.get_function(v[1]), depth - 1)
            elif v[0] == "tuple" and len(v[1]) == 2:
                for side, x, own_sub in (("left", v[1][0], LS), ("right", v[1][1], RS)):
                    if x[0] == "app" and sub_fn is not None and x[1] == sub_fn.qualname:
                        other = list(dict(x[3]).values())[0]
                        if other[0] == "slice" and other[1] == T.mk_attr(own_sub, "positions") and other[4] == T.NONE:
                            cuts.append((side, other, fn, where(fn, pa.node)))
    for cls in impls:
        m = cls.methods["resolveConflict"]
        if not any("abstractmethod" in d for d in m.decorators):
            walk(m)
    return cuts, impls, LS, RS


def run(ck):
    ctx = ck.ctx
    p = ctx.p
    ck.clause("C15.1", "resolution results are the input segments or `segment - x`; __sub__/slice only take sub-sequences")
    if ck.wants("C15.15"):
        from .c02 import records_frozen as _rf15
        _rf15(ck, "C15.15", content={"alignedPositions", "allPeakPositions"},
              clause="a segment is not altered after it was built: its start / end pair are the first / last element of the list of pairs "
                     "it keeps (alignedPositions) - a plotter that sorts that list in place (it runs inside the worker, on the segments "
                     "that are joined later) exchanges start and end of every reverse-strand segment: the conflict test of the join sees "
                     "no overlap and both segments keep the shared label")
    ck.clause("C15.2", "pairwise pass over consecutive chain members, results written back in place")
    ck.clause("C15.3", "removed positions come from the own conflicting sub-segment; sub-segments are slices over the overlap")
    ck.clause("C15.4", "slice window: drop what lies before `start` on both sequences; only an aligned pair beyond `end` closes the sub-run")
    ck.clause("C15.5", "each sub-run is cut at the index from its own index table, both at the same merge index")
    ck.clause("C15.10", "a segment ends at the first position of its maximum (strict accept test), so it ends on a pair and the "
                        "sub-run slices of conflict resolution are contiguous (as C13.1)")
    from ..report import RuleView as _RV
    from . import c13 as _c13
    _c13.run(_RV(ck, {"C13.1": "C15.10"}, only_constructs=(":accept-test",)))      # the accept test only; the other thresholds are C13's
    ck.clause("C15.13", "a segment's start / end positions are its first / last aligned pair in the order of its positions")
    segment_endpoints(ck, "C15.13")
    ck.clause("C15.12", "only neighbours in the chain can overlap: the chainer gives minus infinity to a join of two segments that overlap "
                        "by more than half of the shorter one, so the single pairwise pass sees every overlap (as C14.2)")
    from . import c14 as _c14
    _c14.join_score(_RV(ck, {"C14.2": "C15.12"}))
    ck.clause("C15.14", "the chainer asks the join score of every predecessor it considers (as C14.4 :candidate / :init): a candidate built "
                        "without the call (a short cut for a zero multiplier) also skips the -inf that keeps overlapping segments apart")
    if ck.wants("C15.14"):
        _c14.dp(_RV(ck, {"C14.4": "C15.14"}, only_constructs=(":candidate", ":init")))
    ck.clause("C15.11", "the type tests that pick a segment's reference / query labels can succeed: the elements of a segment are "
                        "Scored* wrappers, a test against a class no element can be an instance of silently stops counting unpaired labels")
    from ..rules.narrow import findings as _narrow
    _seg_fns = [f for f in p.nontest_functions() if f.module.name == "src.alignment.segments" and not f.is_lambda]
    _dead = 0
    for f in _seg_fns:
        for kind, node, text in _narrow(ctx, f):
            if kind == "dead-test":
                _dead += 1
                ck.violation("C15.11", short(f) + ":" + ast.unparse(node)[:60], where(f, node), text, found=ast.unparse(node),
                             required="a test some element of the list can satisfy (e.g. the wrapper class, then its .position)")
    ck.floor("C15.11 functions of segments.py scanned", len(_seg_fns), 25)
    if not _dead:
        ck.ok("C15.11", "segments.py", "src/alignment/segments.py", f"{len(_seg_fns)} functions: every isinstance test is satisfiable for the declared element type")
    ck.clause("C15.6", "conflict test detects every overlap: other.start <= self.end (on any sequence) is among its disjuncts")
    seg = p.find_class("AlignmentSegment")
    base_pair = p.find_class("_SegmentPair")
    impls = [c for c in [base_pair] + p.all_subclasses(base_pair) if not c.module.is_test and "resolveConflict" in c.methods]
    ck.floor("C15.1 resolveConflict implementations", len(impls), 2)
    L, R = self_attr("leftSegment"), self_attr("rightSegment")
    LS, RS = self_attr("leftConflictingSubsegment"), self_attr("rightConflictingSubsegment")
    sub_fn = p.lookup_method(seg, "__sub__", None)
    if sub_fn is None:
        raise AnalysisError("AlignmentSegment.__sub__ not found")

    def leaf_returns(fn, depth=3):
        """(term, fn, path) of tuple-valued returns, following calls to sibling helper methods"""
        out = []
        for pa in explore(ck, fn, unroll=(0, 1)):
            if pa.outcome != "return":
                continue
            v = pa.value
            if v[0] == "app" and depth > 0 and v[2] == V(fn.self_name or "self"):
                out.extend(leaf_returns(p.get_function(v[1]), depth - 1))
            elif v[0] == "app" and depth > 0 and v[2] is None and v[1].split(":")[1].startswith(fn.cls.name + "."):
                out.extend(leaf_returns(p.get_function(v[1]), depth - 1))
            else:
                out.append((v, fn, pa))
        return out
    n_ret = 0
    cut_bounds = []
    for cls in impls:
        m = cls.methods["resolveConflict"]
        if any("abstractmethod" in d for d in m.decorators):
            continue
        for v, fn, pa in leaf_returns(m):
            n_ret += 1
            w = where(fn, pa.node)
            if v[0] != "tuple" or len(v[1]) != 2:
                raise AnalysisError(f"{w}: resolveConflict result is not a (left, right) pair: {T.show(v)[:160]}")
            for side, (x, own, own_sub) in zip(("left", "right"), ((v[1][0], L, LS), (v[1][1], R, RS))):
                construct = f"{short(fn)}:{side}"
                if x == own:
                    ck.ok("C15.1", construct, w, f"{side} result is the {side} segment itself")
                    continue
                if x[0] == "app" and x[1] == sub_fn.qualname:
                    recv = x[2]
                    other = list(dict(x[3]).values())[0]
                    ck.judge(recv == own, "C15.3", construct + ":minuend", w,
                             f"the {side} result is the {side} segment minus something", found=T.show(recv),
                             required=T.show(own))
                    src_ok = other == own_sub or (other[0] == "slice" and other[1] == T.mk_attr(own_sub, "positions") and other[4] == T.NONE)
                    ck.judge(src_ok, "C15.3", construct + ":subtrahend", w,
                             f"what is removed from the {side} segment comes from the {side} conflicting sub-segment only",
                             found=T.show(other)[:200], required=f"{T.show(own_sub)} or a slice of its positions")
                    ck.ok("C15.1", construct, w, f"{side} result = {side} segment - (part of its conflicting sub-segment)")
                    if other[0] == "slice" and src_ok:
                        cut_bounds.append((side, other, fn, w))
                    continue
                news = [y for y in T.subterms(x) if y[0] == "new" or (y[0] == "app" and y[1].endswith("AlignmentSegment.create"))]
                if news or x in (R if side == "left" else L,):
                    ck.violation("C15.1", construct, w, f"the {side} result of conflict resolution is not a shrunken version of the "
                                 f"{side} segment", found=T.show(x)[:240], required=f"{T.show(own)} or {T.show(own)} - <positions>")
                else:
                    raise AnalysisError(f"{w}: {side} result not recognised: {T.show(x)[:200]}")
    ck.floor("C15.1 resolveConflict leaf returns", n_ret, 5)
    per_side_cuts(ck, "C15.5", cut_bounds, impls, LS, RS)

    # ---- __sub__ and slice build sub-sequences through create
    positions = self_attr("positions")
    for name in ("__sub__", "slice"):
        fn = p.lookup_method(seg, name, None)
        if fn is None:
            raise AnalysisError(f"AlignmentSegment.{name} not found")
        for pa in explore(ck, fn, unroll=(0, 1)):
            if pa.outcome != "return":
                continue
            v = pa.value
            w = where(fn, pa.node)
            if v[0] == "new" and v[1] == seg.qualname:
                ck.violation("C15.1", f"{short(fn)}:construction", w, "result is built with the raw constructor (score not recomputed)",
                             found=T.show(v)[:200], required="AlignmentSegment.create(...)")
                continue
            if not (v[0] == "app" and v[1].endswith("AlignmentSegment.create")):
                if v == V(fn.self_name):
                    ck.violation("C15.1", f"{short(fn)}:construction", w, "the segment itself is returned after in-place changes",
                                 found=T.show(v), required="a new segment from AlignmentSegment.create")
                    continue
                raise AnalysisError(f"{w}: {name} does not return AlignmentSegment.create(...): {T.show(v)[:160]}")
            a = dict(v[3])
            verdict = is_subsequence_of(a.get("positions"), positions)
            if verdict == "yes":
                ck.ok("C15.1", f"{short(fn)}:subsequence", w, "positions of the result are a sub-sequence of self.positions",
                      T.show(a.get("positions"))[:200])
            elif verdict == "no":
                ck.violation("C15.1", f"{short(fn)}:subsequence", w, "positions of the result are not a sub-sequence of self.positions "
                             "(elements are constructed, transformed or concatenated)", found=T.show(a.get("positions"))[:240],
                             required="filter / dropwhile / takewhile / slice of self.positions")
            else:
                raise AnalysisError(f"{w}: cannot judge whether {T.show(a.get('positions'))[:160]} is a sub-sequence (re-ordering operator?)")
            ck.judge(a.get("peak") == self_attr("peak") and a.get("allPeakPositions") == self_attr("allPeakPositions"), "C15.1",
                     f"{short(fn)}:same-peak", w, "the shrunken segment keeps its peak and peak positions",
                     found=f"peak={T.show(a.get('peak', C(None)))}, all={T.show(a.get('allPeakPositions', C(None)))}")
            # helper calls between building the list and create may only pop from the end
            for e in pa.events:
                if e.kind == "call" and e.term[0] == "app" and e.term[2] is None:
                    helper = p.functions.get(e.term[1])
                    if helper is not None and helper.cls is seg:
                        muts = [c for c in ast.walk(helper.node) if isinstance(c, ast.Call) and isinstance(c.func, ast.Attribute)
                                and c.func.attr in ("append", "extend", "insert", "remove", "sort", "reverse", "pop", "clear")]
                        bad = [c for c in muts if c.func.attr != "pop" or c.args]
                        ck.judge(not bad, "C15.1", f"{short(helper)}:trailing-pop-only", helper.where,
                                 "the trimming helper only pops from the end of the list", found="; ".join(ast.unparse(c) for c in bad) or
                                 f"{len(muts)} pop() call(s)")
    # removal predicate of __sub__: membership in the other positions
    for pa in explore(ck, sub_fn):
        if pa.outcome == "return" and pa.value[0] == "app":
            pos = dict(pa.value[3]).get("positions")
            if pos is not None and pos[0] == "comp":
                ifs = pos[3][0][1]
                ok = len(ifs) == 1 and ifs[0][0] == "notin" and ifs[0][1] == pos[2]
                ck.judge(ok, "C15.1", f"{short(sub_fn)}:predicate", where(sub_fn, pa.node),
                         "a position is removed exactly when it is among the positions to subtract", found=T.show(pos)[:200],
                         required="[p for p in self.positions if p not in other]")
                if ok:
                    # what is subtracted for a segment operand: all of its positions (pairs and unpaired labels alike)
                    removed = ifs[0][2]
                    oparam = V(sub_fn.call_params()[0].name)
                    attrs = {x[2] for x in T.subterms(removed) if x[0] == "attr" and x[1] == oparam}
                    ck.judge(attrs <= {"positions"} and (not attrs or "positions" in attrs), "C15.1", f"{short(sub_fn)}:operand",
                             where(sub_fn, pa.node), "subtracting a segment removes every position of it - unpaired labels of the "
                             "removed sub-run included (otherwise they stay behind: the result is no contiguous sub-run and carries "
                             "their penalties)", found=T.show(removed)[:200], required="other.positions (or the list given)")

    # ---- C15.3 sub-segments are slices over the overlap; earlier member is left
    create = p.find_method("_SegmentPairWithConflict", "create")
    prm = [pp.name for pp in create.call_params()]
    for pa in explore(ck, create):
        if pa.outcome != "return" or pa.value[0] != "new":
            continue
        a = dict(pa.value[2])
        w = where(create, pa.node)
        s1, s2 = V(prm[0]), V(prm[1])
        ck.judge(a.get("leftSegment") == s1 and a.get("rightSegment") == s2, "C15.3", short(create) + ":roles", w,
                 "first argument is the left segment, second the right one", found=f"left={T.show(a.get('leftSegment', C(None)))}, "
                 f"right={T.show(a.get('rightSegment', C(None)))}")
        for side, own in (("left", s1), ("right", s2)):
            sub = a.get(side + "ConflictingSubsegment")
            ok = sub is not None and sub[0] == "app" and sub[1].endswith("AlignmentSegment.slice") and sub[2] == own
            ck.judge(bool(ok), "C15.3", short(create) + f":{side}-subsegment", w,
                     f"the {side} conflicting sub-segment is a slice of the {side} segment", found=T.show(sub)[:160] if sub else "None")
            if ok:
                sa = dict(sub[3])
                ck.judge(sa.get("start") == T.mk_attr(s2, "startPosition") and sa.get("end") == T.mk_attr(s1, "endPosition"),
                         "C15.3", short(create) + f":{side}-overlap", w,
                         "the overlap runs from the start of the later segment to the end of the earlier one",
                         found=f"start={T.show(sa.get('start', C(None)))}, end={T.show(sa.get('end', C(None)))}",
                         required=f"start={prm[1]}.startPosition, end={prm[0]}.endPosition")
    cfc = p.lookup_method(seg, "checkForConflicts", None)
    for pa in explore(ck, cfc):
        if pa.outcome != "return":
            continue
        v = pa.value
        w = where(cfc, pa.node)
        me, other = V(cfc.self_name), V(cfc.call_params()[0].name)
        if v[0] == "app":
            a = list(dict(v[3]).values())
            ck.judge(a == [me, other], "C15.3", short(cfc) + ":conflict-order", w, "self (earlier chain member) is the left segment",
                     found=T.show(v)[:120])
            # the overlap test must be known true on this path - tested directly, or refuted in negated form
            guard = []
            for c, tv, _ in pa.state.assumptions:
                pc, pol = T.positive(T.as_bool(c))
                if (tv if pol else not tv):
                    guard.append(pc)
            ok = len(guard) == 1 and len(pa.state.assumptions) == 1 and guard[0][0] == "app" \
                and guard[0][1].endswith("endOverlapsWithStartOf") and guard[0][2] == me
            ck.judge(ok, "C15.3", short(cfc) + ":conflict-guard", w, "a conflict pair is built only when self's end overlaps the other's start",
                     found="; ".join(T.show(g)[:100] for g in guard))
        elif v[0] == "new":
            a = dict(v[2])
            ck.judge(a.get("leftSegment") == me and a.get("rightSegment") == other, "C15.3", short(cfc) + ":no-conflict-order", w,
                     "without conflict both segments are passed through in order", found=T.show(v)[:120])
    pairwise_pass(ck, "C15.2")
    slice_window(ck)
    overlap_test(ck)
    comparators(ck, "C15.7")
    from .c11 import position_order
    position_order(ck, "C15.7")
    label_characteristics(ck, "C15.8")


def comparators(ck, rule):
    from ..rules.siblings import semantic_symmetry
    p = ck.ctx.p
    ck.clause(rule, "position comparators: strict on both axes / inclusive on any axis; unpaired labels compare on their own axis")
    ap = p.find_class("AlignedPair")
    swaps = [("reference", "query"), ("Reference", "Query")]

    def ret(cls, name, _depth=0):
        m = p.lookup_method(cls, name, None)
        if m is not None and m.cls is not cls and cls.name != "AlignedPair" and _depth == 0:
            # inherited: a base-class method that only delegates to another comparator of the object is that comparator of THIS class
            body = [st for st in m.node.body if not (isinstance(st, ast.Expr) and isinstance(st.value, ast.Constant))]
            if len(body) == 1 and isinstance(body[0], ast.Return) and isinstance(body[0].value, ast.Call) \
                    and isinstance(body[0].value.func, ast.Attribute) and isinstance(body[0].value.func.value, ast.Name) \
                    and body[0].value.func.value.id == m.self_name and body[0].value.func.attr in cls.methods \
                    and len(body[0].value.args) == 1 and not body[0].value.keywords:
                m2, v2, other2, pa2 = ret(cls, body[0].value.func.attr, 1)
                return m, v2, other2, pa2
        if m is None or m.cls is not cls and cls.name != "AlignedPair":
            m = cls.methods.get(name)
        if m is None:
            raise AnalysisError(f"{cls.where}: {cls.name}.{name} not found")
        from ..rules.common import merged_return
        v, pa = merged_return(ck, m)
        return m, T.as_bool(v), V(m.call_params()[0].name), pa
    # aligned pair
    m, v, other, pa = ret(ap, "lessOnBothSequences")
    q_lt = T.mk_lt(self_attr("query"), T.mk_attr(other, "query"))
    r_lt = T.mk_lt(self_attr("reference"), T.mk_attr(other, "reference"))
    ck.judge(v == T.mk_and([q_lt, r_lt]), rule, short(m), where(m, pa.node),
             "an aligned pair is 'less on both sequences' iff it is strictly before on the query AND on the reference",
             found=T.show(v)[:200], required=T.show(T.mk_and([q_lt, r_lt]))[:200])
    m, v, other, pa = ret(ap, "lessOrEqualOnAnySequence")
    q_lt = T.mk_lt(self_attr("query"), T.mk_attr(other, "query"))
    r_lt = T.mk_lt(self_attr("reference"), T.mk_attr(other, "reference"))
    q_eq = T.mk_eq(self_attr("query"), T.mk_attr(other, "query"))
    r_eq = T.mk_eq(self_attr("reference"), T.mk_attr(other, "reference"))
    q_le = T.mk_le(self_attr("query"), T.mk_attr(other, "query"))
    r_le = T.mk_le(self_attr("reference"), T.mk_attr(other, "reference"))
    D = set(v[1]) if v[0] == "or" else {v}
    ok_q = q_le in D or {q_lt, q_eq} <= D
    ok_r = r_le in D or {r_lt, r_eq} <= D
    extra = D - {q_lt, r_lt, q_eq, r_eq, q_le, r_le}
    ck.judge(ok_q and ok_r and not extra, rule, short(m), where(m, pa.node),
             "an aligned pair is 'less or equal on any sequence' iff it is at or before the other on the query OR on the reference",
             found=T.show(v)[:240], required="query <= other.query or reference <= other.reference")
    # unpaired labels
    for cls_name, axis in (("NotAlignedQueryPosition", "query"), ("NotAlignedReferencePosition", "reference")):
        cls = p.find_class(cls_name)
        for name, mk, word in (("lessOnBothSequences", T.mk_lt, "strictly before"), ("lessOrEqualOnAnySequence", T.mk_le, "at or before")):
            m, v, other, pa = ret(cls, name)
            want = mk(T.mk_attr(self_attr(axis), "position"), T.mk_attr(T.mk_attr(other, axis), "position"))
            ck.judge(v == want, rule, short(m), where(m, pa.node),
                     f"an unpaired {axis} label is compared on the {axis} axis only: {word} the other's {axis} label",
                     found=T.show(v)[:160], required=T.show(want)[:160])
    q, r = p.find_class("NotAlignedQueryPosition"), p.find_class("NotAlignedReferencePosition")
    for name in ("lessOnBothSequences", "lessOrEqualOnAnySequence"):
        if name in r.methods and name in q.methods:          # (an inherited, delegating comparator was judged above)
            semantic_symmetry(ck, rule, r.methods[name], q.methods[name], swaps, f"unpaired-label comparator {name}")
    # the null pair
    nul = p.find_class("_NullAlignedPair")
    for name in ("lessOnBothSequences", "lessOrEqualOnAnySequence"):
        if name in nul.methods:
            m, v, other, pa = ret(nul, name)
            ck.judge(v == C(False), rule, short(m), where(m, pa.node), "the null pair is never before anything (an empty segment "
                     "conflicts with nothing)", found=T.show(v)[:80], required="False")


def label_characteristics(ck, rule):
    from ..rules.siblings import semantic_symmetry
    p = ck.ctx.p
    ck.clause(rule, "reference-label and query-label characteristics are the same computation under reference<->query")
    seg = p.find_class("AlignmentSegment")
    a, b = seg.methods.get("getReferenceLabels"), seg.methods.get("getQueryLabels")
    if a is None or b is None:
        raise AnalysisError(f"{seg.where}: getReferenceLabels / getQueryLabels not found")
    semantic_symmetry(ck, rule, a, b, [("reference", "query"), ("Reference", "Query")], "label characteristics of a segment",
                      unroll=(1, 2, 3))
    # each characteristic is anchored on one side at least: labels of a paired position come from position.reference
    from ..rules.common import explore as _explore
    ok = False
    for pa in _explore(ck, a, unroll=(1,)):
        if pa.outcome == "return" and pa.value[0] == "new":
            args = dict(pa.value[2])
            pos = args.get("positions")
            if pos is not None and pos[0] == "list" and pos[1]:
                ok = ok or any(x[0] == "attr" and x[2] == "reference" for x in T.subterms(pos))
    ck.judge(ok, rule, short(a) + ":axis", a.where, "the reference characteristics list reference labels",
             found="no .reference label in the positions list" if not ok else None)
    label_table_members(ck, rule)


def label_table_members(ck, rule):
    """Which positions of a segment are labels of its reference (query) table: every aligned pair, and every unpaired label of that
    side - a ScoredNotAlignedPosition *wrapping* a NotAlignedReference(Query)Position. The two overlapping segments are cut at
    'the k-th label' of these tables; a table that leaves the unpaired labels out counts different physical labels in the two
    segments, and a label stays in both."""
    from ..rules.common import explore as _explore
    p = ck.ctx.p
    seg = p.find_class("AlignmentSegment")
    n_paths = 0
    for side, meth in (("reference", "getReferenceLabels"), ("query", "getQueryLabels")):
        fn = seg.methods.get(meth)
        own = lambda callee, fn=fn: callee.cls is fn.cls and callee.name.startswith("_") and not callee.name.startswith("__init")
        E = None
        kinds = {"pair": [], "unpaired": [], "wrapper-test": [], "other-side": [], "none": [], "unknown": []}
        wanted_cls = "NotAligned" + side.capitalize() + "Position"
        for pa in _explore(ck, fn, unroll=(1,), follow=own):
            if pa.outcome != "return" or pa.value[0] != "new":
                continue
            n_paths += 1
            args = dict(pa.value[2])
            pos = args.get("positions")
            if pos is None or pos[0] != "list":
                raise AnalysisError(f"{where(fn, pa.node)}: label list of the characteristics not recognised: {T.show(pa.value)[:160]}")
            true_tests = []
            for c, tv, _ in pa.state.assumptions:
                cs = list(c[1]) if c[0] == "and" else [c]
                if tv:
                    true_tests.extend(cs)
            if not pos[1]:
                kinds["none"].append(pa)
                continue
            # a label written as a conditional expression is its cases, each under its own condition
            cases0 = []

            def split_label(lab0, tests0, false0):
                if lab0[0] == "select":
                    c0, pos0 = T.positive(lab0[1])
                    cs = list(c0[1]) if c0[0] == "and" and pos0 else [c0]
                    split_label(lab0[2], tests0 + (cs if pos0 else []), false0 + ([] if pos0 else [c0]))
                    split_label(lab0[3], tests0 + ([] if pos0 else [c0]), false0 + ([c0] if pos0 else []))
                else:
                    cases0.append((lab0, tests0, false0))
            split_label(pos[1][0], list(true_tests), [])
            other = "query" if side == "reference" else "reference"
            for lab, tests1, false1 in cases0:
                elem = [x for x in T.subterms(lab) if x[0] == "elem"]
                if not elem:
                    kinds["unknown"].append((pa, lab))
                    continue
                E = elem[0]

                def tested(obj, cls_suffix, tests1=tests1):
                    return any(t[0] == "call" and t[1] == "isinstance" and t[2][0] == obj and
                               any(y[0] == "cls" and y[1].endswith(":" + cls_suffix) for y in T.subterms(t[2][1])) for t in tests1)
                if lab == T.mk_attr(E, side):
                    kinds["pair"].append(pa)
                elif lab == T.mk_attr(T.mk_attr(E, "position"), side):
                    if tested(T.mk_attr(E, "position"), wanted_cls):
                        kinds["unpaired"].append(pa)
                    elif tested(E, wanted_cls):
                        kinds["wrapper-test"].append(pa)
                    else:
                        kinds["unknown"].append((pa, lab))
                elif lab in (T.mk_attr(E, other), T.mk_attr(T.mk_attr(E, "position"), other)):
                    kinds["other-side"].append(pa)
                else:
                    kinds["unknown"].append((pa, lab))
        w = fn.where
        for pa in kinds["wrapper-test"]:
            ck.violation(rule, short(fn) + ":unpaired-labels", where(fn, pa.node),
                         f"an unpaired {side} label is recognised by isinstance(<position>, {wanted_cls}) on the scored position itself: "
                         "segment positions are ScoredNotAlignedPosition wrappers (the label is in .position), so the test never holds "
                         f"and the {side} table holds pairs only - two overlapping segments are then cut at different physical labels",
                         found="isinstance(position, " + wanted_cls + ")",
                         required=f"isinstance(position, ScoredNotAlignedPosition) and isinstance(position.position, {wanted_cls})")
        for pa in kinds["other-side"]:
            ck.violation(rule, short(fn) + ":side", where(fn, pa.node), f"the {side} table lists labels of the other map",
                         found=T.show(dict(pa.value[2]).get("positions"))[:120])
        if kinds["unknown"]:
            pa, lab = kinds["unknown"][0]
            raise AnalysisError(f"{where(fn, pa.node)}: a member of the {side} label table is not recognised: {T.show(lab)[:120]}")
        ck.judge(bool(kinds["pair"]), rule, short(fn) + ":pairs", w, f"every aligned pair is a label of the {side} table",
                 found=f"{len(kinds['pair'])} path(s)")
        if not kinds["wrapper-test"]:
            ck.judge(bool(kinds["unpaired"]), rule, short(fn) + ":unpaired-labels", w,
                     f"every unpaired {side} label inside the segment is a label of the {side} table (the overlap is counted in labels)",
                     found=f"{len(kinds['unpaired'])} path(s) append position.position.{side}",
                     required=f"a ScoredNotAlignedPosition wrapping a {wanted_cls} is appended")
        # 'indexes' are list indexes into segment.positions (the windows are sliced with them), not ordinals of the label
        n_idx = 0
        for pa in _explore(ck, fn, unroll=(2,), follow=own):
            if pa.outcome != "return" or pa.value[0] != "new":
                continue
            args = dict(pa.value[2])
            pos, idx = args.get("positions"), args.get("indexes")
            if pos is None or idx is None or pos[0] != "list" or idx[0] != "list" or len(pos[1]) != len(idx[1]):
                raise AnalysisError(f"{where(fn, pa.node)}: label / index lists of the characteristics not recognised: {T.show(pa.value)[:160]}")
            for lab, ix in zip(pos[1], idx[1]):
                ks = {x[2] for x in T.subterms(lab) if x[0] == "elem"}
                if len(ks) != 1:
                    continue
                k = next(iter(ks))
                n_idx += 1
                if ix[0] == "call" and ix[1] == "len" and len(ix[2]) == 1 and ix[2][0][0] == "list":
                    ix = ("c", len(ix[2][0][1]))
                    ordinal = True
                else:
                    ordinal = False
                if ix == ("c", k):
                    continue
                if ix[0] == "c" and isinstance(ix[1], int) and ordinal:
                    ck.violation(rule, short(fn) + ":indexes", where(fn, pa.node),
                                 f"the index recorded for a {side} label is its ordinal in the table, not its index in segment.positions: "
                                 "with an unpaired label of the other map in front of it the conflict windows are sliced at too small an "
                                 "index and a label stays in both resolved segments",
                                 found=f"label taken from positions[{k}] recorded with index {ix[1]}", required=f"index {k}")
                    break
                raise AnalysisError(f"{where(fn, pa.node)}: index recorded for a {side} label not recognised: {T.show(ix)[:120]} for positions[{k}]")
            else:
                continue
            break
        else:
            ck.judge(n_idx > 0, rule, short(fn) + ":indexes", w, f"a {side} label is recorded with its index in segment.positions",
                     found=f"{n_idx} label(s) over two iterations")
    ck.floor(f"{rule} return paths of the label tables", n_paths, 6)


def segment_endpoints(ck, rule, only_label_numbers=False):
    """A segment's start / end are its first / last aligned pair *in the order of its positions* (ascending coordinates on both
    strands). Ordering the aligned pairs by label number first exchanges start and end of every reverse-strand segment: the
    chainer's distances change sign and conflict windows are cut from the wrong side."""
    p = ck.ctx.p
    seg = p.find_class("AlignmentSegment")
    init = p.lookup_method(seg, "__init__", None)
    if init is None:
        raise AnalysisError("AlignmentSegment.__init__ not found")
    pos_param = V(init.call_params()[0].name)
    n = 0
    found = []
    for pa in explore(ck, init):
        if pa.outcome not in ("fall", "return"):
            continue
        for e in pa.events:
            if e.kind == "setattr" and e.extra.get("target") == self_attr("alignedPositions"):
                found.append((e.term, where(init, e.node), pos_param))
    prop = seg.methods.get("alignedPositions")
    as_property = None
    if not found and prop is not None and prop.is_property:
        # the filtered list computed on demand: a property over self.positions is the same list
        for pa in explore(ck, prop):
            if pa.outcome == "return":
                found.append((pa.value, where(prop, pa.node), self_attr("positions")))
                as_property = pa.value
    if True:
        for t, w, pos_param in found:
            n += 1
            inner = t
            srt = None
            while inner[0] == "call" and inner[1] in ("list", "tuple", "sorted") and inner[2]:
                if inner[1] == "sorted":
                    srt = inner
                inner = inner[2][0]
            plain = inner[0] == "comp" and len(inner[3]) == 1 and inner[3][0][0] == pos_param and inner[2][0] == "bv"
            if srt is not None:
                key = dict(srt[3]).get("key")
                by_number = key is not None and any(x[0] == "attr" and x[2] == "siteId" for x in T.subterms(key)) or \
                    (key is not None and key[0] == "fn" and "SiteId" in key[1])
                if by_number:
                    ck.violation(rule, short(init) + ":alignedPositions", w,
                                 "the aligned pairs of a segment are ordered by label number: on the reverse strand query label "
                                 "numbers descend, so startPosition / endPosition of every '-' segment are exchanged (join distances "
                                 "change sign, conflict windows are cut from the wrong end) while '+' segments are unaffected",
                                 found=T.show(t)[:200], required="[p for p in positions if isinstance(p, ScoredAlignedPair)] in list order")
                elif not only_label_numbers:
                    raise AnalysisError(f"{w}: aligned pairs of a segment are re-ordered: {T.show(t)[:160]}")
            elif plain:
                ck.ok(rule, short(init) + ":alignedPositions", w, "aligned pairs are kept in the order of the segment's positions", T.show(t)[:120])
            elif not only_label_numbers:
                raise AnalysisError(f"{w}: aligned pairs of a segment not recognised: {T.show(t)[:160]}")
    if only_label_numbers:
        return
    from ..rules.common import merged_return
    for name, idx in (("startPosition", C(0)), ("endPosition", C(-1))):
        m = seg.methods.get(name)
        if m is None:
            raise AnalysisError(f"AlignmentSegment.{name} not found")
        v, pa = merged_return(ck, m)
        if v == T.mk_idx(self_attr("positions"), idx):
            ck.violation(rule, short(m), where(m, pa.node),
                         f"{name} is the {'first' if idx == C(0) else 'last'} *position* of the segment, not its "
                         f"{'first' if idx == C(0) else 'last'} aligned pair: only the segments the builder makes begin and end with a "
                         "pair - a segment the resolver has cut can begin with an unpaired label, and the next overlap test compares a "
                         "position that has no reference / query pair", found=T.show(v)[:120], required=f"self.alignedPositions[{idx[1]}]")
            continue
        ck.judge(v == T.mk_idx(self_attr("alignedPositions"), idx) or (as_property is not None and v == T.mk_idx(as_property, idx)),
                 rule, short(m), where(m, pa.node),
                 f"{name} is the {'first' if idx == C(0) else 'last'} aligned pair", found=T.show(v)[:120],
                 required=f"self.alignedPositions[{idx[1]}]")
    if n == 0:
        raise AnalysisError(f"{init.where}: the store of alignedPositions was not found")


def conflict_decision(ck, rule, test_fn=None, only_label_numbers=False):
    """checkForConflicts: the pair goes down the no-conflict path only when the overlap test itself said no - a further condition
    in front of it (a 'cheap' pre-test) lets overlapping neighbours through untrimmed"""
    p = ck.ctx.p
    seg = p.find_class("AlignmentSegment")
    fn = seg.methods.get("checkForConflicts")
    if fn is None:
        raise AnalysisError("AlignmentSegment.checkForConflicts not found")
    if test_fn is None:
        test_fn = seg.methods.get("endOverlapsWithStartOf")
        if test_fn is None:
            raise AnalysisError("AlignmentSegment.endOverlapsWithStartOf not found")
    n = 0
    cases = []
    for pa in explore(ck, fn):
        if pa.outcome != "return":
            continue
        base = []
        for c, tv, _ in pa.state.assumptions:
            c0, pos = T.positive(c)
            base.append((c0, tv if pos else (not tv)))

        def split(v, conds):
            if v[0] == "select":                      # a conditional expression is its two cases
                c0, pos = T.positive(v[1])
                split(v[2], conds + [(c0, pos)])
                split(v[3], conds + [(c0, not pos)])
            else:
                cases.append((v, conds, pa))
        split(pa.value, base)
    for v, conds, pa in cases:
        no_conflict = (v[0] == "new" and v[1].endswith("NoConflict")) or (v[0] == "app" and "NoConflict" in v[1])
        if not no_conflict:
            continue
        n += 1
        w = where(fn, pa.node)

        def is_test(c):
            return (c[0] == "app" and c[1] == test_fn.qualname) or (c[0] == "mcall" and c[2] == test_fn.name)
        plain = [tv for c, tv in conds if is_test(c)]
        if len(conds) == 1 and plain == [False]:
            ck.ok(rule, short(fn) + ":no-conflict", w, "the no-conflict path is taken exactly when the overlap test is false", "")
            continue
        extras = []
        for c, tv in conds:
            parts = list(c[1]) if c[0] in ("and", "or") else [c]
            extras.extend(x for x in parts if not is_test(x))
        if extras and any(y[0] == "attr" and y[2] == "siteId" for x in extras for y in T.subterms(x)):
            ck.violation(rule, short(fn) + ":no-conflict", w,
                         "the overlap test is narrowed by a comparison of label numbers: two neighbours can be declared conflict-free "
                         "without the overlap test having said so - label numbers descend along a reverse-strand query, so there the "
                         "pre-test holds exactly for segments that do overlap on the query, and their shared labels stay in both",
                         found="; ".join(("" if tv else "not ") + T.show(c)[:200] for c, tv in conds)[:400],
                         required="no-conflict only when endOverlapsWithStartOf(other) is false")
        elif only_label_numbers:
            continue
        elif not plain and not any(is_test(y) for c, _ in conds for y in T.subterms(c)):
            if any(T.contains(c, V(fn.call_params()[0].name)) for c, _ in conds) or not conds:
                raise AnalysisError(f"{w}: the no-conflict path of checkForConflicts is not decided by the overlap test: "
                                    + "; ".join(T.show(c)[:120] for c, _ in conds))
        else:
            raise AnalysisError(f"{w}: condition of the no-conflict path not recognised: " + "; ".join(T.show(c)[:160] for c, _ in conds))
    ck.floor(f"{rule} no-conflict paths of checkForConflicts", n, 1)


def overlap_test(ck, rule="C15.6"):
    p = ck.ctx.p
    seg = p.find_class("AlignmentSegment")
    fn = seg.methods.get("endOverlapsWithStartOf")
    if fn is None:
        raise AnalysisError("AlignmentSegment.endOverlapsWithStartOf not found")
    me, other = V(fn.self_name), V(fn.call_params()[0].name)

    def le(a, b):   # a.lessOrEqualOnAnySequence(b) in either call form
        return a, b
    want = {(T.mk_attr(other, "startPosition"), T.mk_attr(me, "startPosition")),
            (T.mk_attr(other, "startPosition"), T.mk_attr(me, "endPosition")),
            (T.mk_attr(me, "endPosition"), T.mk_attr(other, "endPosition"))}
    rets = [pa for pa in explore(ck, fn) if pa.outcome == "return"]
    got = set()
    unknown = []
    if len(rets) == 1:
        v = T.as_bool(rets[0].value)
        parts = list(v[1]) if v[0] == "or" else [v]
    else:
        # if-chain form: every path returning True contributes its asserted test
        parts = []
        for pa in rets:
            if pa.value == C(True):
                parts.extend(c for c, tv, _ in pa.state.assumptions if tv)
            elif pa.value != C(False):
                v = T.as_bool(pa.value)
                parts.extend(list(v[1]) if v[0] == "or" else [v])
    narrowed = []
    for x in list(parts):
        if x[0] == "and":
            # a disjunct that is a conjunction: the overlap is reported only when all of its members hold
            members = [(y[1], y[3][0]) if y[0] == "mcall" and y[2] == "lessOrEqualOnAnySequence" and len(y[3]) == 1 else
                       (y[2], list(dict(y[3]).values())[0]) if y[0] == "app" and y[1].endswith(".lessOrEqualOnAnySequence") else None
                       for y in x[1]]
            if (T.mk_attr(other, "startPosition"), T.mk_attr(me, "endPosition")) in members:
                narrowed.append(x)
                parts.remove(x)
    for x in parts:
        if x[0] == "mcall" and x[2] == "lessOrEqualOnAnySequence" and len(x[3]) == 1:
            got.add((x[1], x[3][0]))
        elif x[0] == "app" and x[1].endswith(".lessOrEqualOnAnySequence"):
            got.add((x[2], list(dict(x[3]).values())[0]))
        else:
            unknown.append(x)
    w = where(fn, rets[0].node) if rets else fn.where
    # a path that answers "no overlap" must have refuted the necessary disjunct: a short cut in front of the comparisons (same seed,
    # same peak, label numbers apart ...) lets an overlapping pair through unresolved
    nec_pair = (T.mk_attr(other, "startPosition"), T.mk_attr(me, "endPosition"))

    def as_pair(x):
        if x[0] == "mcall" and x[2] == "lessOrEqualOnAnySequence" and len(x[3]) == 1:
            return (x[1], x[3][0])
        if x[0] == "app" and x[1].endswith(".lessOrEqualOnAnySequence"):
            return (x[2], list(dict(x[3]).values())[0])
        return None
    if len(rets) > 1:
        for pa in rets:
            if pa.value != C(False):
                continue
            refuted = set()
            for c0, tv0, _ in pa.state.assumptions:
                for y in (c0[1] if c0[0] == "or" else [c0]):
                    if not tv0 and as_pair(y) is not None:
                        refuted.add(as_pair(y))
            if nec_pair not in refuted:
                conds = "; ".join(("" if tv0 else "not ") + T.show(c0)[:70] for c0, tv0, _ in pa.state.assumptions[-3:])
                ck.violation(rule, short(fn) + ":short-cut", where(fn, pa.node),
                             "the overlap test answers 'no overlap' on a path that never compared the later segment's start with the "
                             "earlier one's end: the pair is handed on unresolved (the join of two records calls the same test on "
                             "segments the short cut's reasoning does not cover)", found="path under: " + (conds or "<no condition>"),
                             required=f"{T.show(nec_pair[0])} <= {T.show(nec_pair[1])} refuted before False is returned")
    if unknown:
        raise AnalysisError(f"{w}: conflict test contains an unrecognised disjunct: {T.show(unknown[0])[:160]}")
    # Only one disjunct is *necessary*: the later segment starts at or before the earlier one's end (on some sequence).
    # `other.start <= self.start` is implied by it (start <= end within a segment); `self.end <= other.end` and any other
    # extra disjunct can only send a non-overlapping pair through the conflict path, where both sub-runs are empty and the
    # pair comes back unchanged - so extras are reported as an observation, never as a violation.
    necessary = (T.mk_attr(other, "startPosition"), T.mk_attr(me, "endPosition"))
    if narrowed and necessary not in got:
        ck.violation(rule, short(fn) + ":narrowed", w,
                     "the overlap `other.start <= self.end` counts only together with a further condition: a later segment that lies "
                     "inside the stretch the earlier one covers (a second-pass rest placed within the first-pass segment) fails the "
                     "extra condition, is declared conflict-free and keeps the labels both segments pair",
                     found=T.show(narrowed[0])[:200], required=f"{T.show(necessary[0])} <= {T.show(necessary[1])} as a disjunct of its own")
        return
    ck.judge(necessary in got, rule, short(fn), w,
             "a conflict is detected whenever (on any sequence) the later segment starts at or before the earlier one's end",
             found="disjuncts: " + "; ".join(f"{T.show(a)} <= {T.show(b)}" for a, b in sorted(got)),
             required=f"{T.show(necessary[0])} <= {T.show(necessary[1])} among the disjuncts")
    conflict_decision(ck, rule, fn)
    extra = got - want
    if extra:
        ck.observe(f"{rule} extra disjunct(s) in endOverlapsWithStartOf (harmless: empty sub-runs): "
                   + "; ".join(f"{T.show(a)} <= {T.show(b)}" for a, b in sorted(extra)))


def slice_window(ck):
    """AlignmentSegment.slice: dropwhile(p.lessOnBothSequences(start)) then takewhile(unpaired or p.lessOrEqualOnAnySequence(end)).
    Unpaired positions inside the overlap never close the conflicting sub-run: pairs behind them that still conflict on
    the other sequence must be part of it."""
    ctx = ck.ctx
    p = ctx.p
    seg = p.find_class("AlignmentSegment")
    fn = p.lookup_method(seg, "slice", None)
    prm = [pp.name for pp in fn.call_params()]
    start, end = V(prm[0]), V(prm[1])
    for pa in explore(ck, fn, unroll=(0, 1)):
        if pa.outcome != "return" or pa.value[0] != "app":
            continue
        pos = dict(pa.value[3]).get("positions")
        w = where(fn, pa.node)
        inner = pos
        while inner is not None and inner[0] == "call" and inner[1] in ("list", "tuple") and len(inner[2]) == 1:
            inner = inner[2][0]
        if inner is not None and inner[0] == "call" and inner[1].endswith("takewhile") and len(inner[2]) == 2:
            src0 = inner[2][1]
            while src0[0] == "call" and src0[1] in ("list", "tuple", "iter") and len(src0[2]) == 1:
                src0 = src0[2][0]
            if src0[0] in ("comp",) and len(src0[3]) == 1 and src0[3][0][0] == self_attr("positions") and len(src0[3][0][1]) == 1 \
                    and src0[2][0] == "bv" and any(y[0] in ("mcall", "app") and "lessOnBothSequences" in (y[2] if y[0] == "mcall" else y[1])
                                                   for y in T.subterms(src0[3][0][1][0])):
                ck.violation("C15.4", short(fn) + ":lower", w,
                             "positions before `start` are *filtered* out of the whole segment instead of being dropped from its front: "
                             "positions are not monotone in `lessOnBothSequences` (an unpaired label behind the cut can again be before "
                             "`start` on both sequences), so the conflicting sub-run gets a hole and what is left of the segment after "
                             "subtraction is not a contiguous sub-run", found=T.show(src0)[:200],
                             required=f"itertools.dropwhile(lambda p: p.lessOnBothSequences({prm[0]}), self.positions)")
                continue
        if not (inner is not None and inner[0] == "call" and inner[1].endswith("takewhile") and inner[2][1][0] == "call"
                and inner[2][1][1].endswith("dropwhile")):
            raise AnalysisError(f"{w}: slice window is not takewhile(.., dropwhile(.., self.positions)): {T.show(pos)[:200] if pos else None}")
        tw, dw_call = inner[2]
        dw, src = dw_call[2]
        ck.judge(src == self_attr("positions"), "C15.4", short(fn) + ":source", w, "the window is cut from self.positions", found=T.show(src))

        def pred_body(lam):
            lv = min([x[1] for x in T.subterms(lam[2]) if x[0] == "bv"] or [0])
            return T.as_bool(lam[2]), ("bv", lv)
        if dw[0] != "lam" or tw[0] != "lam":
            raise AnalysisError(f"{w}: window predicates are not lambdas")
        dbody, dv = pred_body(dw)
        tbody, tv = pred_body(tw)

        def calls(body, name):
            return [x for x in T.subterms(body) if (x[0] == "mcall" and x[2] == name) or (x[0] == "app" and x[1].endswith("." + name))]
        d_ok = len(calls(dbody, "lessOnBothSequences")) == 1 and dbody[0] in ("mcall", "app") and \
            (dbody[3] == (start,) if dbody[0] == "mcall" else list(dict(dbody[3]).values()) == [start])
        ck.judge(d_ok, "C15.4", short(fn) + ":lower", w, "positions strictly before `start` on both sequences are dropped",
                 found=T.show(dbody)[:160], required=f"p.lessOnBothSequences({prm[0]})")
        parts = list(tbody[1]) if tbody[0] == "or" else [tbody]
        le_calls = [x for x in parts if x[0] in ("mcall", "app") and "lessOrEqualOnAnySequence" in (x[2] if x[0] == "mcall" else x[1])]
        unpaired = [x for x in parts if x[0] == "not" and x[1][0] == "call" and x[1][1] == "isinstance"
                    and x[1][2][0] == tv and x[1][2][1][0] == "cls" and x[1][2][1][1].endswith(":AlignedPair")]
        le_ok = len(le_calls) == 1 and (le_calls[0][3] == (end,) if le_calls[0][0] == "mcall" else list(dict(le_calls[0][3]).values()) == [end])
        if le_ok and unpaired and len(parts) == 2:
            ck.ok("C15.4", short(fn) + ":upper", w, "the sub-run continues over unpaired positions and over pairs that are <= `end` on any sequence",
                  T.show(tbody)[:200])
        elif le_ok and not unpaired and len(parts) == 1:
            ck.violation("C15.4", short(fn) + ":upper", w, "an unpaired position beyond `end` on its own sequence closes the conflicting "
                         "sub-run: aligned pairs behind it that still conflict on the other sequence are never trimmed (a label stays "
                         "shared between two segments)", found=T.show(tbody)[:200],
                         required=f"not isinstance(p, AlignedPair) or p.lessOrEqualOnAnySequence({prm[1]})")
        else:
            raise AnalysisError(f"{w}: upper window predicate not recognised: {T.show(tbody)[:200]}")

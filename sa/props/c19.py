"""C19 - alignment comparison partitions keys; measures bounded and reflexive (structural clauses).

  C19.1  three-way partition by complementary predicates over two key dictionaries built by the same function:
         compared = {k in D1 | k in D2}, first-only = {k in D1 | k not in D2}, second-only = {k in D2 | k not in D1};
         the 1/2 roles of wrapper constructors, enum members and counters agree
  C19.2  counters are exhaustive and disjoint over the row kinds (overlapping: identity > 0; non-overlapping: BOTH and
         not overlapping; first-only; second-only); only-rows are built with identity 0; rows are passed on unchanged
  C19.3  symmetry of the row comparison: difference / coverage for side 2 is the same computation with the arguments
         exchanged; coverage = (|pairs| - |difference|) / |pairs| with 1 for an empty alignment
Declined: bounds in [0,1] and reflexivity as numbers (SequenceMatcher.ratio, list-vs-set lengths with duplicated pairs).
"""
from __future__ import annotations

from ..loader import AnalysisError
from .. import terms as T
from ..terms import C, V
from ..rules.common import explore, where, short, self_attr
from ..rules import role as R


def _inputs_unchanged(ck, cmp_fn):
    """C19.4: the command-line tool compares what the two files hold: the lists handed to AlignmentComparer.compare are the
    reader's results for the first and the second file, as read - nothing is filtered, collapsed or re-keyed in between
    (every (query, reference) key of a file must be classified)"""
    from ..rules.common import path_terms
    from ..rules.common import self_attr
    ck.clause("C19.4", "the two alignment sets compared are the two files' alignments as read (first file first)")
    p = ck.ctx.p
    progs = [c for c in p.classes.values() if c.name == "Program" and c.module.name == "src.compare_alignments"]
    if len(progs) != 1 or "run" not in progs[0].methods:
        raise AnalysisError("compare_alignments.Program.run not found")
    run_fn = progs[0].methods["run"]
    n = 0
    seen = set()
    for pa in explore(ck, run_fn):
        for t, facts, node, kind in path_terms(pa):
            for x in T.subterms(t):
                if x[0] == "app" and x[1] == cmp_fn.qualname and x not in seen:
                    seen.add(x)
                    n += 1
                    a = dict(x[3])
                    w = where(run_fn, node)
                    files = T.mk_attr(T.mk_attr(V(run_fn.self_name), "args"), "alignmentFiles")
                    for k, (pname, arg) in enumerate(list(a.items())[:2]):
                        ok = arg[0] == "app" and arg[1].endswith(".read") and list(dict(arg[3]).values()) == [T.mk_idx(files, C(k))]
                        ck.judge(ok, "C19.4", short(run_fn) + f":set{k + 1}", w,
                                 f"alignment set {k + 1} is what the reader returns for alignment file {k + 1}, unchanged",
                                 found=T.show(arg)[:200], required=f"benchmarkReader.read(self.args.alignmentFiles[{k}])")
    ck.floor("C19.4 compare calls in compare_alignments.Program.run", n, 1)


def identity_measure(ck, rule, rcmp):
    """identity of two pair lists is a similarity *of the lists*: matching blocks over total length, both counted in list entries
    (difflib.SequenceMatcher(None, a, b).ratio()) - so a list compared with itself gives 1 whatever it holds. A quotient whose
    numerator counts distinct pairs (a set) and whose denominator counts list entries is below 1 for a self comparison as soon
    as a pair is listed twice."""
    p = ck.ctx.p
    ck.clause(rule, "identity is a ratio of like counts: SequenceMatcher(None, pairs1, pairs2).ratio() over the two pair lists "
                    "(never distinct pairs over list entries)")
    n = 0
    for pa0 in explore(ck, rcmp):
        if pa0.outcome != "return" or pa0.value[0] != "new":
            continue
        ident = dict(pa0.value[2]).get("identity")
        if ident is None:
            raise AnalysisError(f"{where(rcmp, pa0.node)}: the comparison row has no identity")
        if ident[0] == "c":
            # a compared row whose identity is a constant: the pair lists were not looked at - only an alignment without pairs
            # can justify that (the guard must say so)
            n += 1
            empties = [c0 for c0, tv0, _ in pa0.state.assumptions
                       if (not tv0 and c0[0] in ("v", "attr", "app", "call")) or (tv0 and c0[0] == "not")]
            conds = "; ".join(("" if tv0 else "not ") + T.show(c0)[:70] for c0, tv0, _ in pa0.state.assumptions[-3:])
            if not empties:
                ck.violation(rule, short(rcmp) + ":identity:constant", where(rcmp, pa0.node),
                             f"a compared row is given the identity {ident[1]!r} without its pair lists being compared: whatever the "
                             "short cut assumes about the lists (sorted by reference position, ...), an alignment compared with itself "
                             "must come out with identity 1", found="path under: " + (conds or "<no condition>"),
                             required="identity = SequenceMatcher(None, pairs1, pairs2).ratio() on every path")
            continue
        if ident[0] == "app" and ident[1] in p.functions:
            fn = p.functions[ident[1]]
            vals = [(pa.value, where(fn, pa.node)) for pa in explore(ck, fn) if pa.outcome == "return"]
            params = [V(pp.name) for pp in fn.call_params()]
        else:
            fn = rcmp
            vals = [(ident, where(rcmp, pa0.node))]
            params = None
        for v, w in vals:
            if v[0] == "c":
                continue
            n += 1
            if v[0] == "mcall" and v[2] == "ratio" and v[1][0] == "call" and v[1][1].endswith("SequenceMatcher"):
                a = [x for x in v[1][2][1:]] + [t for k, t in v[1][3] if k in ("a", "b")]
                ok = len(a) == 2 and a[0] != a[1] and (params is None or set(a) == set(params[-2:]))
                ck.judge(ok, rule, short(fn) + ":identity", w, "identity = SequenceMatcher ratio of the two pair lists",
                         found=T.show(v)[:160], required="SequenceMatcher(None, pairs1, pairs2).ratio()")
                continue
            if v[0] == "div":
                num_sets = [x for x in T.subterms(v[1]) if (x[0] == "call" and x[1] in ("set", "frozenset")) or
                            (x[0] == "mcall" and x[2] in ("intersection", "difference", "union", "symmetric_difference"))]
                den_lens = [x for x in T.subterms(v[2]) if x[0] == "call" and x[1] == "len" and x[2] and x[2][0][0] == "v"]
                den_sets = [x for x in T.subterms(v[2]) if x[0] == "call" and x[1] in ("set", "frozenset")]
                if num_sets and den_lens and not den_sets:
                    ck.violation(rule, short(fn) + ":identity", w,
                                 "the identity counts distinct pairs in the numerator and list entries in the denominator: an alignment "
                                 "that lists a pair twice has identity below 1 when compared with itself",
                                 found=T.show(v)[:200], required="SequenceMatcher(None, pairs1, pairs2).ratio() (entries over entries)")
                    continue
            raise AnalysisError(f"{w}: identity measure of a compared row not recognised: {T.show(v)[:160]}")
    ck.floor(f"{rule} identity expressions judged", n, 1)


def _dict_of_zip(dv):
    """dict(zip((key(a) for a in XS), XS)) is the dictionary comprehension {key(a): a for a in XS}"""
    if dv[0] == "call" and dv[1] == "dict" and len(dv[2]) == 1 and dv[2][0][0] == "call" and dv[2][0][1] == "zip" and len(dv[2][0][2]) == 2:
        zk, zv = dv[2][0][2]
        if zk[0] == "comp" and zk[1] in ("gen", "list", "tuple") and len(zk[3]) == 1 and not zk[3][0][1] and zk[3][0][0] == zv:
            kb = [x for x in T.subterms(zk[2]) if x[0] == "bv"]
            if kb and len(set(kb)) == 1:
                return ("comp", "dict", (zk[2], kb[0]), ((zv, ()),))
    return dv


def no_mutable_defaults(ck, rule, modules):
    """A default value is evaluated once, when the function is defined: a list / dict / set default that the function fills is one
    object for the whole process - the second comparison starts with the rows of the first."""
    import ast
    from ..rules.effects import MUTATORS
    p = ck.ctx.p
    ck.clause(rule, "a comparison starts from nothing: no function of the comparer fills (or hands out to be filled) a parameter whose "
                    "default is a list / dict / set display - the default is one object per process, so every later compare() would begin "
                    "with the rows of the earlier ones (counts exceed the number of keys, a set compared with itself gets exclusive keys)")
    n = 0
    n_fn = 0
    hit = False
    for f in p.nontest_functions():
        if f.is_lambda or f.module.name not in modules:
            continue
        n_fn += 1
        a = f.node.args
        pos = a.posonlyargs + a.args
        pairs = list(zip(pos[len(pos) - len(a.defaults):], a.defaults)) + [(k, d) for k, d in zip(a.kwonlyargs, a.kw_defaults) if d is not None]
        for arg, d in pairs:
            n += 1
            mutable = isinstance(d, (ast.List, ast.Dict, ast.Set)) or (
                isinstance(d, ast.Call) and isinstance(d.func, ast.Name) and d.func.id in ("list", "dict", "set", "defaultdict") )
            if not mutable:
                continue
            filled = [x for x in ast.walk(f.node) if isinstance(x, ast.Call) and isinstance(x.func, ast.Attribute)
                      and isinstance(x.func.value, ast.Name) and x.func.value.id == arg.arg and x.func.attr in MUTATORS]
            filled += [x for x in ast.walk(f.node) if isinstance(x, (ast.Assign, ast.AugAssign)) and any(
                isinstance(t, ast.Subscript) and isinstance(t.value, ast.Name) and t.value.id == arg.arg
                for t in (x.targets if isinstance(x, ast.Assign) else [x.target]))]
            filled += [x for x in ast.walk(f.node) if isinstance(x, ast.AugAssign) and isinstance(x.target, ast.Name) and x.target.id == arg.arg]
            handed_out = [x for x in ast.walk(f.node) if isinstance(x, ast.Return) and isinstance(x.value, ast.Name) and x.value.id == arg.arg]
            if filled or handed_out:
                hit = True
                x = (filled or handed_out)[0]
                ck.violation(rule, f"{short(f)}:{arg.arg}:mutable-default", where(f, x),
                             f"parameter `{arg.arg}` defaults to {ast.unparse(d)} - one object for the whole process - and the function "
                             f"{'fills it' if filled else 'hands it out'}: the second call starts with what the first one left",
                             found=ast.unparse(x)[:100], required=f"{arg.arg}=None and a fresh list per call")
    ck.floor(rule + " functions of the comparer modules inspected for defaults", n_fn, 15)
    if not hit:
        ck.ok(rule, "comparer modules", "src/diagnostic/alignment_comparer.py", f"{n} defaults: no mutable default is filled or handed out")


def run(ck):
    ctx = ck.ctx
    p = ctx.p
    ck.clause("C19.1", "three-way partition of the keys by complementary membership tests; consistent 1/2 roles")
    ck.clause("C19.2", "counters exhaustive and disjoint over the row kinds; only-rows have identity 0")
    ck.clause("C19.3", "row comparison is symmetric in its two arguments; coverage formula")
    ck.clause("C19.6", "comparing does not alter what is compared: no store into alignedPairs (attribute, element or in place - a "
                       "shallow copy shares the list) in the comparer: compare(B, A) after compare(A, B) must see the same alignments")
    from ..report import RuleView as _RV19
    from .c02 import records_frozen as _rf19
    _rf19(_RV19(ck, {"C19.6": "C19.6"}, only_files=("src/diagnostic/alignment_comparer.py", "src/diagnostic/benchmark_alignment.py",
                                                    "src/compare_alignments.py")), "C19.6", skip_modules=())
    if ck.wants("C19.7"):
        no_mutable_defaults(ck, "C19.7", ("src.diagnostic.alignment_comparer", "src.diagnostic.benchmark_alignment", "src.compare_alignments"))
    cmp_fn = p.find_method("AlignmentComparer", "compare")
    a1, a2 = [V(pp.name) for pp in cmp_fn.call_params()]
    # the private helper that turns an alignment set into its key dictionary: the one compare applies to each of its two arguments
    # (located by that role - its name is free to change - and kept as a call, not read through)
    import ast as _ast
    by_callee = {}
    for s0 in ctx.cg.sites.get(cmp_fn.qualname, []):
        if len(s0.node.args) == 1 and not s0.node.keywords and isinstance(s0.node.args[0], _ast.Name) \
                and s0.node.args[0].id in (a1[1], a2[1]):
            for c0 in s0.repo_callees():
                if c0.kind == "fn" and c0.fn.name.startswith("_"):
                    by_callee.setdefault(c0.fn.qualname, set()).add(s0.node.args[0].id)
    dict_fns = {q for q, names in by_callee.items() if names == {a1[1], a2[1]}}
    ctx.keep_calls.update(dict_fns)
    _inputs_unchanged(ck, cmp_fn)
    rets_all = [pa for pa in explore(ck, cmp_fn) if pa.outcome == "return"]
    rets = [pa for pa in rets_all if pa.value[0] == "app" and pa.value[1].endswith("AlignmentComparison.create")]
    for pa in rets_all:
        if pa in rets:
            continue
        # an early return without building the rows: only "both sets empty" leaves nothing to report
        conds = [(c, tv) for c, tv, _ in pa.state.assumptions]
        def _set_of(c):
            # the set itself, or its key dictionary (empty exactly when the set is)
            if c in (a1, a2):
                return c
            if c[0] == "app" and c[1] in dict_fns and c[3] and list(dict(c[3]).values())[0] in (a1, a2):
                return list(dict(c[3]).values())[0]
            return None
        flat = []
        for c, tv in conds:
            parts = list(c[1]) if c[0] == "and" and tv else [c]
            for x in parts:
                t0 = tv
                while x[0] == "not":
                    x, t0 = x[1], (not t0)
                flat.append((x, t0))
        empties = {_set_of(c) for c, tv in flat if tv is False and _set_of(c) is not None}
        ck.judge(empties == {a1, a2}, "C19.1", short(cmp_fn) + ":early-return", where(cmp_fn, pa.node),
                 "a comparison is cut short only when both sets are empty: with one empty set the other set's alignments are all "
                 "first-only / second-only rows",
                 found=f"return {T.show(pa.value)[:80]} when " + "; ".join(("" if tv else "not ") + T.show(c)[:60] for c, tv in conds),
                 required="rows built from both dictionaries")
    if len(rets) != 1:
        raise AnalysisError(f"{cmp_fn.where}: compare expected to have a single return that builds the comparison")
    v = rets[0].value
    w = where(cmp_fn, rets[0].node)
    if not (v[0] == "app" and v[1].endswith("AlignmentComparison.create")):
        raise AnalysisError(f"{w}: compare does not return AlignmentComparison.create(...)")
    rows = dict(v[3]).get("rows")
    if rows is None or rows[0] != "concat" or len(rows[1]) != 3:
        raise AnalysisError(f"{w}: rows are not the concatenation of three lists: {T.show(rows)[:200] if rows else None}")
    # the two dictionaries
    dicts = []
    for x in T.subterms(rows):
        if x[0] == "app" and x[3] and len(x[3]) == 1 and list(dict(x[3]).values())[0] in (a1, a2) and \
                ("Dict" in x[1] or x[1] in dict_fns):
            if x not in dicts:
                dicts.append(x)
    if len(dicts) != 2 or dicts[0][1] != dicts[1][1]:
        raise AnalysisError(f"{w}: the two key dictionaries are not built by one function applied to each input")
    D1 = [d for d in dicts if list(dict(d[3]).values())[0] == a1][0]
    D2 = [d for d in dicts if list(dict(d[3]).values())[0] == a2][0]
    ck.ok("C19.1", short(cmp_fn) + ":dictionaries", w, f"both key dictionaries come from {short(D1[1])}")
    # the key identifies an alignment by BOTH ids; every alignment of the list gets an entry
    dict_fn = p.get_function(D1[1])
    from ..rules.common import merged_return
    dv, dpa = merged_return(ck, dict_fn)
    dparam = V(dict_fn.call_params()[0].name)
    okd = False
    found = T.show(dv)[:200]
    dv = _dict_of_zip(dv)
    if dv[0] == "comp" and dv[1] == "dict" and len(dv[3]) == 1 and not dv[3][0][1]:
        (k, val), src = dv[2], dv[3][0][0]
        while src[0] == "call" and src[1] in ("sorted", "list", "tuple", "reversed") and src[2]:
            src = src[2][0]
        bvs = [x for x in T.subterms(val) if x[0] == "bv"]
        if k[0] == "tuple" and len(k[1]) == 2 and val[0] == "bv" and src == dparam:
            attrs = {x[2] for x in k[1] if x[0] == "attr" and x[1] == val}
            okd = attrs == {"queryId", "referenceId"}
    ck.judge(okd, "C19.1", short(dict_fn) + ":key", where(dict_fn, dpa.node),
             "alignments are keyed by (query id, reference id) - both ids, each alignment of the list under its own key",
             found=found, required="{(a.queryId, a.referenceId): a for a in alignments}")
    kinds = {}
    for part in rows[1]:
        if part[0] != "comp" or len(part[3]) != 1:
            raise AnalysisError(f"{w}: row list not recognised: {T.show(part)[:160]}")
        elt = part[2]
        it, ifs = part[3][0]
        if elt[0] != "app":
            raise AnalysisError(f"{w}: row constructor not recognised: {T.show(elt)[:120]}")
        name = elt[1].split(".")[-1]
        kinds[name] = (elt, it, ifs, part)
    both = [k for k in kinds if k == "compare"]
    only1 = [k for k in kinds if R.roles_of_tokens(R.tokens(k)).get("1/2") == 0]
    only2 = [k for k in kinds if R.roles_of_tokens(R.tokens(k)).get("1/2") == 1]
    if len(both) != 1 or len(only1) != 1 or len(only2) != 1:
        raise AnalysisError(f"{w}: expected compared / first-only / second-only row lists, found {sorted(kinds)}")
    # compared rows
    elt, it, ifs, part = kinds[both[0]]
    bv = [x for x in T.subterms(elt) if x[0] == "bv"][0]
    key, val = T.mk_idx(bv, C(0)), T.mk_idx(bv, C(1))
    ok = it == ("mcall", D1, "items", (), ()) and list(ifs) == [("in", key, D2)] and \
        dict(elt[3]) == {"alignment1": val, "alignment2": T.mk_idx(D2, key)}
    if not ok and it == D1 and list(ifs) == [("in", bv, D2)]:
        ok = dict(elt[3]) == {"alignment1": T.mk_idx(D1, bv), "alignment2": T.mk_idx(D2, bv)}
    if not ok and it[0] == "comp" and len(it[3]) == 1 and it[3][0][0] == D1 and it[2][0] == "bv" and \
            list(it[3][0][1]) == [("in", it[2], D2)] and not ifs:
        # the shared keys named first: [compare(D1[k], D2[k]) for k in [k for k in D1 if k in D2]]  (iterating a dict gives its keys)
        ok = dict(elt[3]) == {"alignment1": T.mk_idx(D1, bv), "alignment2": T.mk_idx(D2, bv)}
    ck.judge(ok, "C19.1", short(cmp_fn) + ":compared", w, "compared rows = keys of the first set that are in the second, paired with "
             "the second set's alignment of the same key", found=T.show(part)[:300],
             required="[compare(a1, D2[k]) for k, a1 in D1.items() if k in D2]")
    # only rows
    helper_q = None
    for side, names, src, tgt in (("1", only1, D1, D2), ("2", only2, D2, D1)):
        elt, it, ifs, part = kinds[names[0]]
        if it == ("mcall", src, "items", (), ()):
            # the selection written in place: [only(a) for k, a in D.items() if k not in other]
            bvs = [x for x in T.subterms(part) if x[0] == "bv"]
            okin = bool(bvs) and list(ifs) == [("notin", T.mk_idx(bvs[0], C(0)), tgt)] and \
                [v for _, v in elt[3]] == [T.mk_idx(bvs[0], C(1))]
            ck.judge(okin, "C19.1", short(cmp_fn) + f":only{side}", w,
                     f"{names[0]} rows = alignments whose key is in set {side} and not in the other set",
                     found=T.show(part)[:200], required=f"[only(a) for k, a in D{side}.items() if k not in D{'2' if side == '1' else '1'}]")
            continue
        if it[0] != "app":
            raise AnalysisError(f"{w}: source of the {names[0]} rows not recognised: {T.show(it)[:120]}")
        helper_q = it[1]
        hp0 = [pp.name for pp in p.get_function(helper_q).call_params()]
        a = dict(it[3])
        a_src, a_tgt = (a.get(hp0[0]), a.get(hp0[1])) if len(hp0) >= 2 else (None, None)
        ck.judge(a_src == src and a_tgt == tgt and not ifs, "C19.1", short(cmp_fn) + f":only{side}", w,
                 f"{names[0]} rows = alignments whose key is in set {side} and not in the other set",
                 found=f"source={T.show(a_src)[:60] if a_src else None}, target={T.show(a_tgt)[:60] if a_tgt else None}",
                 required=f"notMatching(D{side}, D{'2' if side == '1' else '1'})")
    helper = p.get_function(helper_q) if helper_q else None
    hps = [V(pp.name) for pp in helper.call_params()] if helper else []
    for pa in (explore(ck, helper) if helper else ()):
        if pa.outcome != "return":
            continue
        hv = pa.value
        okh = hv[0] == "comp" and len(hv[3]) == 1 and hv[3][0][0] == ("mcall", hps[0], "items", (), ()) and \
            len(hv[3][0][1]) == 1 and hv[3][0][1][0][0] == "notin" and hv[3][0][1][0][2] == hps[1] and \
            hv[3][0][1][0][1] == T.mk_idx([x for x in T.subterms(hv[2]) if x[0] == "bv"][0], C(0)) and \
            hv[2] == T.mk_idx([x for x in T.subterms(hv[2]) if x[0] == "bv"][0], C(1))
        if not okh and any((c0 == hps[1] and tv0 is False) or (c0 == ("not", hps[1]) and tv0 is True) for c0, tv0, _ in pa.state.assumptions) and \
                hv in (T.mk_call("list", [("mcall", hps[0], "values", (), ())]), ("mcall", hps[0], "values", (), ())):
            okh = True                    # `if not target: return list(source.values())`: the same selection for an empty target
        ck.judge(bool(okh), "C19.1", short(helper), where(helper, pa.node),
                 "not-matching = values of source whose key is not in target (the complement of the compared rows' test)",
                 found=T.show(hv)[:200], required="[a for k, a in source.items() if k not in target]")
    # the dictionary key is (queryId, referenceId) and the later duplicate wins deterministically
    todict = p.get_function(D1[1])
    for pa in explore(ck, todict):
        if pa.outcome == "return":
            dv = _dict_of_zip(pa.value)
            okd = dv[0] == "comp" and dv[1] == "dict"
            if okd:
                k, val = dv[2]
                bvk = [x for x in T.subterms(k) if x[0] == "bv"]
                okd = k[0] == "tuple" and {T.show(e) for e in k[1]} == {f"${bvk[0][1]}.queryId", f"${bvk[0][1]}.referenceId"} and val == bvk[0]
            ck.judge(bool(okd), "C19.1", short(todict), where(todict, pa.node), "alignments are keyed by (queryId, referenceId)",
                     found=T.show(dv)[:200])
    # wrapper constructors: enum member and slot roles
    rc = p.find_class("AlignmentRowComparison")
    for name, side in ((only1[0], 0), (only2[0], 1)):
        m = rc.methods.get(name)
        if m is None:
            raise AnalysisError(f"{rc.where}: {name} not found")
        for pa in explore(ck, m):
            if pa.outcome != "return" or pa.value[0] != "new":
                continue
            a = dict(pa.value[2])
            wv = where(m, pa.node)
            ty = a.get("type")
            member = ty[2] if ty and ty[0] == "attr" else ""
            want_member = "FIRST_ONLY" if side == 0 else "SECOND_ONLY"
            ck.judge(member == want_member, "C19.1", short(m) + ":type", wv, f"{name} rows are tagged {want_member}",
                     found=member or T.show(ty), required=want_member)
            prm = V(m.call_params()[0].name)
            slot, other = ("alignment1", "alignment2") if side == 0 else ("alignment2", "alignment1")
            ck.judge(a.get(slot) == prm and a.get(other) is not None and a.get(other) != prm and a[other][0] == "attr" and a[other][2] == "null",
                     "C19.1", short(m) + ":slots", wv, f"the alignment sits in the {slot} slot, the other slot is the null alignment",
                     found=f"{slot}={T.show(a.get(slot, C(None)))}, {other}={T.show(a.get(other, C(None)))}")
            ck.judge(a.get("identity") == C(0) and a.get("alignment1Coverage") == C(0) and a.get("alignment2Coverage") == C(0),
                     "C19.2", short(m) + ":zero-measures", wv, "only-rows carry identity 0 (they can never count as overlapping)",
                     found=f"identity={T.show(a.get('identity', C(None)))}")
    # ---- C19.2 counters
    create = p.find_method("AlignmentComparison", "create")
    rowsv = V("rows")
    # a counter computed from itertools.groupby sees only *adjacent* equal keys: unless the rows are sorted by that key, later
    # groups overwrite earlier ones and rows go uncounted
    from .c05 import groupby_inputs_sorted
    groupby_inputs_sorted(ck, "C19.2", only_functions={"AlignmentComparison.create"})
    for pa in explore(ck, create):
        if pa.outcome != "return" or pa.value[0] != "new":
            continue
        a = dict(pa.value[2])
        wc = where(create, pa.node)
        enum_q = None

        def count_pred(t):
            """the predicate over rows that a counter counts: len([r for r in rows if P]) / sum(1 for r in rows if P)"""
            inner = t
            if inner[0] == "call" and inner[1] == "len" and inner[2]:
                inner = inner[2][0]
                if inner[0] == "comp" and inner[3][0][0] == rowsv and inner[2][0] == "bv":
                    return T.mk_and(list(inner[3][0][1])), inner[2]
            if inner[0] == "call" and inner[1] == "sum" and inner[2]:
                inner = inner[2][0]
                if inner[0] == "comp" and inner[3][0][0] == rowsv and inner[2] == C(1):
                    bvs = [x for c in inner[3][0][1] for x in T.subterms(c) if x[0] == "bv"]
                    return T.mk_and(list(inner[3][0][1])), (bvs[0] if bvs else ("bv", 0))
            return None
        preds = {}
        for name in ("overlapping", "nonOverlapping", "firstOnly", "secondOnly"):
            r = count_pred(a.get(name)) if a.get(name) is not None else None
            if r is None:
                raise AnalysisError(f"{wc}: counter {name} not recognised: {T.show(a.get(name))[:160] if a.get(name) else None}")
            pred, bv = r
            preds[name] = T.substitute(pred, {bv: ("bv", 0)})
        row = ("bv", 0)
        ov = T.mk_attr(row, "overlapping")
        ty = T.mk_attr(row, "type")

        def member(t):
            return t[2] if t[0] == "attr" and t[1][0] == "cls" else None
        ck.judge(preds["overlapping"] == ov, "C19.2", short(create) + ":overlapping", wc, "overlapping = rows with identity > 0",
                 found=T.show(preds["overlapping"]))
        no = preds["nonOverlapping"]
        parts = list(no[1]) if no[0] == "and" else [no]
        eqs = [x for x in parts if x[0] == "eq"]
        ok_no = T.mk_not(ov) in parts and len(eqs) == 1 and ty in (eqs[0][1], eqs[0][2]) and \
            "BOTH" in [member(eqs[0][1]), member(eqs[0][2])] and len(parts) == 2
        ck.judge(ok_no, "C19.2", short(create) + ":nonOverlapping", wc, "non-overlapping = BOTH rows that are not overlapping",
                 found=T.show(no)[:200], required="row.type == BOTH and not row.overlapping")
        for cname, want_member in (("firstOnly", "FIRST_ONLY"), ("secondOnly", "SECOND_ONLY")):
            pr = preds[cname]
            okm = pr[0] == "eq" and ty in (pr[1], pr[2]) and want_member in [member(pr[1]), member(pr[2])]
            ck.judge(okm, "C19.2", short(create) + ":" + cname, wc, f"{cname} counts exactly the {want_member} rows",
                     found=T.show(pr)[:160], required=f"row.type == {want_member}")
        ck.judge(a.get("rows") == rowsv, "C19.2", short(create) + ":rows", wc, "all rows are passed on unchanged", found=T.show(a.get("rows", C(None))))
        # averages only over the overlapping rows, guarded against an empty list
        for avg, attr in (("avgAlignment1Coverage", "alignment1Coverage"), ("avgAlignment2Coverage", "alignment2Coverage"),
                          ("avgIdentity", "identity")):
            t = a.get(avg)
            attrs = [x[2] for x in T.subterms(t) if x[0] == "attr" and x[1][0] == "bv" and x[2] != "overlapping"] if t else []
            ok_a = t is not None and t[0] == "select" and attrs and set(attrs) == {attr} and t[3] == C(0)
            ck.judge(bool(ok_a), "C19.2", short(create) + ":" + avg, wc, f"{avg} averages {attr} over the overlapping rows (0 when none)",
                     found=T.show(t)[:160] if t else "None")
    # overlapping property
    ovp = p.lookup_method(rc, "overlapping", None)
    if ovp is None:
        raise AnalysisError("AlignmentRowComparison.overlapping not found")
    for pa in explore(ck, ovp):
        if pa.outcome == "return":
            ck.judge(T.as_bool(pa.value) == T.mk_gt(self_attr("identity"), C(0)), "C19.2", short(ovp), where(ovp, pa.node),
                     "a row is overlapping iff identity > 0", found=T.show(pa.value), required="self.identity > 0")
    # enum members are distinct
    en = p.find_class("AlignmentRowComparisonResultType")
    vals = {}
    for k, ve in en.class_assigns.items():
        vals[k] = ast_const(ve)
    ck.judge(len(set(map(str, vals.values()))) == len(vals) and {"BOTH", "FIRST_ONLY", "SECOND_ONLY"} <= set(vals), "C19.2",
             "AlignmentRowComparisonResultType", en.where, "the three row kinds are distinct enum members", found=str(vals))

    # ---- C19.3 symmetry
    rcmp = p.find_method("AlignmentRowComparer", "compare")
    x1, x2 = [V(pp.name) for pp in rcmp.call_params()]
    identity_measure(ck, "C19.5", rcmp)
    for pa in explore(ck, rcmp):
        if pa.outcome != "return" or pa.value[0] != "new":
            continue
        a = dict(pa.value[2])
        wr = where(rcmp, pa.node)
        swap = {x1: ("v", "#tmp")}

        def swapped(t):
            t = T.substitute(t, {x1: ("v", "#a"), x2: ("v", "#b")})
            return T.substitute(t, {("v", "#a"): x2, ("v", "#b"): x1})
        for l, r in (("alignment1ExclusivePairs", "alignment2ExclusivePairs"), ("alignment1Coverage", "alignment2Coverage")):
            ck.judge(a.get(l) is not None and swapped(a.get(l)) == a.get(r), "C19.3", short(rcmp) + f":{l}<->{r}", wr,
                     f"{r} is {l} with the two alignments exchanged", found=T.show(a.get(r))[:200] if a.get(r) else "None")
        ck.judge(a.get("alignment1") == x1 and a.get("alignment2") == x2, "C19.3", short(rcmp) + ":slots", wr,
                 "alignment1 / alignment2 slots hold the first / second argument",
                 found=f"{T.show(a.get('alignment1', C(None)))}, {T.show(a.get('alignment2', C(None)))}")
        ty = a.get("type")
        ck.judge(ty is not None and ty[0] == "attr" and ty[2] == "BOTH", "C19.3", short(rcmp) + ":type", wr, "compared rows are tagged BOTH",
                 found=T.show(ty) if ty else "None")
        cov = a.get("alignment1Coverage")
        if cov is not None and cov[0] == "app":
            ca = dict(cov[3])
            dif = a.get("alignment1ExclusivePairs")
            ck.judge(ca.get("difference") == dif and dif is not None and dif[0] == "app" and dict(dif[3]).get("pairs") == ca.get("pairs"),
                     "C19.3", short(rcmp) + ":coverage-args", wr, "coverage of a side is computed from that side's pairs and its own difference",
                     found=T.show(cov)[:200])
    # the two private helpers are taken from the comparison row itself (their names are free to change)
    cov_q = dif_q = None
    for pa0 in explore(ck, rcmp):
        if pa0.outcome == "return" and pa0.value[0] == "new":
            a0 = dict(pa0.value[2])
            c0, d0 = a0.get("alignment1Coverage"), a0.get("alignment1ExclusivePairs")
            if c0 is not None and c0[0] == "app":
                cov_q = c0[1]
            if d0 is not None and d0[0] == "app":
                dif_q = d0[1]
    cov_fn = p.functions.get(cov_q) if cov_q else None
    dif_fn = p.functions.get(dif_q) if dif_q else None
    if cov_fn is None and dif_fn is None and c0 is not None and d0 is not None and c0[0] != "app" and d0[0] != "app":
        # both helpers were read through (moved / inlined): the row's fields are judged as they stand
        from ..rules.common import set_difference
        inner = d0[2][0] if d0[0] == "call" and d0[1] == "sorted" and d0[2] else d0
        sd = set_difference(inner)
        if not sd:
            raise AnalysisError(f"{rcmp.where}: exclusive pairs of the comparison row not recognised: {T.show(d0)[:160]}")
        P = sd[0]
        nP = T.mk_call("len", [P])
        want0 = T.mk_select(P, ("div", T.p_sub(nP, T.mk_call("len", [d0])), nP), C(1))
        ck.judge(c0 == want0, "C19.3", short(rcmp) + ":coverage", rcmp.where,
                 "coverage = (|pairs| - |difference|) / |pairs|, and 1 for an alignment without pairs", found=T.show(c0)[:200],
                 required=T.show(want0)[:200])
        ck.ok("C19.3", short(rcmp) + ":difference", rcmp.where, "difference = pairs of this side that the other side lacks", T.show(d0)[:160])
        n = R.run_role_rule(ck, "C19.1", modules={"src.diagnostic.alignment_comparer", "src.compare_alignments"})
        ck.floor("C19 role bindings judged", n, 20)
        return
    if cov_fn is None:
        cov_fn = p.find_method("AlignmentRowComparer", "__getCoverage")
    if dif_fn is None:
        dif_fn = p.find_method("AlignmentRowComparer", "__getDifference")
    from ..rules.common import merged_return
    cov_v, cov_pa = merged_return(ck, cov_fn)
    cps = [pp.name for pp in cov_fn.call_params()]
    if len(cps) != 2:
        raise AnalysisError(f"{cov_fn.where}: the coverage helper is expected to take (pairs, difference)")
    pairs, diff = V(cps[0]), V(cps[1])
    n = T.mk_call("len", [pairs])
    want = T.mk_select(pairs, ("div", T.p_sub(n, T.mk_call("len", [diff])), n), C(1))
    ck.judge(cov_v == want, "C19.3", short(cov_fn), where(cov_fn, cov_pa.node),
             "coverage = (|pairs| - |difference|) / |pairs|, and 1 for an alignment without pairs", found=T.show(cov_v),
             required=T.show(want))
    dps = [pp.name for pp in dif_fn.call_params()]
    if len(dps) != 2:
        raise AnalysisError(f"{dif_fn.where}: the difference helper is expected to take (pairs, otherPairs)")
    for pa in explore(ck, dif_fn):
        if pa.outcome == "return":
            v2 = pa.value
            inner = v2[2][0] if v2[0] == "call" and v2[1] == "sorted" and v2[2] else v2
            from ..rules.common import set_difference
            okd = set_difference(inner) == (V(dps[0]), V(dps[1]))
            ck.judge(bool(okd), "C19.3", short(dif_fn), where(dif_fn, pa.node), "difference = pairs of this side that the other side lacks",
                     found=T.show(v2)[:160], required=f"set({dps[0]}) - set({dps[1]})")
    n = R.run_role_rule(ck, "C19.1", modules={"src.diagnostic.alignment_comparer", "src.compare_alignments"})
    ck.floor("C19 role bindings judged", n, 20)


def ast_const(e):
    import ast
    try:
        return ast.literal_eval(e)
    except Exception:
        return ast.unparse(e)

"""C13 - segments are maximal positive-scoring runs that respect both thresholds (structural clauses).

  C13.1  strictness of the four threshold predicates, operands located by provenance (not by name):
            constructor rejects  minScore <= 0
            break   iff  ext <= 0  or  ext <= cur - T        (T = breakSegmentThreshold)
            accept  iff  ext > cur                            (strict)
            emit    iff  cur >= minScore
  C13.2  runs are contiguous sub-lists: every non-empty segment is create(P[a:b]) with P the input list, no step and no
         filtering; at a break both cursors restart just after the breaking position and the running score restarts at 0
  C13.3  segments are built through AlignmentSegment.create / EmptyAlignmentSegment only (score = sum, see C04.2)
  C13.4  fallback: a single empty segment when nothing qualifies; the last candidate is emitted after the scan
  C13.5  the scan visits every position exactly once (cursor advances by one; loop runs while cursor <= len - 1)
  C13.12 AlignmentSegment.create never withholds a non-empty run (the builder reads its running maximum back from the candidate);
         judged as the builder calls it: paths that need an optional argument the builder never passes are not its paths
Declined: maximality / "cannot be extended to the right" - properties of the scan as an algorithm.
"""
from __future__ import annotations

import ast
from typing import Dict, List, Optional

from ..loader import AnalysisError, FunctionInfo, mangle
from .. import terms as T
from ..terms import C, V, Term
from ..rules.common import explore, where, short, self_attr, path_terms
from ..rules import effects as E


def run(ck):
    ctx = ck.ctx
    p = ctx.p
    ck.clause("C13.1", "comparison strictness at the four thresholds (operands by provenance)")
    ck.clause("C13.2", "segments are step-less slices of the input; cursors/score reset at a break")
    ck.clause("C13.3", "segments are built only via AlignmentSegment.create / EmptyAlignmentSegment")
    ck.clause("C13.4", "empty-segment fallback and final emission")
    ck.clause("C13.5", "the scan covers every position once")
    ck.clause("C13.11", "every position whose score is added to the running sum is followed by the break test before the scan moves on "
                        "(unless the score just added is known to be positive: only a non-positive score can make the test hold), and "
                        "every step that continues the run offers its prefix to the accept test")
    ck.clause("C13.10", "a break ends the run for good: the candidate kept so far is either emitted or dropped, on every path through the "
                        "break the next run starts from an empty candidate (its running maximum and the prefix it has to beat are its own)")
    ck.clause("C13.6", "a segment's score is exactly the sum of its members' scores (as C04.2): the builder compares its running sum with it")
    from ..report import RuleView
    from . import c04
    c04.ownership(RuleView(ck, {"C04.2": "C13.6"}, only_constructs=("AlignmentSegment.create", "raw-AlignmentSegment", "_AlignmentSegmentBuilder",
                                                                    "AlignmentSegmentsFactory", "EmptyAlignmentSegment", "segment-fields")), rows=False,
                  create_callers=("_AlignmentSegmentBuilder",))       # segments only: result rows are no concern of this property
    ck.clause("C13.12", "AlignmentSegment.create hands back a segment holding the run it was given whenever the run is not empty: the builder "
                        "reads its running maximum back from the candidate (currentSegment.segmentScore), so a create() that withholds a "
                        "non-empty run under a further condition makes the break test and the accept test compare with 0 instead")
    _create_is_total(ck)
    ck.clause("C13.8", "the segment builder works with the configured --minScore and --breakSegmentThreshold: the factory passes both "
                       "through unchanged and unexchanged (as C04.1)")
    c04.wiring(RuleView(ck, {"C04.1": "C13.8"}, only_constructs=("AlignmentSegmentsFactory",)))
    ck.clause("C13.9", "the thresholds a factory applies are its own: the segment-building classes keep no class-level or module-level "
                       "state written at run time (a second factory with other thresholds would change what the first one returns) (as C10.1)")
    from . import c10
    seg_fns = [f for f in p.nontest_functions() if f.module.name in ("src.alignment.segments_factory", "src.alignment.segments")]
    c10.module_state(RuleView(ck, {"C10.1": "C13.9"}), fns=seg_fns, floor=20)
    ck.ok("C13.9", "segment modules:module-state", "src/alignment/segments_factory.py", f"{len(seg_fns)} functions scanned for run-time class / module writes")
    factory = p.find_class("AlignmentSegmentsFactory")
    finit = p.lookup_method(factory, "__init__", None)
    get = p.lookup_method(factory, "getSegments", None)
    if finit is None or get is None:
        raise AnalysisError("AlignmentSegmentsFactory.__init__/getSegments not found")
    fparams = [pp.name for pp in finit.call_params()]
    if len(fparams) < 2:
        raise AnalysisError(f"{finit.where}: factory constructor is expected to take minScore and breakSegmentThreshold")
    # provenance of m and T: factory ctor param -> factory attribute -> builder ctor argument -> builder attribute
    fattr = E.init_param_to_attr(ctx, factory)
    m_param = [n for n in fparams if "min" in n.lower()]
    t_param = [n for n in fparams if "break" in n.lower() or "threshold" in n.lower()]
    if len(m_param) != 1 or len(t_param) != 1:
        raise AnalysisError(f"{finit.where}: cannot tell minScore / breakSegmentThreshold apart among {fparams}")
    m_param, t_param = m_param[0], t_param[0]
    # a threshold that is stored in altered form (e.g. `x or float("inf")`, `abs(x)`) no longer is the configured one
    for prm in (m_param, t_param):
        if prm in fattr:
            continue
        for n in ast.walk(finit.node):
            if isinstance(n, ast.Assign) and len(n.targets) == 1 and isinstance(n.targets[0], ast.Attribute) \
                    and isinstance(n.targets[0].value, ast.Name) and n.targets[0].value.id == finit.self_name \
                    and not isinstance(n.value, ast.Name) \
                    and any(isinstance(x, ast.Name) and x.id == prm for x in ast.walk(n.value)):
                ck.violation("C13.1", f"AlignmentSegmentsFactory.__init__:{prm}:altered", where(finit, n),
                             f"the configured {prm} is stored in altered form: the thresholds the builder compares against are no "
                             f"longer the configured ones for every value (e.g. a configured 0 is falsy)",
                             found=ast.unparse(n)[:140], required=f"self.{n.targets[0].attr} = {prm}")
                fattr[prm] = n.targets[0].attr
                break

    # ---- constructor guard
    n_raise = 0
    for pa in explore(ck, finit, follow=lambda callee: callee.name == "__post_init__"):
        if pa.outcome == "raise":
            n_raise += 1
            conds = [(c, tv) for c, tv, _ in pa.state.assumptions]
            want = T.mk_le(V(m_param), C(0))
            got = [c if tv else T.mk_not(c) for c, tv in conds]
            # a check written against the attribute the parameter was just stored in (dataclass __post_init__) is the same check
            back = {self_attr(a): V(p0) for p0, a in fattr.items()}
            got = [T.substitute(g, back) for g in got]
            ck.judge(got == [want], "C13.1", "AlignmentSegmentsFactory.__init__:minScore-positive", where(finit, pa.node),
                     "constructor rejects minScore <= 0 (minScore must be positive)",
                     found="; ".join(T.show(g) for g in got), required=T.show(want))
    if n_raise == 0:
        ck.violation("C13.1", "AlignmentSegmentsFactory.__init__:minScore-positive", finit.where,
                     "constructor no longer rejects a non-positive minScore (empty segments would qualify)",
                     found="no raising path", required="raise when minScore <= 0")

    # ---- builder
    grets = [pa for pa in explore(ck, get) if pa.outcome == "return"]
    if len(grets) != 1:
        raise AnalysisError(f"{get.where}: factory.getSegments expected to be a single return")
    v = grets[0].value
    news = [x for x in T.subterms(v) if x[0] == "new"]
    if not news:
        raise AnalysisError(f"{get.where}: builder construction not found: {T.show(v)[:160]}")
    bnew = news[0]
    # C13.7 the factory hands the builder's list back as it is (position order): no re-ordering, slicing or filtering on top
    ck.clause("C13.7", "the factory returns the builder's segments unchanged (in position order)")
    direct = (v[0] == "app" and v[2] == bnew) or (v[0] == "mcall" and v[1] == bnew)
    if direct:
        ck.ok("C13.7", "AlignmentSegmentsFactory.getSegments:unchanged", where(get, grets[0].node),
              "segments are returned exactly as the builder produced them", T.show(v)[:100])
    else:
        wrappers = [x[1] for x in T.subterms(v) if x[0] == "call" and T.contains(x, bnew)]
        slices = [x for x in T.subterms(v) if x[0] in ("slice", "comp") and T.contains(x, bnew)]
        if wrappers or slices:
            ck.violation("C13.7", "AlignmentSegmentsFactory.getSegments:unchanged", where(get, grets[0].node),
                         "the factory re-orders / selects among the builder's segments: they are no longer the disjoint runs in position "
                         "order", found=T.show(v)[:200], required="<builder>.getSegments()")
        else:
            raise AnalysisError(f"{where(get, grets[0].node)}: value returned by the factory not recognised: {T.show(v)[:160]}")
    builder = p.classes[bnew[1]]
    battr = E.init_param_to_attr(ctx, builder)
    bargs = dict(bnew[2])
    m_attr = t_attr = pos_attr = peak_attr = None
    for bp, t in bargs.items():
        if t == self_attr(fattr.get(m_param, "?")):
            m_attr = battr.get(bp)
        if t == self_attr(fattr.get(t_param, "?")):
            t_attr = battr.get(bp)
        if t == V("positions"):
            pos_attr = battr.get(bp)
        if t == V("peak"):
            peak_attr = battr.get(bp)
    if None in (m_attr, t_attr, pos_attr):
        raise AnalysisError(f"{get.where}: provenance of minScore / breakSegmentThreshold / positions into the builder not "
                            f"established: {T.show(bnew)[:200]}")
    M, TH, P = self_attr(m_attr), self_attr(t_attr), self_attr(pos_attr)
    ck.ok("C13.1", "provenance", get.where, f"minScore -> builder.{m_attr}, breakSegmentThreshold -> builder.{t_attr}, "
          f"positions -> builder.{pos_attr}")
    # ext: attribute augmented by the score of a position; cur: <attr>.segmentScore where <attr> holds create(...)
    methods = [m for m in builder.methods.values() if m.name != "__init__"]
    ext_attr = None
    seg_attr = None
    end_attr = None
    for m in methods:
        for n in ast.walk(m.node):
            if isinstance(n, ast.AugAssign) and isinstance(n.op, ast.Add) and isinstance(n.target, ast.Attribute) \
                    and isinstance(n.target.value, ast.Name) and n.target.value.id == m.self_name \
                    and any(isinstance(x, ast.Attribute) and x.attr == "score" for x in ast.walk(n.value)):
                ext_attr = mangle(n.target.attr, builder.name)
                # the cursor: self.<positions>[self.<cursor>] somewhere in the same method (the element may be held in a local)
                for x in ast.walk(m.node):
                    if isinstance(x, ast.Subscript) and isinstance(x.value, ast.Attribute) and x.value.attr == pos_attr \
                            and isinstance(x.slice, ast.Attribute) and isinstance(x.slice.value, ast.Name) \
                            and x.slice.value.id == m.self_name:
                        end_attr = mangle(x.slice.attr, builder.name)
            if isinstance(n, ast.Assign) and isinstance(n.targets[0], ast.Attribute) and "create" in ast.unparse(n.value) \
                    and isinstance(n.targets[0].value, ast.Name):
                seg_attr = mangle(n.targets[0].attr, builder.name)
    if ext_attr is None or seg_attr is None or end_attr is None:
        raise AnalysisError(f"{builder.where}: running score / current segment / cursor attributes not located")
    EXT = self_attr(ext_attr)
    CUR = T.mk_attr(self_attr(seg_attr), "segmentScore")
    END = self_attr(end_attr)

    # ---- collect the predicates of the builder (helper predicates inlined, attributes kept symbolic)
    same_class = lambda f: f.cls is builder or (f.enclosing_class is builder)
    conds: Dict[Term, tuple] = {}
    main = None
    for m in methods:
        paths = explore(ck, m, inline=2, inline_ok=same_class, track_heap=False, unroll=(0, 1))
        for pa in paths:
            for e in pa.events:
                if e.kind == "cond":
                    conds.setdefault(T.as_bool(e.term), (m, e.node))
            if pa.outcome == "return" and pa.value is not None and pa.value[0] in ("lt", "le", "or", "and", "not", "eq", "ne"):
                conds.setdefault(T.as_bool(pa.value), (m, pa.node))
        if any(isinstance(n, ast.While) for n in ast.walk(m.node)):
            main = m
        elif main is None and any(isinstance(n, ast.For) and _counts_positions(ck, m, n, pos_attr) for n in ast.walk(m.node)):
            main = m          # the scan written as `for _ in range(len(positions))` (one position per step, see C13.5)
    if main is None:
        raise AnalysisError(f"{builder.where}: scanning loop of the builder not found")

    def atoms_in(t):
        return {a for a in (EXT, CUR, M, TH) if T.contains(t, a)}

    want_break = T.mk_or([T.mk_le(EXT, C(0)), T.mk_le(EXT, T.p_sub(CUR, TH))])
    want_accept = T.mk_gt(EXT, CUR)
    want_emit = T.mk_ge(CUR, M)
    found = {"break": [], "accept": [], "emit": []}
    for c, (m, node) in conds.items():
        a = atoms_in(c)
        for cand in (c, T.mk_not(c)):
            pass
        if EXT in a and (TH in a or M in a):
            found["break"].append((c, m, node))
        elif a == {EXT, CUR}:
            found["accept"].append((c, m, node))
        elif CUR in a and EXT not in a and (M in a or TH in a):
            found["emit"].append((c, m, node))
        elif a == {EXT} and c in (T.mk_le(EXT, C(0)), T.mk_lt(EXT, C(0)), T.mk_not(T.mk_le(EXT, C(0))), T.mk_not(T.mk_lt(EXT, C(0)))):
            found["break"].append((c, m, node))      # break test split into two ifs
    specs = {"break": (want_break, "break iff running score <= 0 or <= current maximum - breakSegmentThreshold "
                                   "(\"non-positive, or falls breakSegmentThreshold or more below its running maximum\")"),
             "accept": (want_accept, "accept iff running score > current maximum (strict: the segment ends at the first "
                                     "position where its maximum is reached)"),
             "emit": (want_emit, "emit iff score >= minScore (\"at least minScore\")")}
    for kind, (want, text) in specs.items():
        items = found[kind]
        if not items:
            raise AnalysisError(f"{builder.where}: the {kind} test of the builder was not found among "
                                f"{[T.show(c) for c in conds]}")
        if len(items) > 1:
            # the same test may be met several times (in a helper's return and, negated, in the `if` that calls it)
            canon = []
            for c, m_, node_ in items:
                c2 = want if (c == want or T.mk_not(c) == want) else c
                if not any(c2 == x for x, _, _ in canon):
                    canon.append((c2, m_, node_))
            items = canon
        if kind == "break" and len(items) > 1:
            combined = T.mk_or([c for c, _, _ in items])
            items = [(combined, items[0][1], items[0][2])]
        c, m, node = items[0]
        ok = c == want or T.mk_not(c) == want
        ck.judge(ok, "C13.1", f"{builder.name}:{kind}-test", where(m, node), text, found=T.show(c), required=T.show(want))

    # ---- C13.11 every step takes the tests
    if ck.wants("C13.11"):
        _every_step_tested(ck, builder, main, methods, same_class, EXT, CUR, END, TH, M, want_accept, found)

    # ---- C13.2 slices and resets
    n_create = 0
    for m in methods:
        for pa in explore(ck, m, track_heap=False, unroll=(0, 1)):
            for t, facts, node, kind in path_terms(pa):
                for x in T.subterms(t):
                    if x[0] == "app" and x[1].endswith("AlignmentSegment.create"):
                        n_create += 1
                        a = dict(x[3])
                        pos = a.get("positions")
                        w = where(m, node)
                        if pos is None or pos[0] != "slice":
                            if pos is not None and pos[0] == "comp":
                                ck.violation("C13.2", f"{builder.name}:slice", w, "segment positions are a filtered selection, not a "
                                             "contiguous run of the input", found=T.show(pos)[:160], required="P[a:b]")
                                continue
                            raise AnalysisError(f"{w}: positions handed to create are not a slice: {T.show(pos)[:120] if pos else None}")
                        ok = pos[1] == P and pos[4] == T.NONE and pos[2][0] == "attr" and pos[3] == END
                        ck.judge(ok, "C13.2", f"{builder.name}:slice", w,
                                 "a segment is the contiguous run input[start:cursor] (no step, no filtering)",
                                 found=T.show(pos), required=f"{T.show(P)}[<start>:{T.show(END)}]")
                        ck.judge(a.get("allPeakPositions") == P, "C13.2", f"{builder.name}:all-positions", w,
                                 "the segment remembers the full position list of its peak", found=T.show(a.get("allPeakPositions", C(None))))
                        start_attr = pos[2]
                        # reset at a break
                        _break_reset(ck, builder, methods, start_attr, END, EXT, self_attr(seg_attr), same_class)
    ck.floor("C13.2 AlignmentSegment.create sites in the builder", n_create, 1)

    # ---- C13.3 constructions
    seg = p.find_class("AlignmentSegment")
    for site in ctx.cg.all_sites({m.qualname for m in builder.methods.values()} | {get.qualname}):
        for c in site.callees:
            if c.kind == "ctor" and p.is_subclass(c.cls, seg) and c.cls is seg:
                ck.violation("C13.3", f"{short(site.caller)}:raw-AlignmentSegment", site.where,
                             "segment constructed with the raw constructor (score not tied to the positions)",
                             found=ast.unparse(site.node)[:120], required="AlignmentSegment.create(...)")
    ck.ok("C13.3", f"{builder.name}:constructions", builder.where, "segments are made by AlignmentSegment.create / "
          "EmptyAlignmentSegment only")

    # ---- C13.4 fallback / final emission, C13.5 scan bounds
    mpaths = explore(ck, main, track_heap=False, unroll=(0, 1))
    emit_fn = found["emit"][0][1]
    def is_empty_list(x):
        return x[0] == "list" and len(x[1]) == 1 and x[1][0][0] == "new" and x[1][0][1].endswith("EmptyAlignmentSegment")
    ret_paths = [pa for pa in mpaths if pa.outcome == "return"]
    combined = plain_results = plain_empty = None
    for pa in ret_paths:
        v = pa.value
        if (v[0] == "orelse" and len(v[1]) == 2 and v[1][0][0] == "attr" and is_empty_list(v[1][1])) or \
                (v[0] == "select" and v[2][0] == "attr" and is_empty_list(v[3]) and T.as_bool(v[1]) in (v[2], T.as_bool(v[2]))):
            combined = pa
        elif v[0] == "attr" and pa.facts.get(v) is True:
            plain_results = pa                     # `if results: return results`
        elif is_empty_list(v) and any(tv is False and k[0] == "attr" for k, tv in pa.facts.items()):
            plain_empty = pa                       # `return [EmptyAlignmentSegment(...)]` when there are none
    first = ret_paths[0] if ret_paths else None
    if first is None:
        raise AnalysisError(f"{main.where}: the builder's main method has no return path")
    ok_fallback = combined is not None or (plain_results is not None and plain_empty is not None)
    ck.judge(ok_fallback, "C13.4", f"{builder.name}:fallback", where(main, first.node),
             "returns the collected segments, or one empty segment if there are none",
             found="; ".join(T.show(pa.value)[:80] for pa in ret_paths[:4]), required="results or [EmptyAlignmentSegment(...)]")
    for pa in ret_paths:
        w = where(main, pa.node)
        after = False
        seen_exit = False
        for e in pa.events:
            if e.kind == "loop-exit":
                seen_exit = True
            elif seen_exit and e.kind == "call" and e.term[0] == "app" and e.term[1] == emit_fn.qualname:
                after = True
            elif seen_exit and e.kind == "cond" and T.as_bool(e.term) in (want_emit, T.mk_not(want_emit)):
                after = True
        ck.judge(after, "C13.4", f"{builder.name}:final-emission", w, "the last candidate is offered for emission after the scan",
                 found=pa.describe()[:160], required="emit test after the loop")
        break
    loops = [n for n in ast.walk(main.node) if isinstance(n, ast.While)]
    from ..norm import Normalizer
    counted = [n for n in ast.walk(main.node) if isinstance(n, ast.For) and _counts_positions(ck, main, n, pos_attr)]
    if not loops and counted:
        # a counted scan: len(positions) steps; it examines every position exactly when each step moves the cursor on by one
        lp = counted[0]
        from ..paths import Explorer
        ex = Explorer(ck.ctx, main, track_heap=False, unroll=(0, 1), follow=lambda callee: callee.enclosing_class is builder)
        body_paths = [q for q in ex.run(body=list(lp.body)) if q.outcome in ("fall", "continue")]
        ck.add_paths(len(body_paths))
        bad = []
        for q in body_paths:
            steps = [e for e in q.events if (e.kind == "aug" and e.extra["target"] == END) or
                     (e.kind == "setattr" and e.extra["target"] == END and e.term != END)]
            n_steps = len({id(e.node) for e in steps})          # `x += 1` is recorded as an aug and as the store it performs
            if n_steps != 1:
                bad.append((q, f"{n_steps} advances"))
        early = [q for q in ex.run(body=list(lp.body)) if q.outcome in ("break", "return")]
        ck.judge(not bad and not early and bool(body_paths), "C13.5", f"{builder.name}:scan-bound", where(main, lp),
                 "the scan takes len(positions) steps and every step moves the cursor on by exactly one position (the last position "
                 "is examined)", found=(bad[0][1] + " on " + bad[0][0].describe()[:160]) if bad else
                 ("the loop can be left early" if early else f"{len(body_paths)} step paths, one advance each"),
                 required="for _ in range(len(positions)) with one cursor advance on every path of the body")
    for pa in mpaths:
        conds_l = [e for e in pa.events if e.kind == "cond" and e.node in loops]
        if conds_l:
            c = T.as_bool(conds_l[0].term)
            want = T.mk_le(END, T.p_sub(T.mk_call("len", [P]), C(1)))
            if c == T.mk_lt(END, T.mk_call("len", [P])):
                c = want             # cursor and length are integers: i < n  <=>  i <= n - 1
            ck.judge(c == want, "C13.5", f"{builder.name}:scan-bound", where(main, conds_l[0].node),
                     "the scan runs while the cursor is <= len(positions) - 1 (the last position is examined)",
                     found=T.show(c), required=T.show(want))
            break
    # cursor advances by exactly one when the run continues
    adv = []
    for pa in mpaths:
        for e in pa.events:
            if e.kind == "aug" and e.extra["target"] == END:
                adv.append((e.extra["op"], e.extra["value"], e))
            if e.kind == "setattr" and e.extra["target"] == END and e.term != END:
                adv.append(("Set", e.term, e))
    ok = bool(adv) and all((op == "Add" and v == C(1)) or (op == "Set" and v == T.p_add(END, C(1))) for op, v, _ in adv)
    ck.judge(ok, "C13.5", f"{builder.name}:cursor-step", main.where, "the cursor advances by exactly one position per step",
             found="; ".join(f"{op} {T.show(v)}" for op, v, _ in adv[:4]) or "no advance found", required="+= 1")


def _counts_positions(ck, m, loop, pos_attr) -> bool:
    """`for <unused> in range(len(self.<positions>))`"""
    from ..norm import norm_in
    try:
        it = norm_in(ck.ctx, m, loop.iter)
    except AnalysisError:
        return False
    P = self_attr(pos_attr)
    return it in (T.mk_call("range", [T.mk_call("len", [P])]), T.mk_call("range", [C(0), T.mk_call("len", [P])])) and \
        isinstance(loop.target, ast.Name) and not any(isinstance(x, ast.Name) and x.id == loop.target.id and x is not loop.target
                                                      for b in loop.body for x in ast.walk(b))


_reset_done = set()


def _break_reset(ck, builder, methods, start_attr, END, EXT, SEG, same_class):
    key = (id(ck), builder.qualname)
    if key in _reset_done:
        return
    _reset_done.add(key)
    found = False
    for m in methods:
        has_loop = any(isinstance(x, (ast.For, ast.While)) for x in ast.walk(m.node))
        if has_loop:
            continue                 # the scan itself: the restart sequence is judged where it is written (or called from)
        params_m = {V(pp.name) for pp in m.call_params()}
        for pa in explore(ck, m, track_heap=True, unroll=(0,), follow=same_class):
            sets = {}
            for e in pa.events:
                if e.kind == "setattr":
                    sets[e.extra["target"]] = (e.term, e.node)
            if start_attr in sets and END in sets and EXT in sets and m.name != "__init__" and any(
                    any(T.contains(sets[k][0], prm) for prm in params_m) for k in (start_attr, END, EXT)):
                continue             # a helper that is told where to restart: judged through its caller, with the argument in place
            if start_attr in sets and END in sets and EXT in sets and m.name != "__init__":
                found = True
                want = T.p_add(END, C(1))
                w = where(m, sets[start_attr][1])
                ck.judge(sets[start_attr][0] == want and sets[END][0] == want, "C13.2", f"{builder.name}:break-reset", w,
                         "after a break both the start and the cursor move just past the breaking position (segments are "
                         "separated by at least one skipped position)",
                         found=f"start={T.show(sets[start_attr][0])}, cursor={T.show(sets[END][0])}", required=T.show(want))
                ck.judge(sets[EXT][0] == C(0), "C13.2", f"{builder.name}:break-score-reset", w,
                         "the running score restarts at 0 after a break", found=T.show(sets[EXT][0]), required="0")
                _candidate_reset(ck, builder, m, start_attr, SEG, same_class)
    if not found:
        raise AnalysisError(f"{builder.where}: the statement sequence that restarts the scan after a break was not found")


def _candidate_after(ck, builder, m, SEG, same_class):
    """Per path of `m` (statement-level calls of the builder's own methods followed): what the candidate attribute holds when the
    path ends - ("set", term), or None when the path leaves it as it was."""
    out = []
    for pa in explore(ck, m, track_heap=True, unroll=(0,), follow=same_class):
        last = None
        for e in pa.events:
            if e.kind == "setattr" and e.extra["target"] == SEG:
                last = ("set", e.term)
        out.append((pa, last))
    return out


def _candidate_reset(ck, builder, m, start_attr, SEG, same_class):
    """C13.10: every path through the statement sequence that restarts the scan leaves an empty candidate behind. The break test
    and the accept test read the candidate's score (C13.1): a candidate of the previous run that stays in place - it was below
    minScore, so it was not emitted - is the 'running maximum' of the next run and the score its prefixes have to beat."""
    n_paths = 0
    for pa, last in _candidate_after(ck, builder, m, SEG, same_class):
        if not any(e.kind == "setattr" and e.extra["target"] == start_attr for e in pa.events):
            continue
        n_paths += 1
        if last is None:
            kept = pa
            conds = [T.show(e.term) for e in kept.events if e.kind == "cond"] if hasattr(kept, "events") else []
            ck.violation("C13.10", f"{builder.name}:break-candidate-reset", m.where,
                         "a break ends the run: the next run starts from an empty candidate on every path (a candidate below minScore "
                         "that survives the break is the running maximum the next run is broken against and the score its prefixes "
                         "have to beat: a qualifying run is cut short or never accepted)",
                         found=f"{T.show(SEG)} is left as it is on a path through the break" +
                               (f" (a path that only tests {'; '.join(conds)[:160]})" if conds else ""),
                         required=f"{T.show(SEG)} = EmptyAlignmentSegment(...) on every path through the break")
            continue
        if last[0] == "set" and last[1][0] == "new" and last[1][1].endswith("EmptyAlignmentSegment"):
            ck.ok("C13.10", f"{builder.name}:break-candidate-reset", m.where, "the candidate is empty after the break")
        else:
            raise AnalysisError(f"{m.where}: what the candidate is after a break is not recognised: "
                                f"{T.show(last[1])[:140] if last[1] is not None else last[0]}")
    if not n_paths:
        raise AnalysisError(f"{m.where}: no path through the break sequence found for the candidate rule")


def _every_step_tested(ck, builder, main, methods, same_class, EXT, CUR, END, TH, M, want_accept, found):
    """C13.11. 'never has a running prefix sum that is non-positive or that falls breakSegmentThreshold or more below its running
    maximum' is a statement about EVERY prefix: a step that adds a score and moves the cursor on without the break test lets a
    prefix through untested (a gap that dips below the bound and is lifted back by the next pair stays inside the segment)."""
    accept_fn = found["accept"][0][1]
    n_steps = 0
    bad = None
    no_accept = None
    for pa in explore(ck, main, inline=2, inline_ok=same_class, track_heap=False, unroll=(1,)):
        evs = pa.events
        for i, e in enumerate(evs):
            if not (e.kind == "aug" and e.extra["target"] == EXT):
                continue
            tested = False
            positive_known = False
            advanced = None
            offered = False
            for f in evs[i + 1:]:
                if f.kind == "cond":
                    c = T.as_bool(f.term)
                    if T.contains(c, EXT) and (T.contains(c, TH) or T.contains(c, CUR) or c in (T.mk_le(EXT, C(0)), T.mk_not(T.mk_le(EXT, C(0))))) \
                            and advanced is None:
                        tested = True
                    if c == want_accept or T.mk_not(c) == want_accept:
                        offered = True
                    if f.node is not None and any(isinstance(x, ast.While) for x in [f.node]):
                        break
                if f.kind == "call" and f.term[0] == "app" and f.term[1] == accept_fn.qualname:
                    offered = True
                if f.kind in ("aug", "setattr") and f.extra and f.extra.get("target") == END and advanced is None:
                    advanced = f
                if f.kind == "loop-exit" or (f.kind == "aug" and f.extra["target"] == EXT):
                    break
            if advanced is None:
                continue                          # a break: the cursor is re-positioned by the restart sequence (C13.2)
            n_steps += 1
            if not tested and not positive_known and bad is None:
                bad = (pa, advanced)
            if tested and not offered and no_accept is None and accept_fn is not main:
                no_accept = (pa, advanced)
    ck.floor("C13.11 continuing steps of the scan explored", n_steps, 1)
    if bad is not None:
        pa, adv = bad
        conds = [T.show(T.as_bool(e.term))[:90] for e in pa.events if e.kind == "cond"][1:3]
        ck.violation("C13.11", f"{builder.name}:break-test-every-step", where(main, adv.node),
                     "a score is added to the running sum and the scan moves on without the break test: the prefix that ends here is never "
                     "compared with 0 or with (running maximum - breakSegmentThreshold) - a stretch of unmatched labels that takes the sum "
                     "below the bound and is lifted back by the following pair stays inside one segment",
                     found="the step is taken under: " + "; ".join(conds), required="the break test after every added score")
    else:
        ck.ok("C13.11", f"{builder.name}:break-test-every-step", main.where, f"{n_steps} continuing step(s): the break test precedes every advance")
    if no_accept is not None:
        raise AnalysisError(f"{where(main, no_accept[1].node)}: a continuing step does not offer its prefix to the accept test")
    # inside the accept procedure nothing comes between entry and the test
    if accept_fn is not main:
        for pa in explore(ck, accept_fn, inline=2, inline_ok=same_class, track_heap=False, unroll=(0, 1)):
            cs = [T.as_bool(e.term) for e in pa.events if e.kind == "cond"]
            if not cs:
                raise AnalysisError(f"{accept_fn.where}: a path through the accept step makes no test at all")
            first = cs[0]
            atoms = list(first[1]) if first[0] in ("and", "or") else [first]
            score_atoms = [a for a in atoms if any(x[0] == "attr" and x[2] == "score" and x[1][0] == "idx" and x[1][2] == END for x in T.subterms(a))]
            if score_atoms and first[0] in ("and", "le", "lt") and not T.contains(first, EXT):
                sc = next(x for x in T.subterms(score_atoms[0]) if x[0] == "attr" and x[2] == "score" and x[1][0] == "idx" and x[1][2] == END)
                if score_atoms[0] == T.mk_gt(sc, C(0)):
                    continue                 # "the next score is positive": a longer prefix with a higher sum is certain to be offered next
                if score_atoms[0] == T.mk_ge(sc, C(0)):
                    ck.violation("C13.11", f"{builder.name}:accept-test-every-step", where(accept_fn, pa.events[0].node if pa.events else accept_fn.node),
                                 "the accept test is skipped when the NEXT score is >= 0: for a next score of exactly 0 the following "
                                 "prefix has the same sum, is accepted in place of this one and the segment ends on a zero-scored member, "
                                 "not 'at the first position where its maximum is reached'",
                                 found=T.show(first)[:140], required="skip only when the next score is > 0 (strictly)")
                    return
            if not (cs[0] == want_accept or T.mk_not(cs[0]) == want_accept or (T.contains(cs[0], EXT) and T.contains(cs[0], CUR))):
                raise AnalysisError(f"{accept_fn.where}: the accept test is preceded by a condition that can skip it and that is not "
                                    f"understood: {T.show(cs[0])[:120]} (a prefix that is a new maximum must be accepted unless a longer "
                                    "one is certain to follow)")
        ck.ok("C13.11", f"{builder.name}:accept-test-every-step", accept_fn.where, "the accept step begins with the accept test")


def _create_is_total(ck):
    """C13.12: on every path through AlignmentSegment.create that does not build an AlignmentSegment the only thing assumed is that the
    positions handed in are empty. A further condition that mentions another parameter of create or the score of the run is reported;
    anything else on such a path is refused."""
    p = ck.ctx.p
    seg = p.find_class("AlignmentSegment")
    create = p.lookup_method(seg, "create", None)
    if create is None:
        raise AnalysisError("AlignmentSegment.create not found")
    params = [pp.name for pp in create.call_params()]
    if not params:
        raise AnalysisError(f"{create.where}: AlignmentSegment.create(positions, ...) expected")
    POS = V(params[0])
    others = [V(n) for n in params[1:]]
    n_full = n_empty = 0
    from .c04 import never_passed_params, assume_absent
    never_passed = never_passed_params(ck, create, ("_AlignmentSegmentBuilder",))
    for pa in explore(ck, create):
        if pa.outcome != "return" or pa.value is None:
            continue
        for conds, leaf in _alternatives(pa.value):
            assumed = assume_absent(list(pa.state.assumptions) + [(c, tv, pa.node) for c, tv in conds], never_passed)
            if assumed is None:
                continue            # a path the builder cannot take: it never passes that optional argument
            n_full, n_empty = _judge_create_leaf(ck, create, seg, POS, others, pa, assumed, leaf, n_full, n_empty)
    ck.floor("C13.12 paths of AlignmentSegment.create that build a segment", n_full, 1)
    ck.floor("C13.12 paths of AlignmentSegment.create that answer with the empty segment", n_empty, 1)
    ck.ok("C13.12", "AlignmentSegment.create:total", create.where, f"{n_full} building path(s), {n_empty} empty path(s) taken only for an empty run")


def _alternatives(t):
    """a conditional expression is read as the paths it stands for: [(conditions assumed, value)]"""
    if t[0] == "select" and len(t) == 4:
        for conds, leaf in _alternatives(t[2]):
            yield [(t[1], True)] + conds, leaf
        for conds, leaf in _alternatives(t[3]):
            yield [(t[1], False)] + conds, leaf
    else:
        yield [], t


def _judge_create_leaf(ck, create, seg, POS, others, pa, assumed, leaf, n_full, n_empty):
    if True:
        builds = any(x[0] == "new" and x[1] == seg.qualname for x in T.subterms(leaf))
        if builds:
            return n_full + 1, n_empty
        n_empty += 1
        extra = []
        known_empty = False
        for c, tv, node in assumed:
            if (c == POS and not tv) or (c == ("not", POS) and tv) or (c == T.mk_not(POS) and tv):
                known_empty = True
            subs = list(T.subterms(c))
            about_score = any(x[0] == "call" and x[1] == "sum" for x in subs) or any(x[0] == "attr" and x[2] in ("score", "segmentScore") for x in subs)
            about_other = any(x in others for x in subs)
            only_pos = any(x == POS for x in subs) and not about_score and not about_other
            if only_pos:
                continue
            extra.append((c, tv, node, about_score or about_other))
        decisive = [e for e in extra if e[3]]
        if known_empty:
            pass                    # the run is empty on this path: whatever else was tested on the way does not withhold anything
        elif decisive:
            c, tv, node, _ = decisive[-1]
            ck.violation("C13.12", "AlignmentSegment.create:non-empty-run-withheld", where(create, node),
                         "create() answers with an empty segment for a run that is not empty, under a condition on the run's score or on a "
                         "further argument: the builder keeps that answer as its candidate and reads the running maximum back from it "
                         "(0 for an empty segment) - a drop by the break threshold below the true maximum no longer breaks the run, and "
                         "the run that is finally emitted is not a maximal one (scores 3, -2, 3 with minScore 4 and threshold 2 come "
                         "back as one segment)", found=("" if tv else "not ") + T.show(c)[:160],
                         required="an empty segment only for an empty run")
        elif not known_empty and not extra and _short_run_withheld(assumed, POS) is not None:
            c, node = _short_run_withheld(assumed, POS)
            ck.violation("C13.12", "AlignmentSegment.create:short-run-withheld", where(create, node),
                         "create() answers with an empty segment for a run of one or more positions (a test on the number of positions "
                         "that is not the emptiness test): a single well-matched label can no longer become the candidate, the running "
                         "maximum read back from the candidate stays 0 for it", found=T.show(c)[:120],
                         required="an empty segment only for an empty run")
        elif not known_empty and not extra:
            raise AnalysisError(f"{where(create, pa.node)}: AlignmentSegment.create returns without building a segment on a path that is "
                                f"not recognised as 'the run is empty': {[T.show(c)[:60] for c, _, _ in pa.state.assumptions]}")
        elif extra:
            raise AnalysisError(f"{where(create, extra[0][2])}: AlignmentSegment.create returns without building a segment under a "
                                f"condition that is not understood: {T.show(extra[0][0])[:160]}")
        return n_full, n_empty


def _short_run_withheld(assumed, POS):
    """an assumption `len(POS) < k` (k >= 2) or `len(POS) <= k` (k >= 1) taken as true: (condition, node), else None"""
    n = T.mk_call("len", [POS])
    for c, tv, node in assumed:
        if not tv or c[0] not in ("lt", "le") or c[1][0] != "poly":
            continue
        items = dict(T.to_poly(c[1]))
        if items.get((n,), 0) != 1 or any(k not in ((n,), ()) for k in items):
            continue
        k = -items.get((), 0)
        if (c[0] == "lt" and k >= 2) or (c[0] == "le" and k >= 1):
            return c, node
    return None

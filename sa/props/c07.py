"""C07 - well-formed input never aborts the run (error discipline on degenerate input; R-GUARD + R-PATH).

Decided (confirmed instance table, DESIGN.md section 4 / C07):
  C07.G1  tuple-unpacking of ``zip(*xs)`` only where xs is provably non-empty on the path
  C07.G2  ``DataFrame.apply(..., axis=1).tolist()`` / ``groupby(..).apply(..).tolist()`` in the readers only under an
          ``.empty`` guard (zero-record XMAP can be read back); sibling agreement with the CMAP reader (G6)
  C07.G3  reductions without identity (max/min/next/ndarray.max/np.max/fmean) over a possibly empty iterable
  C07.G4  the Optional worker result is tested for None before it is dereferenced
  C07.G5  the "query longer than reference" early return dominates every 'valid' correlation of getInitialAlignment
Declined: termination and absence of all exceptions for all well-formed inputs.
"""
from __future__ import annotations

import ast
from typing import Dict, List, Optional, Set

from ..loader import AnalysisError, FunctionInfo
from .. import terms as T
from ..terms import C, V, Term
from ..rules.common import (explore, where, short, nonempty_term, run_reach, path_terms, parallel_map_site,
                            self_attr)
from ..rules.guard import guarded_subterms, truthy_facts

# G3 exceptions: (function, idiom) -> reason.  One named symbol each.
G3_EXCEPTIONS = {
    # keyed by a *public* entry point: the exception covers that function and every private helper / nested function that is
    # called from nowhere else (renaming or extracting such a helper does not change what is guaranteed)
    ("AlignmentResultRow.cigarString", "next"):
        "cigarString returns early when the record has no pair (rule C03.3 checks that guard) and is the only way in",
    ("XmapAlignmentPairWithDistanceParser.parse", "next"):
        "lookup of a map by an id that was written from the same maps",
    ("SimulationAlignmentPairWithDistanceParser.parse", "next"):
        "SDATA benchmark input, outside C07; lookup by id of maps that were read",
}


def _g3_exception(ctx, fn, idiom):
    """the frozen exception whose public entry point is the only way into `fn` (or is `fn` itself)"""
    from ..rules.common import reachable_only_from
    for (root_short, idi), why in G3_EXCEPTIONS.items():
        if idi == idiom and reachable_only_from(ctx, fn, root_short):
            return why
    return None


READER_SCOPE = ("src.parsers.cmap_reader", "src.parsers.xmap_reader")
READER_OBSERVED = ("src.parsers.simulation_data_as_xmap_reader",)


def _nonempty_ext(t: Term, ne: Set[Term]) -> Optional[bool]:
    r = nonempty_term(t, ne)
    if r is not None:
        return r
    tag = t[0]
    if tag in ("list", "tuple") and t[1] and not all(x[0] == "star" for x in t[1]):
        return True
    if tag == "call" and t[1] == "range" and len(t[2]) == 1 and t[2][0][0] == "call" and t[2][0][1] == "len" and len(t[2][0][2]) == 1:
        return _nonempty_ext(t[2][0][2][0], ne)          # range(len(xs))
    if tag == "call" and t[1] in ("numpy.cumsum", "numpy.add", "numpy.array", "numpy.asarray") and t[2]:
        return _nonempty_ext(t[2][0], ne)
    if tag == "slice" and t[2] == T.NONE and t[3] == T.NONE:
        return _nonempty_ext(t[1], ne)
    if tag == "concat":
        rs = [_nonempty_ext(x, ne) for x in t[1]]
        if any(x is True for x in rs):
            return True
    if tag == "comp" and not any(ifs for _, ifs in t[3]):
        rs = [_nonempty_ext(it, ne) for it, _ in t[3]]
        if all(x is True for x in rs):
            return True
    if tag == "call" and t[1] in ("list", "sorted", "enumerate", "tuple", "reversed", "iter") and t[2]:
        return _nonempty_ext(t[2][0], ne)
    return None


def _param_fed_with_groups(ctx, fn, arg):
    """True: `arg` is a parameter of a helper that is new (not on the pinned tree) and every call site passes the group variable of
    a loop / comprehension over itertools.groupby(...). None: a parameter of a new helper, callers not understood. False: not a
    parameter of a new helper (the ordinary rules apply)."""
    from ..norm import is_new_helper
    if not (arg[0] == "v" and is_new_helper(fn) and any(pp.name == arg[1] for pp in fn.call_params())):
        return False
    pidx = [pp.name for pp in fn.call_params()].index(arg[1])
    sites = [s0 for s0 in ctx.cg.all_sites() if not s0.caller.module.is_test and any(c.kind == "fn" and c.fn is fn for c in s0.callees)]
    if not sites:
        return None
    for s0 in sites:
        node = s0.node
        a = None
        if pidx < len(node.args):
            a = node.args[pidx]
        else:
            a = next((k.value for k in node.keywords if k.arg == arg[1]), None)
        if not isinstance(a, ast.Name):
            return None
        fed = False
        for x in ast.walk(s0.caller.node):
            gens = []
            if isinstance(x, ast.For):
                gens = [(x.target, x.iter)]
            elif isinstance(x, (ast.ListComp, ast.GeneratorExp, ast.SetComp, ast.DictComp)):
                gens = [(g.target, g.iter) for g in x.generators]
            for tgt, it in gens:
                if isinstance(tgt, ast.Tuple) and len(tgt.elts) == 2 and isinstance(tgt.elts[1], ast.Name) and tgt.elts[1].id == a.id \
                        and isinstance(it, ast.Call) and ast.unparse(it.func).split(".")[-1] == "groupby":
                    fed = True
        if not fed:
            return None
    return True


def _is_group_of_groupby(arg: Term, enclosing: List[Term]) -> bool:
    """arg is component 1 of an element of itertools.groupby (loop element or comprehension variable)."""
    if arg[0] != "idx" or arg[2] != C(1):
        return False
    b = arg[1]
    if b[0] == "elem":
        it = b[1]
        return it[0] == "call" and it[1].endswith("groupby")
    if b[0] == "bv":
        for comp in enclosing:
            if comp[0] == "comp":
                for k, (it, _ifs) in enumerate(comp[3]):
                    if it[0] == "call" and it[1].endswith("groupby"):
                        return True
    return False


def _receiver_chain(t: Term) -> List[Term]:
    out = []
    cur = t
    while True:
        out.append(cur)
        if cur[0] == "mcall":
            cur = cur[1]
        elif cur[0] in ("idx", "slice", "attr"):
            cur = cur[1]
        else:
            break
    return out


def handlers_never_raise_stopiteration(ck, rule):
    """The -D message handlers run inside the per-query task. `next(it)` without a default raises StopIteration when `it` is empty;
    raised from a task, the iterator that hands the results of the parallel map to its consumer re-raises it from __next__, and the
    consuming `for` loop takes that as the normal end of the results: no error, exit status 0, and the records of this molecule and
    of every later one are missing from the XMAP."""
    p = ck.ctx.p
    ck.clause(rule, "the message handlers of -D never let StopIteration escape: every `next(<iterator>)` in a handler class has a default "
                    "(raised inside a task of the parallel map, StopIteration reads as the end of the results - this molecule and every "
                    "later one silently lose their record)")
    n = 0
    hit = False
    for c in p.classes.values():
        if c.module.is_test or not c.module.name.startswith("src.") or "handle" not in c.methods:
            continue
        for m in c.methods.values():
            n += 1
            for x in ast.walk(m.node):
                if isinstance(x, ast.Call) and isinstance(x.func, ast.Name) and x.func.id == "next" and len(x.args) == 1 and not x.keywords:
                    in_try = any(isinstance(a, ast.Try) and any(y is x for y in ast.walk(a)) and any(
                        h.type is None or "StopIteration" in ast.unparse(h.type) or ast.unparse(h.type) == "Exception" for h in a.handlers)
                        for a in ast.walk(m.node))
                    if in_try:
                        continue
                    names_in_arg = {y.id for y in ast.walk(x.args[0]) if isinstance(y, ast.Name)} - {m.self_name}
                    tested = any(isinstance(i0, (ast.If, ast.IfExp)) and names_in_arg & {y.id for y in ast.walk(i0.test) if isinstance(y, ast.Name)}
                                 for i0 in ast.walk(m.node))
                    if tested:
                        raise AnalysisError(f"{where(m, x)}: next(...) without a default over something the method tests beforehand - "
                                            "whether the test establishes non-emptiness is not decided by this rule")
                    hit = True
                    ck.violation(rule, f"{short(m)}:next", where(m, x),
                                 "`next(...)` without a default in a -D message handler: when the iterator is empty (a benchmark file "
                                 "without a record for this molecule) StopIteration leaves the worker task and ends the parallel map's "
                                 "result stream - the run finishes with exit status 0 and the records of this and all later molecules "
                                 "are missing", found=ast.unparse(x)[:120], required="next(..., None) (the sibling handler does)")
    ck.floor(rule + " methods of handler classes scanned", n, 8)
    if not hit:
        ck.ok(rule, "message handlers", "src/diagnostic/diagnostics.py", f"{n} methods: every next(...) has a default")


def header_lookup_forward_only(ck, rule):
    """QryStartPos / QryEndPos of a '-' record are coordinates of the MIRRORED molecule (length - 1 - p, C02.9): looked up in
    query.positions with list.index they are found only by coincidence, otherwise ValueError - in the parent process, between the
    passes: no XMAP at all. The forward strand is the only one on which a header query coordinate is a label coordinate."""
    p = ck.ctx.p
    ck.clause(rule, "a record's query start / end coordinate is looked up among the query's label coordinates (list.index) only where the "
                    "record is known to be on the forward strand: on '-' the header holds mirrored coordinates, index() raises ValueError "
                    "between the passes and the run ends without output")
    fn = p.find_method("AlignmentResultRow", "getUnalignedFragments")
    if fn is None:
        raise AnalysisError("AlignmentResultRow.getUnalignedFragments not found")
    HEAD = {T.mk_attr(V(fn.self_name), "queryStartPosition"), T.mk_attr(V(fn.self_name), "queryEndPosition")}
    FWD = T.mk_eq(T.mk_attr(V(fn.self_name), "orientation"), C("+"))
    REV = T.mk_attr(V(fn.self_name), "reverseStrand")
    seen = {}
    n_paths = 0
    for pa in explore(ck, fn, unroll=(0, 1)):
        n_paths += 1
        for t, facts, node, kind in path_terms(pa):
            for x in T.subterms(t):
                if not (x[0] == "mcall" and x[2] == "index" and x[1][0] == "attr" and x[1][2] == "positions"):
                    continue
                args = [a for a in x[3]] if isinstance(x[3], tuple) else []
                if not any(h in set(T.subterms(a if not (isinstance(a, tuple) and len(a) == 2 and isinstance(a[0], str) and not isinstance(a[1], str)) else a[1])) for a in args for h in HEAD) \
                        and not any(T.contains(x, h) for h in HEAD):
                    continue
                forward = facts.get(FWD) is True or facts.get(T.as_bool(FWD)) is True or facts.get(REV) is False \
                    or facts.get(T.mk_eq(T.mk_attr(V(fn.self_name), "orientation"), C("-"))) is False
                key = getattr(node, "lineno", 0), T.show(x)[-60:]
                seen[key] = seen.get(key, True) and forward
                seen.setdefault(("node", key), node)
    sites = [k for k in seen if k[0] != "node"]
    for key in sites:
        node = seen[("node", key)]
        construct = f"getUnalignedFragments:index@{key[1].split('.index')[-1]}"
        if seen[key]:
            ck.ok(rule, construct, where(fn, node), "looked up on the forward strand only")
        else:
            ck.violation(rule, construct, where(fn, node),
                         "a header query coordinate is looked up with positions.index(...) on a path where the record may be on the reverse "
                         "strand: QryStartPos / QryEndPos of a '-' record are length - 1 - p, not label coordinates - ValueError '... is not in "
                         "list' between the passes, the whole run ends without output (every multi-pass mode, any partially aligned '-' record)",
                         found=key[1], required="under orientation == '+' (the '-' branch cuts by the label numbers of the aligned pairs)")
    ck.floor(rule + " paths of getUnalignedFragments explored", n_paths, 4)
    if not sites:
        ck.ok(rule, "getUnalignedFragments:index", fn.where, "no header coordinate is looked up in the label list at all")


def pop_loops_test_emptiness(ck, rule):
    """`while <test of xs[-1]>: xs.pop()` evaluates xs[-1] again after every pop: unless the loop condition itself asks whether the
    list still has elements, a list whose every element passes the test ends in IndexError. An `if xs:` in front of the loop
    decides once, before the first pop."""
    p = ck.ctx.p
    ck.clause(rule, "a loop that pops from a list while it tests the list's last (first) element asks in its own condition whether the "
                    "list still has elements: AlignmentSegment.slice strips unaligned labels from the end of what it kept - a window with "
                    "no pair in it would raise IndexError inside conflict resolution and end the run")
    n = 0
    n_fns = 0
    hits = 0
    for f in run_reach(ck.ctx):
        if f.is_lambda:
            continue
        n_fns += 1
        for lp in [x for x in ast.walk(f.node) if isinstance(x, ast.While)]:
            popped = {c.func.value.id for st in lp.body for c in ast.walk(st) if isinstance(c, ast.Call) and isinstance(c.func, ast.Attribute)
                      and c.func.attr == "pop" and isinstance(c.func.value, ast.Name) and len(c.args) <= 1}
            for xs in sorted(popped):
                ends = [x for x in ast.walk(lp) if isinstance(x, ast.Subscript) and isinstance(x.value, ast.Name) and x.value.id == xs
                        and ((isinstance(x.slice, ast.UnaryOp) and isinstance(x.slice.op, ast.USub)) or
                             (isinstance(x.slice, ast.Constant) and x.slice.value == 0))]
                if not ends:
                    continue
                n += 1
                # the condition asks for emptiness: `xs and ...`, `len(xs) ...`, and the subscript comes after it in an `and`
                t = lp.test
                first = t.values[0] if isinstance(t, ast.BoolOp) and isinstance(t.op, ast.And) else None
                if first is None:
                    first = t               # the whole condition: `while xs:` / `while len(xs) > 0:`
                if isinstance(t, ast.Constant) and t.value is True and lp.body and isinstance(lp.body[0], ast.If) \
                        and isinstance(lp.body[0].test, ast.UnaryOp) and isinstance(lp.body[0].test.op, ast.Not) \
                        and isinstance(lp.body[0].test.operand, ast.Name) and lp.body[0].test.operand.id == xs \
                        and isinstance(lp.body[0].body[-1], (ast.Break, ast.Return)):
                    first = lp.body[0].test.operand          # `while True: if not xs: break`
                asks = first is not None and (
                    (isinstance(first, ast.Name) and first.id == xs) or
                    any(isinstance(c, ast.Call) and ast.unparse(c.func) == "len" and c.args and isinstance(c.args[0], ast.Name) and c.args[0].id == xs
                        for c in ast.walk(first)))
                construct = f"{short(f)}:{xs}:pop-loop"
                if asks:
                    ck.ok(rule, construct, where(f, lp), "the loop condition tests the list before it subscripts it")
                    continue
                try_guard = any(isinstance(a, ast.Try) and any(x is lp for x in ast.walk(a)) and any(
                    h.type is None or "IndexError" in ast.unparse(h.type) or "Exception" in ast.unparse(h.type) for h in a.handlers)
                    for a in ast.walk(f.node))
                if try_guard:
                    ck.ok(rule, construct, where(f, lp), "IndexError of the exhausted list is caught")
                    continue
                hits += 1
                ck.violation(rule, construct, where(f, lp),
                             f"`{xs}[-1]` is evaluated again after every `{xs}.pop()` and the loop condition never asks whether `{xs}` "
                             "still has elements: when every element passes the test the last pop is followed by IndexError (a slice "
                             "window that holds only unaligned labels beyond its end - inside the conflict resolution of two overlapping "
                             "segments, in the worker or in the join: the run ends)",
                             found=f"while {ast.unparse(lp.test)[:120]}", required=f"while {xs} and ...")
    ck.floor(rule + " functions of the run path scanned for pop loops", n_fns, 100)
    if not n:
        ck.ok(rule, "run path", "src/", f"{n_fns} functions: no loop pops from a list while it tests an end of it")


def bare_flag_value(ck, rule):
    """argparse: an option declared with nargs='?' may be given WITHOUT a value ([-o [OUTPUTFILE]] in the usage line); the value is
    then `const` - None unless declared - not `default`. An option whose default is a usable object (sys.stdout) and whose consumers
    never test for None turns `coma ... -o` into a run that does all the work and ends with AttributeError on None."""
    from ..rules.common import option_declarations
    p = ck.ctx.p
    ck.clause(rule, "an option that may be given without a value (nargs='?') and has a non-None default declares the value of the bare "
                    "flag (const=...), or its consumers handle None: otherwise `-o` alone ends the run with AttributeError after all the work")
    parse, decls = option_declarations(ck)
    n = 0
    for d in decls:
        kw = {k.arg: k.value for k in d.keywords if k.arg}
        if not (isinstance(kw.get("nargs"), ast.Constant) and kw["nargs"].value == "?"):
            continue
        n += 1
        dest = kw["dest"].value if isinstance(kw.get("dest"), ast.Constant) else None
        flags = [a.value for a in d.args if isinstance(a, ast.Constant)]
        if dest is None:
            long = [f for f in flags if f.startswith("--")]
            dest = (long[0][2:] if long else flags[0].lstrip("-")).replace("-", "_") if flags else None
        default = kw.get("default")
        construct = f"Args.parse:{flags[0] if flags else dest}:bare-flag"
        w = where(parse, d)
        if default is None or (isinstance(default, ast.Constant) and default.value is None):
            ck.ok(rule, construct, w, "the default is None as well: consumers have to handle it anyway")
            continue
        if "const" in kw and not (isinstance(kw["const"], ast.Constant) and kw["const"].value is None):
            ck.ok(rule, construct, w, f"the bare flag yields {ast.unparse(kw['const'])}")
            continue
        handled = False
        for f in p.nontest_functions():
            if f.is_lambda or not f.module.name.startswith("src."):
                continue
            for x in ast.walk(f.node):
                if isinstance(x, ast.Compare) and any(isinstance(o, (ast.Is, ast.IsNot)) for o in x.ops) \
                        and isinstance(x.left, ast.Attribute) and x.left.attr == dest \
                        and any(isinstance(c, ast.Constant) and c.value is None for c in x.comparators):
                    handled = True
                if isinstance(x, ast.BoolOp) and isinstance(x.op, ast.Or) and isinstance(x.values[0], ast.Attribute) and x.values[0].attr == dest:
                    handled = True
        if handled:
            ck.ok(rule, construct, w, "consumers test the value for None")
            continue
        ck.violation(rule, construct, w,
                     f"`{' / '.join(flags)}` may be given without a value (nargs='?'): argparse then stores const - None, not the default "
                     f"{ast.unparse(default)} - and nothing that reads args.{dest} tests for None: the run does all its work and ends "
                     "with AttributeError when the XMAP is written (usage line: [-o [OUTPUTFILE]], help: 'Stdout is used if omitted')",
                     found=f"nargs='?', default={ast.unparse(default)}, no const", required=f"const={ast.unparse(default)}")
    ck.floor(rule + " options that may be given without a value", n, 1)


def rewinds_before_sniffing(ck, rule):
    """A reader that looks at the head of its file parameter, rewinds it (`file.seek(0, 0)`) and then parses it needs the START of
    the file for the look as well. With a fresh handle the two coincide; a handle that is kept in an attribute and handed over
    once per message (the -D handlers read the benchmark file for every plotted alignment) is at EOF from the second call on:
    the head is empty, the format is 'unknown', the exception ends the run."""
    p = ck.ctx.p
    ck.clause(rule, "a reader that rewinds its file parameter after looking at its head also rewinds it before the look whenever a caller "
                    "keeps the handle and passes it again (the -D handlers read the benchmark file once per alignment): otherwise the "
                    "second call sniffs an exhausted handle and raises")
    n_readers = 0
    for f in p.nontest_functions():
        if f.is_lambda or not f.module.name.startswith("src."):
            continue
        for prm in f.call_params():
            seeks = [n for n in ast.walk(f.node) if isinstance(n, ast.Call) and isinstance(n.func, ast.Attribute) and n.func.attr == "seek"
                     and isinstance(n.func.value, ast.Name) and n.func.value.id == prm.name
                     and n.args and isinstance(n.args[0], ast.Constant) and n.args[0].value == 0]
            if not seeks:
                continue
            n_readers += 1
            first_seek = min(seeks, key=lambda n: (n.lineno, n.col_offset))
            early = [n for n in ast.walk(f.node) if isinstance(n, ast.Name) and n.id == prm.name and isinstance(n.ctx, ast.Load)
                     and (n.lineno, n.col_offset) < (first_seek.lineno, first_seek.col_offset)
                     and not any(n is x for s_ in seeks for x in ast.walk(s_))]
            # `file.name`, `file.closed` are no reads of the content
            parents = {c: par for par in ast.walk(f.node) for c in ast.iter_child_nodes(par)}
            early = [n for n in early if not (isinstance(parents.get(n), ast.Attribute) and parents[n].attr in ("name", "closed", "mode"))]
            construct = f"{short(f)}:{prm.name}:rewind"
            if not early:
                ck.ok(rule, construct, where(f, first_seek), "the handle is rewound before it is first read")
                continue
            # who passes a kept handle?
            kept = []
            for site in ck.ctx.cg.all_sites():
                if site.caller.module.is_test or not any(c.kind == "fn" and c.fn is f for c in site.callees):
                    continue
                args = list(site.node.args) + [k.value for k in site.node.keywords]
                for a in args:
                    if isinstance(a, ast.Attribute) and isinstance(a.value, ast.Name) and a.value.id == site.caller.self_name \
                            and site.caller.cls is not None and _is_message_handler(p, site.caller):
                        kept.append((site, a))
            if kept:
                site, a = kept[0]
                ck.violation(rule, construct, where(f, early[0]),
                             f"the head of `{prm.name}` is read before the handle is rewound, and {short(site.caller)} "
                             f"({site.where}) passes the handle it keeps in {ast.unparse(a)} for every message: from the second call on "
                             "the look starts at EOF, nothing is recognised and the exception ends the run (every `-D -a <file>` run "
                             "with two plotted alignments)",
                             found=f"line {early[0].lineno}: `{prm.name}` read; line {first_seek.lineno}: {ast.unparse(first_seek)}",
                             required=f"{ast.unparse(first_seek)} before the first read as well")
            else:
                ck.ok(rule, construct, where(f, first_seek), "looked at, then rewound; no caller keeps the handle across calls")
    ck.floor(rule + " readers that rewind their file parameter", n_readers, 1)


def _is_message_handler(p, fn) -> bool:
    """a method of a class that defines `handle` (dispatcher extension): its object lives for the whole run, the method runs per message"""
    c = fn.cls
    return c is not None and (fn.name == "handle" or "handle" in c.methods)


def none_default_numeric_fields(ck, rule):
    """A constructor field whose default is None and that some code uses as a number (an argument of range(), an operand of
    arithmetic or of an order comparison) must be given a number at every construction: a factory that fills the default in
    (`end or len(c) - 1`) does not help an object that is built around the factory (a subclass calling super().__init__ without it).
    The message handlers of -D run inside the workers: a TypeError there aborts the whole run."""
    p = ck.ctx.p
    ck.clause(rule, "a None-default constructor field that is used as a number is bound to a number at every construction site "
                    "(subclass constructors included): otherwise the use raises TypeError - in a -D plot handler that ends the run")
    classes = [c for c in p.classes.values() if not c.module.is_test and c.module.name.startswith("src.")]
    n_fields = n_sites = 0
    for c in classes:
        init = c.methods.get("__init__")
        if init is None or not init.self_name or c.is_dataclass:
            continue
        a = init.node.args
        pos = a.posonlyargs + a.args
        defaults = dict(zip([x.arg for x in pos[len(pos) - len(a.defaults):]], a.defaults))
        for prm, d in defaults.items():
            if not (isinstance(d, ast.Constant) and d.value is None):
                continue
            stored = [n for n in ast.walk(init.node) if isinstance(n, ast.Assign) and len(n.targets) == 1 and isinstance(n.targets[0], ast.Attribute)
                      and isinstance(n.targets[0].value, ast.Name) and n.targets[0].value.id == init.self_name and n.targets[0].attr == prm
                      and isinstance(n.value, ast.Name) and n.value.id == prm]
            if not stored:
                continue
            # numeric uses of .<prm> anywhere in src/
            uses = []
            for f in p.nontest_functions():
                if f.is_lambda or not f.module.name.startswith("src."):
                    continue
                guarded = any(isinstance(x, ast.Compare) and any(isinstance(o, (ast.Is, ast.IsNot)) for o in x.ops) and
                              any(isinstance(y, ast.Attribute) and y.attr == prm for y in ast.walk(x)) for x in ast.walk(f.node)) or \
                    any(isinstance(x, ast.BoolOp) and isinstance(x.op, ast.Or) and isinstance(x.values[0], ast.Attribute) and x.values[0].attr == prm
                        for x in ast.walk(f.node))
                if guarded:
                    continue
                for x in ast.walk(f.node):
                    args = []
                    if isinstance(x, ast.Call) and isinstance(x.func, ast.Name) and x.func.id in ("range", "int", "float", "round", "abs", "min", "max"):
                        args = list(x.args)
                    elif isinstance(x, ast.BinOp):
                        args = [x.left, x.right]
                    elif isinstance(x, ast.Compare) and all(isinstance(o, (ast.Lt, ast.LtE, ast.Gt, ast.GtE)) for o in x.ops):
                        args = [x.left] + list(x.comparators)
                    for y in args:
                        if isinstance(y, ast.Attribute) and y.attr == prm and not (isinstance(y.value, ast.Name) and y.value.id == "self" and f.cls is not None
                                                                                      and f.cls not in p.mro(c) and c not in p.mro(f.cls)):
                            uses.append((f, x))
            if not uses:
                continue
            n_fields += 1
            family = [k for k in classes if c in p.mro(k)]
            index = [x.arg for x in pos].index(prm) - 1          # position among the call's arguments (self excluded)
            for f in p.nontest_functions():
                if f.is_lambda:
                    continue
                for x in ast.walk(f.node):
                    if not isinstance(x, ast.Call):
                        continue
                    is_super = isinstance(x.func, ast.Attribute) and x.func.attr == "__init__" and isinstance(x.func.value, ast.Call) and \
                        isinstance(x.func.value.func, ast.Name) and x.func.value.func.id == "super" and f.cls is not None and f.cls is not c and \
                        c in p.mro(f.cls) and p.lookup_method(p.mro(f.cls)[1], "__init__", None) is init
                    is_ctor = isinstance(x.func, ast.Name) and any(k.name == x.func.id for k in family) and \
                        p.lookup_method(next(k for k in family if k.name == x.func.id), "__init__", None) is init
                    if not (is_super or is_ctor):
                        continue
                    if any(isinstance(a0, ast.Starred) for a0 in x.args) or any(k.arg is None for k in x.keywords):
                        continue
                    n_sites += 1
                    val = next((k.value for k in x.keywords if k.arg == prm), x.args[index] if len(x.args) > index else None)
                    unbound = val is None or (isinstance(val, ast.Constant) and val.value is None)
                    uf, ux = uses[0]
                    if unbound:
                        ck.violation(rule, f"{short(f)}:{c.name}.{prm}", where(f, x),
                                     f"`{prm}` of {c.name} is left None here, but it is used as a number ({where(uf, ux)}: "
                                     f"`{ast.unparse(ux)[:80]}`): the object built at this site makes that use raise TypeError - reached "
                                     "through a -D plot handler inside a worker, it aborts the whole run for an input the aligner itself "
                                     "handles (a query longer than a reference)", found=ast.unparse(x)[:100].replace("\n", " "),
                                     required=f"{prm}=<a number> (an empty correlation spans [0, 0))")
                    else:
                        ck.ok(rule, f"{short(f)}:{c.name}.{prm}", where(f, x), f"{prm} is bound at this construction", ast.unparse(val)[:60])
    ck.floor(f"{rule} None-default numeric fields found", n_fields, 1)
    ck.floor(f"{rule} construction sites judged", n_sites, 3)


def run(ck):
    ctx = ck.ctx
    p = ctx.p
    ck.clause("C07.G1", "zip(*xs) is tuple-unpacked only where xs is provably non-empty")
    ck.clause("C07.G2", "apply(...).tolist() in the readers is guarded by .empty (zero-record files read back)")
    ck.clause("C07.G3", "reductions without identity have default=/initial= or a dominating non-emptiness guard")
    ck.clause("C07.G4", "Optional worker result tested for None before dereference")
    ck.clause("C07.G5", "query-longer-than-reference early return dominates the 'valid' correlations")
    ck.clause("C07.G7", "argpartition(x, k) is evaluated only under k < len(x)")
    ck.clause("C07.G8", "a query that cannot be placed yields no record: rows without pairs are filtered out")
    ck.assume("external summaries: zip(*[]) yields nothing (unpacking raises); DataFrame.apply(axis=1) on a zero-row "
              "frame returns a DataFrame (no tolist); max/min/next/fmean/ndarray.max raise on empty input without "
              "default/initial; itertools.groupby groups are non-empty")

    fns = [f for f in run_reach(ctx) if not f.is_lambda]
    extra_names = {"XmapReader.readAlignments", "XmapReader.__rowParserFactory"}
    for f in p.nontest_functions():
        if short(f) in extra_names and f not in fns:
            fns.append(f)
    scanned = 0
    g1 = g2 = g3 = 0
    g15 = []
    seen = set()
    ck.clause("C07.G17", "no column is read from a frame built from a possibly empty list of records without columns=")
    ck.clause("C07.G16", "nothing is ordered without key= through objects that define no ordering (ties raise TypeError)")
    ck.clause("C07.G15", "the cross-correlation of a reference window is computed only for a non-empty window vector")
    from ..norm import is_new_helper

    def read_through_callers(f) -> bool:
        """a helper introduced after the pinned tree whose every call is a statement-level call (the path explorer reads such a
        call through the helper's body): it is judged in its callers' context - with their guards - and not on its own, where
        its parameters would be unconstrained"""
        if not is_new_helper(f) or any(isinstance(x, (ast.Yield, ast.YieldFrom)) for x in ast.walk(f.node)):
            return False
        sites = [(g, s) for g in fns for s in ctx.cg.sites.get(g.qualname, []) if any(getattr(c, "fn", None) is f for c in s.repo_callees())]
        if not sites:
            return False
        for g, s in sites:
            par = _parent_map(g.node)
            up = par.get(id(s.node))
            if not (isinstance(up, (ast.Assign, ast.Expr, ast.Return, ast.AnnAssign, ast.AugAssign)) and getattr(up, "value", None) is s.node):
                return False
        return True
    for fn in fns:
        if read_through_callers(fn):
            continue
        paths = explore(ck, fn, unroll=(0, 1), max_paths=4000)
        scanned += 1
        for pa in paths:
            for term, facts, node, kind in path_terms(pa):
                comps: List[Term] = []
                for st, f2 in guarded_subterms(term, facts):
                    if st[0] == "comp":
                        comps.append(st)
                    ne = truthy_facts(f2)
                    # ---------------- G1
                    if st[0] == "call" and st[1] == "zip" and any(a[0] == "star" for a in st[2]) and st is term \
                            and kind == "assign" and isinstance(node, ast.Assign) \
                            and isinstance(node.targets[0], (ast.Tuple, ast.List)):
                        starred = [a[1] for a in st[2] if a[0] == "star"]
                        k = ("G1", fn.qualname, T.show(st))
                        ok = all(_nonempty_ext(s, ne) is True for s in starred)
                        in_try = _inside_try(fn, node)
                        if k not in seen or not ok:
                            if ok or in_try:
                                if k not in seen:
                                    g1 += 1
                                    ck.ok("C07.G1", short(fn), where(fn, node),
                                          "unpacked zip(*xs): xs non-empty on this path" if ok else
                                          "unpacked zip(*xs) inside try/except",
                                          T.show(starred[0])[:300])
                            else:
                                if ("G1v", fn.qualname) not in seen:
                                    g1 += 1
                                    seen.add(("G1v", fn.qualname))
                                    ck.violation("C07.G1", short(fn), where(fn, node),
                                                 "tuple-unpacking of zip(*xs) where xs may be empty "
                                                 "(ValueError: not enough values to unpack) - e.g. a query longer than "
                                                 "every reference selects no seed peak",
                                                 found=T.show(starred[0])[:400],
                                                 required="a non-emptiness guard of xs (or of what it is built from) "
                                                          "on every path to the unpacking",
                                                 path=pa.describe())
                        seen.add(k)
                    # ---------------- G2 / G6
                    if st[0] == "mcall" and st[2] == "tolist":
                        chain = _receiver_chain(st[1])
                        applies = [c for c in chain if c[0] == "mcall" and c[2] == "apply"]
                        if applies and fn.module.name in READER_SCOPE + READER_OBSERVED:
                            k = ("G2", fn.qualname, node.lineno if hasattr(node, "lineno") else 0)
                            guarded = any(f2.get(T.mk_attr(c, "empty")) is False for c in chain) or \
                                any(f2.get(c) is True for c in chain) or \
                                any(T.specialize(T.as_bool(T.mk_attr(c, "empty")), f2, boolpos=True) == C(False) for c in chain)
                            if fn.module.name in READER_OBSERVED:
                                if k not in seen:
                                    ck.observe(f"O4 {where(fn, node)} {short(fn)}: apply(...).tolist() without .empty guard "
                                               f"(SDATA benchmark reader, outside C07/C18)" if not guarded else
                                               f"{where(fn, node)} {short(fn)}: guarded apply(...).tolist()")
                                seen.add(k)
                                continue
                            if guarded:
                                if k not in seen:
                                    g2 += 1
                                    ck.ok("C07.G2", short(fn), where(fn, node), "apply(...).tolist() under an .empty guard",
                                          pa.describe())
                                seen.add(k)
                            else:
                                kv = ("G2v", fn.qualname)
                                if kv not in seen:
                                    g2 += 1
                                    seen.add(kv)
                                    ck.violation("C07.G2", short(fn), where(fn, node),
                                                 "apply(...).tolist() on a frame that may have zero rows "
                                                 "('DataFrame' object has no attribute 'tolist'): a zero-record XMAP "
                                                 "cannot be read back; the sibling CMAP reader guards `.empty`",
                                                 found="no .empty / length guard on the path",
                                                 required="`.empty` (or len) guard dominating .tolist()",
                                                 path=pa.describe())
                    # ---------------- G2 (iteration form): what groupby(..).apply(..) returns is iterated directly
                    its2 = []
                    if st[0] == "comp":
                        its2 = [g0[0] for g0 in st[3]]
                    elif st[0] == "call" and st[1] in ("list", "tuple", "sorted", "iter", "enumerate", "filter", "map") and st[2]:
                        its2 = [st[2][-1]]
                    elif st[0] == "elem":
                        its2 = [st[1]]
                    for it2 in its2:
                        chain2 = _receiver_chain(it2)
                        if fn.module.name in READER_SCOPE and any(
                                c[0] == "mcall" and c[2] == "apply" and any(c2[0] == "mcall" and c2[2] == "groupby" for c2 in _receiver_chain(c[1]))
                                for c in chain2):
                            k2 = ("G2i", fn.qualname)
                            guarded2 = any(f2.get(T.mk_attr(c, "empty")) is False for c in chain2) or any(f2.get(c) is True for c in chain2)
                            if k2 not in seen and not guarded2:
                                seen.add(k2)
                                g2 += 1
                                ck.violation("C07.G2", short(fn) + ":iterated", where(fn, node),
                                             "the result of groupby(..).apply(..) is iterated without an .empty guard: for a table "
                                             "without rows (a header-only CMAP, an id filter that matches nothing) pandas hands back an "
                                             "empty DataFrame, and iterating a DataFrame yields its column names - strings that are then "
                                             "treated as optical maps", found=T.show(it2)[:160],
                                             required="`[] if x.empty else ...` before the result is walked", path=pa.describe())
                    # ---------------- G17: a column of a frame built from a possibly empty list of records
                    if st[0] == "idx" and st[1][0] == "call" and st[1][1].endswith("DataFrame") and st[1][2] \
                            and st[1][2][0][0] in ("comp", "list") and not any(k0 == "columns" for k0, _ in st[1][3]) \
                            and not (st[2][0] == "c" and isinstance(st[2][1], int)):
                        rows17 = st[1][2][0]
                        src17 = rows17[3][0][0] if rows17[0] == "comp" and rows17[3] else rows17
                        k17 = ("G17", fn.qualname, T.show(st[1])[:120])
                        if k17 not in seen and _nonempty_ext(src17, ne) is not True and not (rows17[0] == "list" and rows17[1]):
                            seen.add(k17)
                            ck.violation("C07.G17", short(fn) + ":column-of-empty-frame", where(fn, node),
                                         "a column is taken from a DataFrame built from a list of records without columns=: with zero "
                                         "records the frame has no columns at all and the access raises KeyError (a zero-record output "
                                         "file is a normal outcome: nothing placeable, nothing joinable)",
                                         found=T.show(st)[:200], required="DataFrame(rows, columns=[...]) or no per-column access")
                    # ---------------- G16: ordering without a key over things that define no order
                    if st[0] == "call" and st[1] in ("sorted", "min", "max", "heapq.nlargest", "heapq.nsmallest", "nlargest", "nsmallest") \
                            and not any(k0 == "key" for k0, _ in st[3]):
                        its = [a for a in st[2] if a[0] == "comp"]
                        if its:
                            elt = its[0][2]
                            comps16 = list(elt[1]) if elt[0] == "tuple" else [elt]
                            for pos16, c16 in enumerate(comps16):
                                if c16[0] == "new" and c16[1] in p.classes:
                                    cls16 = p.classes[c16[1]]
                                    ordered = any("__lt__" in k.methods for k in p.mro(cls16)) or any(
                                        "order=True" in d.replace(" ", "") for k in p.mro(cls16) for d in k.decorators) or cls16.is_namedtuple
                                    k16 = ("G16", fn.qualname, T.show(st)[:120])
                                    if not ordered and k16 not in seen:
                                        seen.add(k16)
                                        ck.violation("C07.G16", short(fn) + ":" + st[1], where(fn, node),
                                                     f"{st[1]} without key= orders {'tuples whose component #' + str(pos16) + ' is' if elt[0] == 'tuple' else ''} "
                                                     f"a {cls16.name}, which defines no ordering: as soon as the components before it tie "
                                                     f"(equal scores - certain when both strands correlate identically) Python compares the "
                                                     f"{cls16.name} objects and raises TypeError, in a worker",
                                                     found=T.show(st)[:200], required="key= (or a sort that never reaches the object)")
                    # ---------------- G15: cross-correlation of a *window* of the reference
                    if st[0] == "app" and st[1].endswith("__getCorrelation") or (st[0] == "call" and st[1].endswith("signal.correlate")):
                        args15 = [v for _, v in st[3]] if st[0] == "app" else list(st[2])
                        win = args15[0] if args15 else None
                        if win is not None and win[0] == "app" and win[1].endswith("OpticalMap.getSequence") \
                                and dict(win[3]).get("start") not in (None, C(0)):
                            k15 = ("G15", fn.qualname, T.show(win)[:200])
                            if k15 not in seen:
                                seen.add(k15)
                                g15.append(fn)
                                known_nonempty = _nonempty_ext(win, ne) is True or f2.get(win) is True
                                ck.judge(known_nonempty, "C07.G15", short(fn) + ":window-correlation", where(fn, node),
                                         "the vector of a reference *window* is correlated only when it is not empty: vectorisation "
                                         "stops at the last label, so a window that starts behind the last label of the reference "
                                         "(a seed in its unlabelled tail) gives an empty vector and scipy's correlate raises IndexError",
                                         found="correlate(" + T.show(win)[:140] + ", ...) with no emptiness guard on the path",
                                         required="`if len(referenceSequence) == 0: <no peaks>` (or an equivalent guard) before correlate")
                    # ---------------- G3
                    idiom = None
                    arg = None
                    if st[0] == "call" and st[1] in ("max", "min") and len(st[2]) == 1 and st[2][0][0] != "star" \
                            and not any(k0 == "default" for k0, _ in st[3]):
                        idiom, arg = st[1], st[2][0]
                    elif st[0] == "call" and st[1] == "next" and len(st[2]) == 1:
                        idiom, arg = "next", st[2][0]
                    elif st[0] == "call" and st[1] in ("numpy.max", "numpy.min", "numpy.argmax", "numpy.argmin",
                                                       "numpy.amax", "numpy.amin") and len(st[2]) >= 1 \
                            and not any(k0 == "initial" for k0, _ in st[3]):
                        idiom, arg = st[1], st[2][0]
                    elif st[0] == "call" and st[1] in ("statistics.fmean", "statistics.mean", "statistics.median") \
                            and len(st[2]) == 1:
                        idiom, arg = st[1], st[2][0]
                    elif st[0] == "call" and st[1] in ("numpy.convolve", "numpy.correlate") and len(st[2]) >= 2:
                        idiom, arg = st[1], st[2][0]          # ValueError: a / v cannot be empty
                    elif st[0] == "mcall" and st[2] in ("max", "min", "argmax", "argmin") and not st[3] \
                            and not any(k0 == "initial" for k0, _ in st[4]):
                        idiom, arg = "." + st[2], st[1]
                    if idiom is not None:
                        k = ("G3", fn.qualname, idiom, T.show(st))
                        if k in seen:
                            continue
                        seen.add(k)
                        g3 += 1
                        w = where(fn, node)
                        if _nonempty_ext(_strip_iter(arg), ne) is True:
                            ck.ok("C07.G3", short(fn) + ":" + idiom, w, "argument non-empty on this path", T.show(arg)[:200])
                        elif _is_group_of_groupby(arg, comps):
                            ck.ok("C07.G3", short(fn) + ":" + idiom, w, "argument is a group of itertools.groupby "
                                  "(non-empty by construction)", T.show(arg)[:200])
                        elif _param_fed_with_groups(ctx, fn, arg) is True:
                            ck.ok("C07.G3", short(fn) + ":" + idiom, w, "argument is a parameter of a new private helper that every "
                                  "caller feeds with a group of itertools.groupby (non-empty by construction)", T.show(arg)[:200])
                        elif _param_fed_with_groups(ctx, fn, arg) is None:
                            raise AnalysisError(f"{w}: {idiom}(...) over a parameter of a helper that did not exist on the pinned tree: "
                                                "what its callers pass is not understood")
                        elif _g3_exception(ctx, fn, idiom) is not None:
                            ck.ok("C07.G3", short(fn) + ":" + idiom, w,
                                  "frozen exception: " + _g3_exception(ctx, fn, idiom), T.show(arg)[:200])
                        elif idiom in ("numpy.max", "numpy.amax", ".max") and short(fn) == "OpticalMap.getInitialAlignment" and \
                                _g5_fact(f2) is False:
                            ck.ok("C07.G3", short(fn) + ":" + idiom, w,
                                  "frozen exception: 'valid' correlation of two non-empty vectors, under the G5 guard",
                                  T.show(arg)[:120])
                        else:
                            ck.violation("C07.G3", short(fn) + ":" + idiom, w,
                                         (f"{idiom}(a, v) raises ValueError when `a` is empty, and the vector of a reference window may be "
                                          "empty (a seed in the unlabelled tail of a reference)") if idiom.startswith("numpy.co") else
                                         f"{idiom}(...) without default/initial over an iterable that may be empty",
                                         found=T.show(st)[:300],
                                         required="default= / initial= or a dominating non-emptiness guard",
                                         path=pa.describe())
    ck.extra["functions_scanned"] = scanned
    ck.floor("C07 functions scanned", scanned, 150)
    ck.floor("C07.G1 unpacked zip(*xs) sites", g1, 1)
    ck.floor("C07.G2 apply().tolist() sites in readers", g2, 1)
    # the XMAP reader entry point must have been looked at (with or without the idiom)
    ra = p.find_method("XmapReader", "readAlignments")
    if not any(o.rule == "C07.G2" and o.construct == short(ra) for o in ck.obligations):
        rets = [pa for pa in explore(ck, ra, unroll=(0, 1)) if pa.outcome == "return"]
        ck.floor("C07.G2 return paths of XmapReader.readAlignments", len(rets), 1)
        ck.ok("C07.G2", short(ra), ra.where, "no DataFrame.apply(...).tolist() chain on any return path "
              f"({len(rets)} paths): an empty frame cannot reach tolist()")
    ck.floor("C07.G3 identity-free reductions judged", g3, 6)
    ck.floor("C07.G15 windowed cross-correlations judged", len(g15), 1)

    # ---- positive reference instances for G3: these four carry their identity today
    _g3_reference_instances(ck)
    _g4(ck)
    _g5(ck)
    _g7(ck, fns)
    from .c01 import non_empty_filter
    non_empty_filter(ck, "C07.G8")
    # ---- lookups by equality / unpacking that abort on well-formed input when their argument is altered
    ck.clause("C07.G9", "row header coordinates are the exact label coordinates: getUnalignedFragments finds the cut point with "
                        "positions.index(<header coordinate>), which raises ValueError for an altered (e.g. rounded) value")
    from .c02 import header_derivation
    header_derivation(ck, "C07.G9", exact=True)
    ck.clause("C07.G10", "the additional output file name is built with os.path.splitext (total: any path, with or without an "
                         "extension) - never by unpacking a split of the name")
    from .c08 import _file_naming
    from ..report import RuleView
    _file_naming(RuleView(ck, {"C07.G10": "C07.G10"}, only_constructs=(":name", ":source")), "C07.G10")     # the name only: the open mode cannot abort a run
    _unhashable_in_sets(ck, fns)
    ck.clause("C07.G12", "the join-score denominators are positive (max(..., 1) floor): two segments that touch exactly do not "
                         "divide by zero (as C14.1)")
    from ..report import RuleView
    from . import c14
    c14.join_score(RuleView(ck, {"C14.1": "C07.G12"}, only_constructs=(":variant#",)))      # the quotients only
    ck.clause("C07.G14", "an attribute read in a branch guarded by isinstance(x, K) exists on K (no AttributeError for one of the "
                         "classes the branch is taken for)")
    from ..rules.narrow import findings as narrow_findings
    n_fn = 0
    n_hit = 0
    for f in run_reach(ctx):
        if f.is_lambda:
            continue
        n_fn += 1
        found14 = list(narrow_findings(ctx, f))
        # a branch whose isinstance test can never hold (a dead test, by the declared element type) raises nothing
        dead14 = {ast.unparse(n0.args[0]) for k0, n0, _ in found14 if k0 == "dead-test"}
        for kind, node, text in found14:
            if kind == "missing-attr":
                if isinstance(node, ast.Attribute) and ast.unparse(node.value) in dead14:
                    continue
                n_hit += 1
                ck.violation("C07.G14", short(f) + ":" + ast.unparse(node), where(f, node), text, found=ast.unparse(node),
                             required="an attribute every class of the isinstance test defines")
    ck.floor("C07.G14 functions scanned for attribute reads under isinstance guards", n_fn, 150)
    if not n_hit:
        ck.ok("C07.G14", "run path", "src/", f"{n_fn} functions: every attribute read under an isinstance guard exists on the guarded class(es)")
    none_default_numeric_fields(ck, "C07.G24")
    if ck.wants("C07.G25"):
        rewinds_before_sniffing(ck, "C07.G25")
    if ck.wants("C07.G26"):
        bare_flag_value(ck, "C07.G26")
    if ck.wants("C07.G27"):
        pop_loops_test_emptiness(ck, "C07.G27")
    if ck.wants("C07.G28"):
        header_lookup_forward_only(ck, "C07.G28")
    if ck.wants("C07.G30"):
        handlers_never_raise_stopiteration(ck, "C07.G30")
    ck.clause("C07.G29", "a joined record names the query and the reference of its parts (as C08.6): the reader the program wires up looks "
                         "every record's maps up by id - a record that names a map that is not in the input (ids exchanged) ends the "
                         "read-back with StopIteration")
    if ck.wants("C07.G29"):
        from . import c08 as _c08_29
        from ..report import RuleView as _RV29
        _c08_29._joined_row(_RV29(ck, {"C08.6": "C07.G29"}, only_constructs=(":queryId", ":referenceId")))
    ck.clause("C07.G23", "output directories are created with exist_ok=True: the same command run twice (or two modes into one place) "
                         "must not abort on the directory the first run left - argparse has already truncated the -o file by then")
    n_mk = 0
    for f0 in p.nontest_functions():
        if f0.is_lambda or not (f0.module.name.startswith("src.") or f0.module.name.startswith("sv.")):
            continue
        for node in ast.walk(f0.node):
            if isinstance(node, ast.Call) and isinstance(node.func, ast.Attribute) and node.func.attr in ("makedirs", "mkdir"):
                n_mk += 1
                ok_kw = any(k.arg == "exist_ok" and isinstance(k.value, ast.Constant) and k.value.value is True for k in node.keywords)
                is_os_mkdir = ast.unparse(node.func) == "os.mkdir"
                ck.judge(ok_kw and not is_os_mkdir, "C07.G23", short(f0) + ":" + node.func.attr, where(f0, node),
                         "the directory may already exist", found=ast.unparse(node)[:120], required="exist_ok=True")
    ck.floor("C07.G23 directory creations", n_mk, 1)
    ck.clause("C07.G21", "a row finds its molecule: the original query of a first-pass row is looked up by id in the whole query list (as "
                         "C10.2) - a lookup that can come back empty (rows paired with queries by position, a binary search over an "
                         "unsorted list) ends in an AttributeError on None and the run writes nothing")
    from . import c10 as _c10_07
    _c10_07.lookups(RuleView(ck, {"C10.2": "C07.G21"}, only_constructs=(":original-query", ":queries-argument")))
    ck.clause("C07.G22", "the row lists that resolve hands back hold rows only (as C08.5): a group appended as one element makes the "
                         "writer of the 'joined' mode abort")
    from . import c08 as _c08_07
    _c08_07._resolve_conservation(RuleView(ck, {"C08.5": "C07.G22"}, only_constructs=(":nested-group",)))
    ck.clause("C07.G20", "no option accepts less than it did: a narrowed type or choice list turns a setting the help allows into a usage "
                         "error (exit status 2, no XMAP written)")
    from ..rules.common import option_interface
    option_interface(ck, "C07.G20")
    ck.clause("C07.G18", "the worker pool is never sized by the number of molecules without a floor of 1: the second pass legitimately "
                         "runs on an empty fragment list, and a pool of 0 processes raises ValueError")
    fn18, call18, mapname18, _, _ = parallel_map_site(ctx)
    for k18 in call18.keywords:
        if k18.arg != "num_cpus":
            continue
        exprs = [(fn18, k18.value)]
        for c0 in [x for x in ast.walk(k18.value) if isinstance(x, ast.Call)]:
            for cal in ctx.cg.resolve_call(fn18, c0):
                if cal.kind == "fn":
                    exprs.extend((cal.fn, r.value) for r in ast.walk(cal.fn.node) if isinstance(r, ast.Return) and r.value is not None)
        bad18 = None
        for f18, e18 in exprs:
            for m18 in [x for x in ast.walk(e18) if isinstance(x, ast.Call) and isinstance(x.func, ast.Name) and x.func.id == "min"]:
                sized = any(isinstance(y, ast.Call) and isinstance(y.func, ast.Name) and y.func.id == "len" for a in m18.args for y in ast.walk(a)) \
                    or any(isinstance(a, ast.Name) and any(pp.name == a.id for pp in f18.params) for a in m18.args)
                floored = any(isinstance(y, ast.Call) and isinstance(y.func, ast.Name) and y.func.id == "max" and
                              any(x is m18 for x in ast.walk(y)) for y in ast.walk(e18))
                if sized and not floored:
                    bad18 = (f18, m18)
        if bad18 is not None:
            ck.violation("C07.G18", short(fn18) + ":num_cpus", where(bad18[0], bad18[1]),
                         "the pool size is min(<cpus>, <number of molecules>) without a lower bound: for an empty molecule list (the second "
                         "pass when nothing is left unaligned, a run where no query is placeable) it is 0 and the pool constructor raises",
                         found=ast.unparse(bad18[1])[:120], required="max(1, ...) around it, or the configured value as it is")
        else:
            ck.ok("C07.G18", short(fn18) + ":num_cpus", where(fn18, call18), "the pool size does not shrink with the number of molecules", ast.unparse(k18.value)[:80])
    ck.clause("C07.G19", "a correlation is divided element by element only by an array of the same length for every pair of vector "
                         "lengths: the normalising factor is the same cross-correlation applied to the same reference vector and a vector as "
                         "long as the query vector (scipy's 'valid' mode exchanges its operands when the second is longer; a hand-written "
                         "window sum does not, and the lengths disagree for a reference labelled only at its start)")
    gia = p.find_method("OpticalMap", "getInitialAlignment")
    # the cross-correlation helper, whatever it is called and wherever it lives: a function whose body calls `correlate`
    corr_fns = {f.qualname for f in p.nontest_functions() if not f.is_lambda and any(
        isinstance(c, ast.Call) and (getattr(c.func, "attr", None) == "correlate" or getattr(c.func, "id", None) == "correlate")
        for c in ast.walk(f.node))}
    ctx.keep_calls.update(corr_fns)

    def is_corr(t):
        return (t[0] == "app" and t[1] in corr_fns) or (t[0] == "call" and t[1].endswith("signal.correlate"))

    def corr_args(t):
        return list(dict(t[3]).values()) if t[0] == "app" else list(t[2])
    seen19 = set()
    n19 = 0
    for pa in explore(ck, gia):
        for t19, _f, node19, _k in path_terms(pa):
            for x in T.subterms(t19):
                if x[0] != "div" or x in seen19 or not is_corr(x[1]):
                    continue
                seen19.add(x)
                n19 += 1
                num = x[1]
                na = corr_args(num)
                ref_v, qry_v = na[0], na[1] if len(na) > 1 else None
                same = [y for y in T.subterms(x[2]) if is_corr(y)]
                ok19 = False
                for y in same:
                    ya = corr_args(y)[:2]
                    if len(ya) == 2 and ya[0] == ref_v and ya[1][0] == "call" and ya[1][1] in ("numpy.ones", "numpy.ones_like", "numpy.full") \
                            and (ya[1][2] and (ya[1][2][0] == T.mk_call("len", [qry_v]) or ya[1][2][0] == qry_v or
                                               ya[1][2][0] == T.mk_attr(qry_v, "size") or ya[1][2][0] == T.mk_attr(qry_v, "shape"))):
                        ok19 = True
                w19 = where(gia, node19)
                if ok19:
                    ck.ok("C07.G19", short(gia) + ":normalising-factor", w19, "divided by the same correlation of the reference vector with "
                          "a vector of the query vector's length", T.show(x[2])[:160])
                elif same:
                    raise AnalysisError(f"{w19}: operands of the normalising correlation not recognised: {T.show(x[2])[:200]}")
                else:
                    arrays = [y for y in T.subterms(x[2]) if y[0] in ("slice", "call") and "cumsum" in T.show(y)[:400]]
                    if arrays:
                        ck.violation("C07.G19", short(gia) + ":normalising-factor", w19,
                                     "the correlation is divided by a window sum built by slicing a cumulative sum of the reference vector: "
                                     "its length is len(reference vector) - len(query vector) + 1 and it is empty when the query vector is "
                                     "the longer one, while scipy's 'valid' correlation exchanges its operands and is not - the division "
                                     "raises (a reference labelled only at its start, a query longer than that part)",
                                     found=T.show(x[2])[:240], required="the same correlation applied to (reference vector, ones(len(query vector)))")
                    else:
                        raise AnalysisError(f"{w19}: what the correlation is divided by is not recognised: {T.show(x[2])[:200]}")
    ck.floor("C07.G19 normalised correlations in getInitialAlignment", n19, 1)
    # C07.G13 (persistent state as a cause of aborts) was withdrawn: whether a stale cached array has "another length" than the
    # vector it meets is a run-time quantity; the structural rule (no worker-persistent state at all) fired on changes that leave
    # this property intact (caches keyed completely, id sets, scalars). Such state is C09.3 / C10.1's business, where it is exact.


def _unhashable_in_sets(ck, fns):
    """C07.G11: a set (or dict key set) is built only from hashable things: a repository class that defines __eq__ without
    __hash__ is unhashable, and set(...) over a list that may hold its instances raises TypeError at run time"""
    from ..types import Inst, ListOf
    ctx = ck.ctx
    p = ctx.p
    ck.clause("C07.G11", "no set / dict is built from objects of a class that defines __eq__ without __hash__ (TypeError: unhashable)")

    def unhashable(cls):
        bad = []
        for c in [cls] + p.all_subclasses(cls):
            if c.module.is_test:
                continue
            own_eq = "__eq__" in c.methods
            own_hash = "__hash__" in c.methods
            deco = " ".join(ast.unparse(d) for d in c.node.decorator_list)
            if "dataclass" in deco:
                if "frozen=True" in deco or "unsafe_hash=True" in deco or "eq=False" in deco:
                    continue
                bad.append(c)          # eq=True (default) without frozen: __hash__ is set to None
                continue
            if own_eq and not own_hash:
                bad.append(c)
        return bad
    n = 0
    for f in fns:
        for node in ast.walk(f.node):
            arg = None
            if isinstance(node, ast.Call) and isinstance(node.func, ast.Name) and node.func.id in ("set", "frozenset") and len(node.args) == 1:
                arg = node.args[0]
            elif isinstance(node, ast.SetComp):
                arg = node.elt
            if arg is None:
                continue
            n += 1
            try:
                t = ctx.t.type_of(f, arg)
            except Exception:
                continue
            elem = t.elem if isinstance(t, ListOf) else t
            if isinstance(node, ast.SetComp):
                elem = t
            if isinstance(elem, Inst):
                bad = unhashable(elem.cls)
                if bad:
                    ck.violation("C07.G11", short(f) + ":set", where(f, node),
                                 f"a set is built from `{ast.unparse(arg)[:60]}`, whose elements may be instances of "
                                 f"{', '.join(c.name for c in bad[:3])} - a class with __eq__ but no __hash__ (unhashable): the "
                                 f"run aborts with TypeError as soon as such an element occurs",
                                 found=ast.unparse(node)[:120], required="a list membership test, or a hashable key")
    ck.ok("C07.G11", "set-constructions", "src/", f"{n} set construction(s) on the run path, none over an unhashable repository class") \
        if not any(o.rule == "C07.G11" and o.status == "VIOLATION" for o in ck.obligations) else None


def _strip_iter(t: Term) -> Term:
    while t[0] == "call" and t[1] in ("iter",) and len(t[2]) == 1:
        t = t[2][0]
    return t


def _g5_fact(facts: Dict[Term, bool]) -> Optional[bool]:
    """truth of `self.length > reference.length` in facts (None if absent)."""
    g = T.mk_gt(self_attr("length"), T.mk_attr(V("reference"), "length"))
    pg, pol = T.positive(g)
    if pg in facts:
        return facts[pg] if pol else not facts[pg]
    return None


def _inside_try(fn: FunctionInfo, node: ast.AST) -> bool:
    for t in ast.walk(fn.node):
        if isinstance(t, ast.Try):
            for b in t.body:
                for n in ast.walk(b):
                    if n is node:
                        for h in t.handlers:
                            if h.type is None:
                                return True
                            names = [x.id for x in ast.walk(h.type) if isinstance(x, ast.Name)]
                            if any(x in ("ValueError", "Exception", "BaseException") for x in names):
                                return True
    return False


def _g3_reference_instances(ck):
    """The reductions confirmed on the pinned tree must still carry their identity element."""
    ctx = ck.ctx
    p = ctx.p
    table = [
        ("CorrelationResult", "maxPeak", "max", "default"),
        ("_WorkflowCoordinator", "__getBestAlignment", "next", None),
        ("InitialAlignment", "refine", ".max", "initial"),
    ]
    for cls, meth, idiom, kw in table:
        try:
            fn = p.find_method(cls, meth)
        except AnalysisError:
            if not meth.startswith("__"):
                raise
            # a private helper was renamed or moved: whatever carries the reduction now is judged by the generic scan above
            ck.ok("C07.G3", f"{cls}.{meth}:ref", p.find_class(cls).where, f"private helper {meth} no longer present under that name; "
                  f"its `{idiom}` reduction is judged by the generic scan wherever it lives now")
            continue
        paths = explore(ck, fn, unroll=(0, 1))
        hits = []
        for pa in paths:
            for term, facts, node, kind in path_terms(pa):
                for st in T.subterms(term):
                    if idiom == "max" and st[0] == "call" and st[1] == "max" and len(st[2]) == 1:
                        hits.append((st, dict(st[3]), node, pa))
                    if idiom == "next" and st[0] == "call" and st[1] == "next":
                        hits.append((st, {"default": st[2][1]} if len(st[2]) > 1 else {}, node, pa))
                    if idiom == ".max" and st[0] == "mcall" and st[2] == "max":
                        hits.append((st, dict(st[4]), node, pa))
        if not hits:
            # the reduction was rewritten; the generic G3 scan above judges whatever replaced it
            ck.ok("C07.G3", short(fn) + ":ref", fn.where, f"reference reduction `{idiom}` no longer present; "
                  "replacement judged by the generic scan")
            continue
        st, kws, node, pa = hits[0]
        need = kw or "default"
        if need in kws:
            ck.ok("C07.G3", short(fn) + ":ref", where(fn, node), f"`{idiom}` carries {need}=", T.show(st)[:200])
        # absence is reported by the generic scan (same construct key would duplicate the report)


def _g4(ck):
    ctx = ck.ctx
    fn, call, mapname, worker, target = parallel_map_site(ctx)
    # can the worker return None?
    wpaths = explore(ck, target, unroll=(0, 1))
    may_none = False
    for pa in wpaths:
        if pa.outcome == "fall":
            may_none = True
        elif pa.outcome == "return":
            v = pa.value
            for st in T.subterms(v):
                if st == T.NONE:
                    may_none = True
            if v[0] == "app":
                callee = ctx.p.functions.get(v[1])
                if callee is not None:
                    for p2 in explore(ck, callee, unroll=(0, 1)):
                        if p2.outcome == "fall" or (p2.value is not None and any(s == T.NONE for s in T.subterms(p2.value))):
                            may_none = True
    if not may_none:
        ck.ok("C07.G4", short(fn), where(fn, call), "worker never returns None; no Optional dereference possible")
        return
    # locate the consumer of the map result: a comprehension / loop over the call
    parent = _parent_map(fn.node)
    consumer = parent.get(id(call))
    while consumer is not None and not isinstance(consumer, (ast.comprehension, ast.For, ast.Assign)):
        consumer = parent.get(id(consumer))
    if isinstance(consumer, ast.Assign) and len(consumer.targets) == 1 and isinstance(consumer.targets[0], ast.Name):
        # the map result is bound to a local first: the consumer is the one comprehension / loop that iterates that local
        held = consumer.targets[0].id
        readers = [n for n in ast.walk(fn.node) if isinstance(n, (ast.comprehension, ast.For)) and isinstance(n.iter, ast.Name)
                   and n.iter.id == held]
        consumer = readers[0] if len(readers) == 1 else None
    if consumer is None:
        raise AnalysisError(f"{where(fn, call)}: cannot find the loop/comprehension consuming the parallel map")
    if isinstance(consumer, ast.comprehension):
        var = consumer.target.id if isinstance(consumer.target, ast.Name) else None
        conds = list(consumer.ifs)
        comp_node = parent.get(id(consumer))
        elt = getattr(comp_node, "elt", None)
        if var is None:
            raise AnalysisError(f"{where(fn, call)}: tuple target over the parallel map not supported")
        state = {"guarded": False}

        def uses_attr(n):
            return any(isinstance(x, ast.Attribute) and isinstance(x.value, ast.Name) and x.value.id == var
                       for x in ast.walk(n))

        def is_none_test(n):
            return isinstance(n, ast.Compare) and isinstance(n.left, ast.Name) and n.left.id == var and \
                len(n.ops) == 1 and isinstance(n.ops[0], ast.IsNot) and isinstance(n.comparators[0], ast.Constant) \
                and n.comparators[0].value is None

        def is_truthy_test(n):
            return isinstance(n, ast.Name) and n.id == var

        def is_none_eq(n):
            return isinstance(n, ast.Compare) and isinstance(n.left, ast.Name) and n.left.id == var and \
                len(n.ops) == 1 and isinstance(n.ops[0], ast.Is) and isinstance(n.comparators[0], ast.Constant) \
                and n.comparators[0].value is None

        def is_falsy_test(n):
            return isinstance(n, ast.UnaryOp) and isinstance(n.op, ast.Not) and is_truthy_test(n.operand)

        bad = None
        for c in conds:
            if isinstance(c, ast.BoolOp) and isinstance(c.op, ast.And):
                operands = [(o, False) for o in c.values]
            elif isinstance(c, ast.UnaryOp) and isinstance(c.op, ast.Not) and isinstance(c.operand, ast.BoolOp) \
                    and isinstance(c.operand.op, ast.Or):
                operands = [(o, True) for o in c.operand.values]        # not (a or b)  ==  not a and not b, left to right
            elif isinstance(c, ast.UnaryOp) and isinstance(c.op, ast.Not):
                operands = [(c.operand, True)]                           # `if a is None: continue` read as the filter `not (a is None)`
            else:
                operands = [(c, False)]
            for o, negated in operands:
                if (not negated and (is_none_test(o) or is_truthy_test(o))) or (negated and (is_none_eq(o) or is_falsy_test(o))):
                    state["guarded"] = True
                elif uses_attr(o) and not state["guarded"]:
                    bad = o
        if bad is None and elt is not None and uses_attr(elt) and not state["guarded"]:
            bad = elt
        if bad is not None:
            ck.violation("C07.G4", short(fn), where(fn, bad),
                         "the worker may return None but its result is dereferenced without a preceding None test "
                         "(AttributeError aborts the whole run)",
                         found=ast.unparse(bad), required=f"`{var} is not None` earlier in the same condition")
        else:
            ck.ok("C07.G4", short(fn), where(fn, call),
                  "None test precedes every attribute access on the worker result" if state["guarded"] else
                  "worker result is not dereferenced in the consumer", ast.unparse(comp_node)[:200] if comp_node else "")
    else:
        raise AnalysisError(f"{where(fn, call)}: for-loop consumer of the parallel map: idiom not recognised")


def _parent_map(root):
    parent = {}
    for n in ast.walk(root):
        for c in ast.iter_child_nodes(n):
            parent[id(c)] = n
    return parent


def _g5(ck):
    ctx = ck.ctx
    fn = ctx.p.find_method("OpticalMap", "getInitialAlignment")
    paths = explore(ck, fn, unroll=(0, 1))
    n_corr = 0
    bad = None
    for pa in paths:
        for term, facts, node, kind in path_terms(pa):
            for st in T.subterms(term):
                is_corr = (st[0] == "app" and "Correlation" in st[1] and "getCorrelation" in st[1]) or \
                          (st[0] == "call" and st[1].endswith("correlate"))
                if is_corr:
                    n_corr += 1
                    if _g5_fact(facts) is not False and not _ge_fact(facts):
                        bad = (pa, node, st)
    ck.floor("C07.G5 'valid' correlations in getInitialAlignment", n_corr, 2)
    if bad is not None:
        pa, node, st = bad
        ck.violation("C07.G5", short(fn), where(fn, node),
                     "a 'valid' correlation is reachable without the `self.length > reference.length` early return",
                     found=pa.describe(), required="early return under `self.length > reference.length` dominating the call")
    else:
        ck.ok("C07.G5", short(fn), fn.where, f"guard dominates all {n_corr} correlation evaluations on the enumerated paths")


def _ge_fact(facts) -> bool:
    """a stronger guard (query length >= reference length returns early) is accepted as well"""
    g = T.mk_ge(self_attr("length"), T.mk_attr(V("reference"), "length"))
    pg, pol = T.positive(g)
    if pg in facts:
        val = facts[pg] if pol else not facts[pg]
        return val is False
    return False


def _g7(ck, fns):
    """numpy.argpartition(a, kth) raises when kth >= len(a): the call must be dominated by `kth < size`."""
    n = 0
    for fn in fns:
        if "argpartition" not in __import__("ast").unparse(fn.node):
            continue
        seen = set()
        for pa in explore(ck, fn, unroll=(0, 1)):
            for term, facts, node, kind in path_terms(pa):
                for st, f2 in guarded_subterms(term, facts):
                    if st[0] == "call" and st[1].endswith("argpartition") and len(st[2]) == 2 and st not in seen:
                        seen.add(st)
                        n += 1
                        arr, kth = st[2]
                        base = arr
                        if base[0] == "poly":
                            items = T.to_poly(base)
                            if len(items) == 1:
                                (m, c), = items.items()
                                if len(m) == 1:
                                    base = m[0]
                        ok = False
                        guard_txt = []
                        # a negative kth counts from the end: -k is in bounds whenever k <= size, in particular under k < size
                        neg = T.p_neg(kth)
                        if neg[0] in ("v", "attr", "idx") or (neg[0] == "poly" and all(c > 0 for _, c in T.to_poly(neg).items())):
                            kth = neg
                        for f, tv in f2.items():
                            if tv is True and f[0] == "lt" and T.contains(f, kth):
                                guard_txt.append(T.show(f))
                                items = T.to_poly(f[1])
                                # kth - <size> < 0
                                if items.get((kth,), 0) == 1 and len(items) == 2:
                                    ok = True
                        w = where(fn, node)
                        if ok:
                            ck.ok("C07.G7", short(fn) + ":argpartition", w, "argpartition under a strict `kth < size` guard", "; ".join(guard_txt)[:160])
                        else:
                            weak = [T.show(f) for f, tv in f2.items() if T.contains(f, kth)]
                            ck.violation("C07.G7", short(fn) + ":argpartition", w,
                                         "numpy.argpartition(a, kth) can be reached with kth == len(a) (ValueError: kth out of bounds) - "
                                         "e.g. a correlation with exactly peaksCount peaks aborts the run", found="guards on the path: " +
                                         ("; ".join(weak)[:200] or "none"), required="strict `kth < size` guard")
    ck.floor("C07.G7 argpartition sites", n, 1)
